//go:build verif

// Contracts for property C10 (a completed snapshot or export is the image of exactly one position).
// Checked by govc. Comment-only file.
//
// What is checked here is the SEQUENTIAL lock-bracketing and data-flow half of C10: which locks are held at which
// program point of DB.WriteSnapshotTo / DB.Export, which values flow into the LTX header/trailer, which bytes are read
// from where. That these brackets exclude every interleaving of SQLite writers and checkpointers is C12's exclusion
// lemma plus the SQLite locking protocol; the engine has no schedules.
package litefs

// ===========================================================================
// db.go — WriteSnapshotTo (C10)
//
// Lock automaton `lk` (advanced only when the blocking operation returned nil):
//   0 --RLock PENDING--> 1 --RLock SHARED--> 2 --Unlock PENDING--> 3 --[WAL mode: Lock WRITE (exclusive)--> 4]
//   --sample Pos, pageSize, PageN, copy of the WAL page index--> --Unlock WRITE--> 5
//   --RLock CKPT--> 6 --RLock RECOVER--> 7 --RLock READ0--> 8 --READ1--> 9 --READ2--> 10 --READ3--> 11 --READ4--> 12
//   --Unlock CKPT--> 13 --Unlock RECOVER--> 14 --(open files, encode header, read + encode pages, trailer)
// Encoder automaton `st`: 0 --NewEncoder(dst)--> 1 --EncodeHeader ok--> 2 --SetPostApplyChecksum--> 3 --Close ok--> 4.

// State-level view of the guards WriteSnapshotTo holds while it reads the files: SHARED and READ0..4 shared,
// everything it took on the way (PENDING, WRITE, CKPT, RECOVER) released again.
//@ pred snapReadLocks(gs *GuardSet) = gsh(addr(gs.shared)) &&
//@      gsh(addr(gs.read0)) && gsh(addr(gs.read1)) && gsh(addr(gs.read2)) && gsh(addr(gs.read3)) && gsh(addr(gs.read4)) &&
//@      gun(addr(gs.pending)) && gun(addr(gs.write)) && gun(addr(gs.ckpt)) && gun(addr(gs.recover)) && gun(addr(gs.reserved)) && gun(addr(gs.dms))

// The locks under which the position, the page count and the WAL page index are sampled: SHARED shared, PENDING already
// released, and in WAL mode the WAL write lock exclusive (no writer can append / commit, LiteFS cannot move the position).
//@ pred snapSampleLocks(gs *GuardSet, db *DB) = gsh(addr(gs.shared)) && gun(addr(gs.pending)) &&
//@      (dbModeIs(db, DBModeWAL) ? gs.write.state == RWMutexStateExclusive : gun(addr(gs.write)))

// every guard of the set is released
//@ pred snapAllReleased(gs *GuardSet) = gun(addr(gs.pending)) && gun(addr(gs.shared)) && gun(addr(gs.reserved)) && gun(addr(gs.write)) &&
//@      gun(addr(gs.ckpt)) && gun(addr(gs.recover)) && gun(addr(gs.read0)) && gun(addr(gs.read1)) && gun(addr(gs.read2)) &&
//@      gun(addr(gs.read3)) && gun(addr(gs.read4)) && gun(addr(gs.dms))

// the local copy of the WAL page index holds only entries of the database's index, with the same frame offsets
//@ pred subIndex(m map[uint32]int64, db *DB) = forall p uint32 :: has(m, p) ==> has(db.wal.frameOffsets, p) && m[p] == db.wal.frameOffsets[p]

// number of pages 1..next-1 that are not the lock page
//@ spec func encodedBelow(next uint32, lock uint32) int = int(next) - 1 - (lock < next ? 1 : 0)

//@ func (db *DB) WriteSnapshotTo [C10]
//@   requires  dbWF(db) && ctx != nil && dst != nil
//@   requires  locksWF(db)
//@   thorough  call/litefs.GuardSet.Unlock/pre
//@   thorough  call/litefs.RWMutexGuard.RLock/pre
//@   thorough  call/litefs.RWMutexGuard.Lock/pre
//@   thorough  call/litefs.RWMutexGuard.Unlock/pre
//@   ghost lk int = 0
//@   ghost st int = 0
//@   ghost sPos bool = false
//@   ghost sN bool = false
//@   ghost sTXID ltx.TXID = 0
//@   ghost sChk ltx.Checksum = 0
//@   ghost sPageN uint32 = 0
//@   ghost sought bool = false
//@   ghost fromWal bool = false
//@   ghost readok bool = false
//@   ghost encoded int = 0
//@   ghost acc ltx.Checksum = 0
//@   ghost unlocked bool = false
// --- lock choreography
//@   on call RWMutexGuard.RLock assert (lk == 0 && arg0 == addr(gs.pending)) || (lk == 1 && arg0 == addr(gs.shared)) ||
//@        (lk == 5 && arg0 == addr(gs.ckpt)) || (lk == 6 && arg0 == addr(gs.recover)) || (lk == 7 && arg0 == addr(gs.read0)) ||
//@        (lk == 8 && arg0 == addr(gs.read1)) || (lk == 9 && arg0 == addr(gs.read2)) || (lk == 10 && arg0 == addr(gs.read3)) ||
//@        (lk == 11 && arg0 == addr(gs.read4)) ; then lk = (ret0 == nil ? lk + 1 : lk)
//@   on call RWMutexGuard.Lock assert lk == 3 && arg0 == addr(gs.write) && dbModeIs(db, DBModeWAL) && !sPos ; then lk = (ret0 == nil ? 4 : lk)
//@   on call RWMutexGuard.Unlock assert (lk == 2 && arg0 == addr(gs.pending)) || ((lk == 3 || lk == 4) && arg0 == addr(gs.write)) ||
//@        (lk == 12 && arg0 == addr(gs.ckpt)) || (lk == 13 && arg0 == addr(gs.recover)) ; then lk = (lk == 3 || lk == 4 ? 5 : lk + 1)
// the WAL write lock is released only after position and page count were sampled (the index copy: loop 1 invariant), still under the sampling locks
//@   on call RWMutexGuard.Unlock assert arg0 == addr(gs.write) ==> sPos && sN && snapSampleLocks(gs, db) && (dbModeIs(db, DBModeWAL) <==> lk == 4)
// OBSERVATION O-C10-2 (proved, not a failure): as in Export (finding F-C10-1 below) WRITE is released before CKPT/RECOVER/READ0..4
// are requested; at that moment this guard set holds SHARED only. A commit + checkpoint / replica apply in that window makes the
// pages read later differ from the sampled position; here the checksum self-check turns that into an error return
// ("snapshot checksum mismatch"), not into a wrong snapshot.
//@   on call RWMutexGuard.Unlock assert arg0 == addr(gs.write) ==> gun(addr(gs.ckpt)) && gun(addr(gs.recover)) && gun(addr(gs.read0)) &&
//@        gun(addr(gs.read1)) && gun(addr(gs.read2)) && gun(addr(gs.read3)) && gun(addr(gs.read4)) && gsh(addr(gs.shared))
//@   on call GuardSet.Unlock assert arg0 == gs && !unlocked ; then unlocked = true
// --- sampling
//@   on call DB.Pos assert !sPos && !sN && arg0 == db && snapSampleLocks(gs, db) && (dbModeIs(db, DBModeWAL) ? lk == 4 : lk == 3) ; then sPos = true, sTXID = ret0.TXID, sChk = ret0.PostApplyChecksum
//@   on call DB.PageN assert sPos && !sN && arg0 == db && snapSampleLocks(gs, db) && (dbModeIs(db, DBModeWAL) ? lk == 4 : lk == 3) ; then sN = true, sPageN = ret0
// --- files are opened and read only under the read locks
//@   on call OS.Open op "WRITESNAPSHOT:DB" assert sN && lk == 14 && st == 0 && snapReadLocks(gs)
// (first single call site after the copy loop: the copied index is (part of) the database's index, the page size is the database's)
//@   on call OS.Open op "WRITESNAPSHOT:DB" assert walFrameOffsets != nil && subIndex(walFrameOffsets, db) && pageSize == db.pageSize
//@   on call OS.Open op "WRITESNAPSHOT:WAL" assert sN && lk == 14 && st == 0 && snapReadLocks(gs) && len(walFrameOffsets) > 0
// --- encoder: header carries exactly the sampled values
//@   on call ltx.NewEncoder assert st == 0 && lk == 14 && arg0 == dst ; then st = 1
//@   on call ltx.Encoder.EncodeHeader assert st == 1 && arg0 == enc && arg1.Version == 1 && arg1.MinTXID == 1 && arg1.MaxTXID == sTXID && arg1.Commit == sPageN &&
//@        arg1.PageSize == pageSize && pageSize == db.pageSize && arg1.PreApplyChecksum == 0 && arg1.WALOffset == 0 && arg1.WALSize == 0 &&
//@        arg1.WALSalt1 == 0 && arg1.WALSalt2 == 0 && arg1.NodeID == db.store.id ; then st = (ret0 == nil ? 2 : st)
// --- pages: one seek to the sampled WAL frame (+24: frame header) or to (pgno-1)*pageSize of the database file, one full read
//     of the page buffer from that same file, then exactly that buffer is encoded under that page number
//@   on call os.File.Seek assert st == 2 && !sought && !readok && arg2 == 0 &&
//@        (has(walFrameOffsets, pgno) ? arg0 == walFile && arg1 == walFrameOffsets[pgno] + 24 : arg0 == dbFile && arg1 == int64(pgno - 1) * int64(pageSize)) ; then sought = (ret1 == nil), fromWal = has(walFrameOffsets, pgno)
//@   on call io.ReadFull assert sought && !readok && sameArray(arg1, pageData) && len(arg1) == int(pageSize) && lk == 14 && snapReadLocks(gs) ; then readok = (ret1 == nil), sought = false
//@   on call io.ReadFull assert typeis(arg0, *os.File) && as(arg0, *os.File) == (fromWal ? walFile : dbFile)
//@   on call ltx.Encoder.EncodePage assert st == 2 && readok && arg0 == enc && arg1.Pgno == pgno && pgno != ltx.LockPgno(pageSize) && sameArray(arg2, pageData) && len(arg2) == int(pageSize) &&
//@        (sPageN == 0xffffffff || encoded == encodedBelow(pgno, ltx.LockPgno(pageSize))) ;
//@        then readok = false, encoded = (ret0 == nil ? encoded + 1 : encoded), acc = (ret0 == nil ? acc ^ ltx.ChecksumPage(arg1.Pgno, arg2) : acc)
//@   on call io.Writer.Write assert false
// --- trailer: the checksum is flag | XOR of ChecksumPage over exactly the encoded pages, all pages were encoded, and it is the sampled one
//@   on call ltx.Encoder.SetPostApplyChecksum assert st == 2 && arg0 == enc && !sought && !readok && arg1 == ltx.ChecksumFlag | acc &&
//@        enc.prevPgno == lastEncoded(sPageN + 1, ltx.LockPgno(pageSize)) && encoded == encodedBelow(sPageN + 1, ltx.LockPgno(pageSize)) ; then st = 3
//@   on call ltx.Encoder.SetPostApplyChecksum assert arg1 == sChk
//@   on call ltx.Encoder.Close assert st == 3 && arg0 == enc ; then st = (ret0 == nil ? 4 : st)
//@   on call ltx.Encoder.Header assert st == 4 && arg0 == enc
//@   on call ltx.Encoder.Trailer assert st == 4 && arg0 == enc
// --- loops
//@   loop 1 modifies contents(walFrameOffsets)
//@   loop 1 invariant walFrameOffsets != nil && subIndex(walFrameOffsets, db)
// the copy is COMPLETE: every key the range has produced is in the copy, hence (end of range) every page of the WAL index
//@   loop 1 invariant forall p uint32 :: visited(1, p) ==> has(walFrameOffsets, p)
//@   loop 2 invariant forall p uint32 :: has(db.wal.frameOffsets, p) ==> has(walFrameOffsets, p) [C10]
// the index is copied under the same locks as the position (the loop changes no lock, so this is a statement about the loop entry)
//@   loop 1 invariant sPos && sN && snapSampleLocks(gs, db) && (dbModeIs(db, DBModeWAL) ? lk == 4 : lk == 3)
//@   loop 2 modifies class("F|os.File|*"), contents(pageData), enc.prevPgno, enc.pagesWritten, enc.n, sought, fromWal, readok, encoded, acc
//@   loop 2 invariant st == 2 && lk == 14 && sPos && sN && !sought && !readok && !unlocked && snapReadLocks(gs)
//@   loop 2 invariant enc != nil && enc.state == "page" && enc.header.PageSize == pageSize && enc.header.Commit == sPageN && enc.header.MaxTXID == sTXID && enc.header.MinTXID == 1
//@   loop 2 invariant pageN == sPageN && pos.TXID == sTXID && pos.PostApplyChecksum == sChk && pageSize == db.pageSize && pageSize >= 512 && pageSize <= 65536
//@   loop 2 invariant lockPgno == ltx.LockPgno(pageSize) && len(pageData) == int(pageSize) && walFrameOffsets != nil && ctx != nil
//@   loop 2 invariant (pgno >= 1 && pgno - 1 <= pageN && enc.prevPgno == lastEncoded(pgno, lockPgno) && encoded == encodedBelow(pgno, lockPgno)) || (pgno == 0 && pageN == 0xffffffff)
//@   loop 2 invariant chksum == acc
// --- results (`proves`: about ghosts/locals, not exported to callers; `ensures`: exported)
//@   proves    unlocked
//@   proves    err == nil ==> st == 4 && lk == 14 && sPos && sN
//@   proves    err == nil ==> header.MaxTXID == sTXID && header.Commit == sPageN && trailer.PostApplyChecksum == sChk
//@   proves    err == nil ==> trailer.PostApplyChecksum == ltx.ChecksumFlag | acc && encoded == encodedBelow(sPageN + 1, ltx.LockPgno(db.pageSize))
//@   ensures   err == nil ==> header.Version == 1 && header.MinTXID == 1 && header.PreApplyChecksum == 0 && header.PageSize == db.pageSize
//@   ensures   err == nil ==> header.MaxTXID == posOf(db).TXID && trailer.PostApplyChecksum == posOf(db).PostApplyChecksum && header.Commit == aload(db.pageN)
//@   ensures   err != nil ==> header.Version == 0 && header.MinTXID == 0 && header.MaxTXID == 0 && header.Commit == 0 && header.PageSize == 0 && trailer.PostApplyChecksum == 0 && trailer.FileChecksum == 0
//@   ensures   posOf(db) == old(posOf(db)) && aload(db.pageN) == old(aload(db.pageN)) && unchanged(db.pageSize, db.wal.frameOffsets)
// (the two quantified frame clauses take ~8 s each on the merged exit)
//@   ensures   forall p uint32 :: has(db.wal.frameOffsets, p) <==> old(has(db.wal.frameOffsets, p))
//@   ensures   forall p uint32 :: db.wal.frameOffsets[p] == old(db.wal.frameOffsets[p])
//@   ensures   dbWF(db)
//@   ensures   locksWF(db)
// (No `modifies` clause: callers havoc the computed mod-set - lock state, encoder, byte buffers, map[uint32]int64 - and get the
// `ensures` above back. A class-level frame is not stronger than that, an object-level one is beyond the solvers' budget here.)
//@   mergeexits
//@   nopanic

// ===========================================================================
// db.go — Export (C10). The full contract is in zz_contracts_drop_import_verif.go ([C16,C10]); merged additions:

// In WAL mode nothing but the WAL write lock protects the sampled view (position, page count, WAL page index) against a
// committing writer, a checkpoint (SQLite's, or LiteFS's own CheckpointNoLock / ApplyLTXNoLock under AcquireWriteLock) and a
// WAL restart until the READ locks are held: READ0 shared blocks the back-fill of the database file, READ1..4 shared block the
// WAL restart, WRITE/CKPT/RECOVER/READ0..4 exclusive is what AcquireWriteLock needs. The hand-over must therefore overlap:
// when WRITE is released the READ locks are already held.
//@ pred walHandOver(gs *GuardSet) = gsh(addr(gs.read0)) && gsh(addr(gs.read1)) && gsh(addr(gs.read2)) && gsh(addr(gs.read3)) && gsh(addr(gs.read4))

//@ func (db *DB) Export [C10]
// reading a file moves the offset kept in the *os.File the function opened (engine: io.ReadFull havocs the reader object)
//@   loop 2 modifies class("F|os.File|*")
// FINDING F-C10-1 (fails on the unchanged code): WRITE is released BEFORE CKPT/RECOVER/READ0..4 are requested. Between the two
// Export holds only SHARED (shared), which excludes nobody in WAL mode. Sequence (WAL mode, e.g. on a replica): Export samples
// pos = P and the WAL index, releases WRITE; the replication stream takes the full write lock (AcquireWriteLock: SHARED shared,
// all SHM locks exclusive - granted), ApplyLTXNoLock(P+1) rewrites page k of the database file and truncates the WAL, releases;
// Export now gets its READ locks, reads page k from the database file (k was not in the sampled index) = image of P+1, other
// pages from stale WAL offsets, and returns pos P with a nil error. Same with a SQLite writer + checkpoint + WAL restart on
// the primary. Export has no checksum self-check, so the mixture is delivered as a success.
//@   on call RWMutexGuard.Unlock assert arg0 == addr(gs.write) && dbModeIs(db, DBModeWAL) ==> walHandOver(gs)
// Machine-checked witness of F-C10-1 (discharged): at the moment WRITE is released none of CKPT, RECOVER, READ0..4 is held by
// this guard set (the solvers answer `timeout`, not `sat`, on the failing assertion above because of the quantified lock facts;
// this clause proves its negation on every path that reaches the release).
//@   on call RWMutexGuard.Unlock assert arg0 == addr(gs.write) ==> gun(addr(gs.ckpt)) && gun(addr(gs.recover)) && gun(addr(gs.read0)) &&
//@        gun(addr(gs.read1)) && gun(addr(gs.read2)) && gun(addr(gs.read3)) && gun(addr(gs.read4)) && gsh(addr(gs.shared))
