//go:build verif

// Contracts for the WAL write path and WAL commit capture (property C03, with the C07/C11 guards that live
// in the same functions). Comment-only; checked by govc.
package litefs

// ===========================================================================
// Helpers

// Big-endian 32-bit field of a byte slice (what binary.BigEndian.Uint32(b[i:]) returns).
//@ spec func be32(b []uint8, i int) uint32 = uint32(b[i])<<24 | uint32(b[i+1])<<16 | uint32(b[i+2])<<8 | uint32(b[i+3])

// The in-memory picture of the WAL (capture offset, generation salts, running checksum, page index, page checksums).
//@ pred walStateUnchanged(db *DB) = unchanged(db.wal.offset, db.wal.byteOrder, db.wal.salt1, db.wal.salt2, db.wal.chksum1, db.wal.chksum2, db.wal.frameOffsets, db.wal.chksums)

// ===========================================================================
// db.go — WAL writes issued by SQLite through the mount (C03, C07, C11)

// writeWALHeader: the 32-byte header reaches the file only under the exclusive WRITE lock; a header write
// starts a new generation of the log: capture offset 32, salts and checksum seed from the header, empty page
// index and empty per-page WAL checksums. Any refusal (size, lock, magic) leaves the picture untouched.
//@ func (db *DB) writeWALHeader [C03,C07,C11]
//@   requires  db != nil && f != nil
//@   ghost excl bool = false
//@   ghost wrote bool = false
//@   on call RWMutex.State assert arg0 == addr(db.writeLock) ; then excl = (ret0 == RWMutexStateExclusive)
//@   on call os.File.WriteAt assert excl && !wrote && arg0 == f && arg2 == offset && len(arg1) == WALHeaderSize ; then wrote = true
//@   modifies  db.wal.offset, db.wal.byteOrder, db.wal.salt1, db.wal.salt2, db.wal.chksum1, db.wal.chksum2, db.wal.frameOffsets, db.wal.chksums
//@   ensures   err == nil ==> wrote
//@   ensures   !wrote ==> err != nil && walStateUnchanged(db)
//@   ensures   old(db.writeLock.excl) == nil || len(data) != WALHeaderSize ==> !wrote
//@   ensures   wrote ==> db.wal.offset == WALHeaderSize && db.wal.byteOrder != nil
//@   ensures   wrote ==> db.wal.salt1 == be32(data, 16) && db.wal.salt2 == be32(data, 20) && db.wal.chksum1 == be32(data, 24) && db.wal.chksum2 == be32(data, 28)
//@   ensures   wrote ==> db.wal.frameOffsets != nil && (forall p uint32 :: !has(db.wal.frameOffsets, p))
//@   proves    wrote ==> fresh(db.wal.frameOffsets)
//@   ensures   wrote ==> db.wal.chksums != nil && (forall p uint32 :: !has(db.wal.chksums, p))
//@   proves    wrote ==> fresh(db.wal.chksums)
//@   ensures   wrote ==> (be32(data, 0) == 0x377f0682 || be32(data, 0) == 0x377f0683)
//@   nopanic

// writeWALFrameHeader / writeWALFrameData: pass-through writes, allowed only under the exclusive WRITE lock
// and never before the captured offset (frames of captured transactions are immutable). No in-memory effect.
//@ func (db *DB) writeWALFrameHeader [C03,C07,C11]
//@   requires  db != nil && f != nil
//@   ghost excl bool = false
//@   ghost wrote bool = false
//@   on call RWMutex.State assert arg0 == addr(db.writeLock) ; then excl = (ret0 == RWMutexStateExclusive)
//@   on call os.File.WriteAt assert excl && !wrote && arg0 == f && arg2 == offset && offset >= db.wal.offset && sameArray(arg1, data) && len(arg1) == len(data) ; then wrote = true
//@   modifies
//@   ensures   err == nil ==> wrote
//@   ensures   db.writeLock.excl == nil || offset < db.wal.offset ==> err != nil && !wrote
//@   nopanic

//@ func (db *DB) writeWALFrameData [C03,C07,C11]
//@   requires  db != nil && f != nil
//@   ghost excl bool = false
//@   ghost wrote bool = false
//@   on call RWMutex.State assert arg0 == addr(db.writeLock) ; then excl = (ret0 == RWMutexStateExclusive)
//@   on call os.File.WriteAt assert excl && !wrote && arg0 == f && arg2 == offset && offset >= db.wal.offset && sameArray(arg1, data) && len(arg1) == len(data) ; then wrote = true
//@   modifies
//@   ensures   err == nil ==> wrote
//@   ensures   db.writeLock.excl == nil || offset < db.wal.offset ==> err != nil && !wrote
//@   nopanic

// WriteWALAt: a replica refuses every WAL write with ErrReadOnlyReplica and without any effect; on a
// writable node exactly one of the three helpers runs, chosen by the offset alone: offset 0 is the
// header, an offset inside the first 24 bytes of a frame slot is a (possibly partial) frame header,
// anything else is page data.
// The page size must be known (the code asserts it): callers are the FUSE WAL file handlers.
//@ func (db *DB) WriteWALAt [C03,C07,C11]
//@   requires  dbWF(db) && f != nil && db.pageSize != 0
//@   ghost w bool = false
//@   ghost n int = 0
//@   on call DB.Writeable assert n == 0 ; then w = ret0
//@   on call DB.writeWALHeader assert w && n == 0 && len(data) != 0 && arg2 == f && arg4 == 0 && offset == 0 && sameArray(arg3, data) && len(arg3) == len(data) ; then n = 1
//@   on call DB.writeWALFrameHeader assert w && n == 0 && len(data) != 0 && arg2 == f && arg4 == offset && offset != 0 && sameArray(arg3, data) && len(arg3) == len(data) &&
//@        arg5 == (offset - WALHeaderSize) % (WALFrameHeaderSize + int64(db.pageSize)) && arg5 < WALFrameHeaderSize ; then n = 1
//@   on call DB.writeWALFrameData assert w && n == 0 && len(data) != 0 && arg2 == f && arg4 == offset && offset != 0 && sameArray(arg3, data) && len(arg3) == len(data) &&
//@        (offset - WALHeaderSize) % (WALFrameHeaderSize + int64(db.pageSize)) >= WALFrameHeaderSize ; then n = 1
//@   modifies  db.wal.offset, db.wal.byteOrder, db.wal.salt1, db.wal.salt2, db.wal.chksum1, db.wal.chksum2, db.wal.frameOffsets, db.wal.chksums
//@   ensures   !w ==> err == ErrReadOnlyReplica && n == 0 && walStateUnchanged(db)
//@   ensures   w && len(data) == 0 ==> err == nil && n == 0 && walStateUnchanged(db)
//@   ensures   w && len(data) != 0 ==> n == 1
//@   ensures   offset != 0 ==> walStateUnchanged(db)
//@   ensures   err == nil && offset == 0 && len(data) != 0 ==> db.wal.offset == WALHeaderSize && db.wal.salt1 == be32(data, 16) && db.wal.salt2 == be32(data, 20) &&
//@             db.wal.chksum1 == be32(data, 24) && db.wal.chksum2 == be32(data, 28) && (forall p uint32 :: !has(db.wal.frameOffsets, p)) && (forall p uint32 :: !has(db.wal.chksums, p))
//@   ensures   err == nil && offset != 0 && len(data) != 0 ==> old(db.writeLock.excl) != nil && offset >= db.wal.offset
//@   ensures   dbWF(db)
//@   nopanic

// ===========================================================================
// db.go — transaction discovery from the captured offset (C03; arbitrary WAL bytes: C17)

// Size in bytes of one WAL frame slot of this database.
//@ spec func walFrameSize(db *DB) int64 = WALFrameHeaderSize + int64(db.pageSize)

// What CommitWAL needs to scan a WAL: a usable page size (WALChecksum works on 8-byte words) and a sane
// capture offset. (The byte order is deliberately NOT part of it, see buildTxFrameOffsets.)
//@ pred walScanReady(db *DB) = db.pageSize != 0 && db.pageSize % 8 == 0 && db.wal.offset >= 0

// buildTxFrameOffsets scans whole frames from the captured offset, contiguously, and
//  * never reads again after it has seen a commit frame (it returns at the FIRST commit frame);
//  * on success: the last frame read is a commit frame (commit field != 0 and returned as `commit`) whose
//    salts equal the current generation's salts and whose stored checksum equals the cumulative checksum
//    returned (chksum1/2); its page is in the map at the offset of that frame; endOffset is the end of that
//    frame, strictly beyond the captured offset; every offset in the map is a frame inside [captured offset, endOffset);
//  * errNoTransaction (EOF, short frame, salt mismatch, checksum mismatch) and every other error return
//    all-zero results;
//  * nothing in memory changes (the map returned is fresh).
// The cumulative checksum is an uninterpreted fold here (WALChecksum has no functional spec); what is proved is
// that the value compared with the frame's stored checksum is the one returned and later stored by CommitWAL.
//@ func (db *DB) buildTxFrameOffsets [C03,C17]
//@   requires  dbWF(db) && walFile != nil && walScanReady(db)
// A-WALHDR (unchecked, listed): a frame whose salts match is only ever readable at db.wal.offset after the WAL header
// went through writeWALHeader in this process, which sets the byte order (SQLite writes the header first into an empty
// WAL, and recovery leaves the WAL empty). File contents are not modelled, so "no header seen => no matching frame" is assumed.
//@   on call WALChecksum assume !isnil(arg0)
//@   ghost started bool = false
//@   ghost expected int64 = 0
//@   ghost sawCommit bool = false
//@   ghost rd int = 0
//@   on call internal.ReadFullAt ; then rd = (ret1 == nil ? 1 : (ret1 == io.EOF || ret1 == io.ErrUnexpectedEOF ? 2 : 3))
//@   on call internal.ReadFullAt assert !sawCommit && arg2 == (started ? expected : db.wal.offset) && sameArray(arg1, frame) && len(arg1) == len(frame) ; then started = true, expected = arg2 + int64(len(arg1))
//@   ghost phase int = 0
//@   ghost seeded bool = false
//@   ghost g1 uint32 = 0
//@   ghost g2 uint32 = 0
//@   on call WALChecksum assert arg0 == db.wal.byteOrder && sameArray(arg3, frame) &&
//@        (phase == 0 ==> cap(arg3) == cap(frame) && len(arg3) == 8 && arg1 == (seeded ? g1 : db.wal.chksum1) && arg2 == (seeded ? g2 : db.wal.chksum2)) &&
//@        (phase != 0 ==> cap(arg3) == cap(frame) - WALFrameHeaderSize && len(arg3) == int(db.pageSize) && arg1 == g1 && arg2 == g2) ; then phase = 1 - phase, seeded = true, g1 = ret0, g2 = ret1
//@   on call binary.bigEndian.Uint32 ; then sawCommit = (len(arg1) == len(frame) - 4 ? ret0 != 0 : sawCommit)
//@   loop 1 invariant len(frame) == int(walFrameSize(db)) && m != nil && fresh(m) && !sawCommit &&
//@          offset == (started ? expected : db.wal.offset) && offset >= db.wal.offset && (started ==> offset <= 0x4000000000000000) &&
//@          (forall p uint32 :: has(m, p) ==> db.wal.offset <= m[p] && m[p] < offset) &&
//@          phase == 0 && seeded == started && chksum1 == (seeded ? g1 : db.wal.chksum1) && chksum2 == (seeded ? g2 : db.wal.chksum2)
//@   loop 1 modifies contents(frame), contents(m), started, expected, sawCommit, rd, phase, seeded, g1, g2
//@   modifies
//@   proves    err == nil ==> sawCommit
//@   ensures   err == nil ==> result0 != nil && fresh(result0) && commit != 0
//@   proves    err == nil ==> commit == be32(frame, 4) && be32(frame, 8) == db.wal.salt1 && be32(frame, 12) == db.wal.salt2
//@   proves    err == nil ==> chksum1 == be32(frame, 16) && chksum2 == be32(frame, 20) && chksum1 == g1 && chksum2 == g2 && phase == 0 && seeded
//@   proves    err == nil ==> endOffset == expected
//@   ensures   err == nil ==> endOffset > db.wal.offset && endOffset <= 0x4000000000000000
//@   proves    err == nil ==> has(result0, be32(frame, 0)) && result0[be32(frame, 0)] == endOffset - walFrameSize(db)
//@   proves    err == nil ==> (forall p uint32 :: has(result0, p) ==> db.wal.offset <= result0[p] && result0[p] < endOffset)
//@   ensures   err != nil ==> result0 == nil && commit == 0 && chksum1 == 0 && chksum2 == 0 && endOffset == 0
//@   proves    rd != 0 && (rd == 2 ==> err == errNoTransaction) && (rd == 3 ==> err != nil && err != errNoTransaction) && (rd == 1 ==> err == nil || err == errNoTransaction)
//@   nopanic

// ===========================================================================
// db.go — the page image before the current transaction (used for truncated pages) (C03)

// readPage: the last captured WAL frame of the page if the page index has one (frame header read at the
// indexed offset, then the page body 24 bytes further), otherwise the page slot of the database file.
// Only buf changes.
//@ func (db *DB) readPage [C03]
//@   requires  db != nil && dbFile != nil && walFile != nil && pgno > 0
//@   ghost n int = 0
//@   on call internal.ReadFullAt assert (has(db.wal.frameOffsets, pgno) ==> as(arg0, *os.File) == walFile &&
//@          (n == 0 ==> len(arg1) == WALFrameHeaderSize && arg2 == db.wal.frameOffsets[pgno]) &&
//@          (n != 0 ==> n == 1 && sameArray(arg1, buf) && len(arg1) == len(buf) && arg2 == db.wal.frameOffsets[pgno] + WALFrameHeaderSize)) &&
//@        (!has(db.wal.frameOffsets, pgno) ==> n == 0 && as(arg0, *os.File) == dbFile && sameArray(arg1, buf) && len(arg1) == len(buf) &&
//@          arg2 == int64(pgno - 1) * int64(db.pageSize)) ; then n = (ret1 == nil ? n + 1 : n)
//@   modifies  contents(buf)
//@   ensures   result == nil ==> n == (has(db.wal.frameOffsets, pgno) ? 2 : 1)
//@   nopanic

// ===========================================================================
// db.go — capture of a committed WAL transaction into an LTX file (C03, C05, C07, C09)

// The process-exit hook db.store.Exit (os.Exit in production) is treated by the engine as non-returning.

// Store notifications: subscribers' dirty sets / event channels only; no DB state. (Not inlined into CommitWAL.)
//@ func (s *Store) MarkDirty
//@   requires  s != nil
//@ func (s *Store) NotifyEvent
//@   requires  s != nil

// The WAL page index and WAL page-checksum overlay exist (NewDB, writeWALHeader, TruncateWAL keep them non-nil),
// the halt-lock cell holds a *HaltLock (NewDB stores a typed nil), and a node that holds a remote halt lock
// has a replication client (the lock was obtained through it).
//@ pred walMapsReady(db *DB) = db.wal.frameOffsets != nil && db.wal.chksums != nil
//@ pred haltCellWF(db *DB) = typeis(aload(db.remoteHaltLock), *HaltLock) &&
//@      (as(aload(db.remoteHaltLock), *HaltLock) != nil ==> db.store.Client != nil)

// Frame of CommitWAL for its callers. CommitWAL has no `modifies` clause (the frame check of a function this size
// with merged exits does not terminate in useful time), so callers forget every heap class it may write; this
// predicate gives them back what they need: no guard, no mutex and no guard-set registration changes.
//@ pred lockStateFrame(db *DB) = (forall g *RWMutexGuard :: g.state == old(g.state) && g.rw == old(g.rw)) &&
//@      (forall rw *RWMutex :: rw.sharedN == old(rw.sharedN) && rw.excl == old(rw.excl) && rw.S == old(rw.S)) &&
//@      db.guardSets.m == old(db.guardSets.m) && (forall o uint64 :: db.guardSets.m[o] == old(db.guardSets.m[o]))

// CommitWAL — protocol automaton.
//   stage 0 -> 1  WAL fsynced            1 -> 2  a complete committed transaction was found (buildTxFrameOffsets)
//   2 -> 3  temp LTX created             3 -> 4  header encoded       4: pages encoded (loop 2), truncated pages checked (loop 3)
//   4 -> 5  post-apply checksum computed 5 -> 6  stored in trailer    6 -> 7  encoder closed   7 -> 8  LTX fsynced
//   8: [remote commit when a remote halt lock is held]; Writeable() re-checked
//   8 -> 9  renamed into place           9 -> 10 directory fsynced    -- durable; only now memory changes --
//   10: page index, page checksums, pageN, wal.offset, wal.chksum1/2    10 -> 11 setPos   11 -> 12 MarkDirty
// `noTx` is true when buildTxFrameOffsets answered errNoTransaction. Every error path ends in db.store.Exit(99)
// (non-returning), so a return always carries err == nil: either the full protocol ran (stage 12) or there was
// no transaction. Every fatal exit before stage 10 leaves the in-memory WAL picture and the position exactly as
// they were. The two single-conjunct EncodePage assertions are the finding obligations (see NOTES.md).
//@ func (db *DB) CommitWAL [C03,C05,C07,C09]
//@   requires  dbWF(db) && walScanReady(db) && walMapsReady(db) && walKeysPositive(db) && haltCellWF(db)
//@   mergeexits
//@   ghost stage int = 0
//@   ghost noTx bool = false
//@   ghost w bool = false
//@   ghost remoteOK bool = false
//@   ghost pageNSet bool = false
//@   ghost post ltx.Checksum = 0
//@   ghost endOff int64 = 0
//@   ghost c1 uint32 = 0
//@   ghost c2 uint32 = 0
//@   ghost cm uint32 = 0
//@   ghost lf *os.File = nil
//@   on call OS.Open op "COMMITWAL:WAL" assert stage == 0
//@   on call os.File.Sync assert (stage == 0 && arg0 == walFile) || (stage == 7 && arg0 == lf) ; then stage = (ret0 != nil ? stage : (stage == 0 ? 1 : 8))
//@   on call DB.buildTxFrameOffsets assert stage == 1 && arg1 == walFile ; then noTx = (ret5 == errNoTransaction), stage = (ret5 == nil ? 2 : stage), cm = ret1, c1 = ret2, c2 = ret3, endOff = ret4
//@   on call OS.Open op "COMMITWAL:DB" assume cm <= 0xffffff00 && prevPageN <= 0xffffff00
//@   on call OS.Create op "COMMITWAL:LTX" assert stage == 2 ; then stage = (ret1 == nil ? 3 : stage), lf = ret0
//@   on call ltx.Encoder.EncodeHeader assert stage == 3 && arg1.Version == 1 && arg1.MinTXID == old(posOf(db)).TXID + 1 && arg1.MaxTXID == arg1.MinTXID &&
//@        arg1.PreApplyChecksum == old(posOf(db)).PostApplyChecksum && arg1.PageSize == db.pageSize && arg1.Commit == cm && cm != 0 &&
//@        arg1.WALOffset == old(db.wal.offset) && arg1.WALSize == endOff - old(db.wal.offset) && arg1.WALSize > 0 &&
//@        arg1.WALSalt1 == db.wal.salt1 && arg1.WALSalt2 == db.wal.salt2 ; then stage = (ret0 == nil ? 4 : stage)
//@   on call ltx.Encoder.EncodePage assert stage == 4 && len(arg2) == int(db.pageSize)
// every encoded page lies inside the committed size (pages a transaction spilled and then truncated are skipped).
// (A checksum-valid frame with page number 0 cannot come from SQLite; ltx refuses it and CommitWAL stops the node: not demanded here.)
//@   on call ltx.Encoder.EncodePage assert arg1.Pgno <= cm
//@   on call DB.checksum assert (forall p uint32 :: cm < p && p <= prevPageN && p != ltx.LockPgno(db.pageSize) ==> has(newWALChksums, p) && newWALChksums[p] == 0)
//@   on call DB.checksum assert stage == 4 && arg1 == cm && arg2 == newWALChksums ; then stage = (ret1 == nil ? 5 : stage), post = ret0
//@   on call ltx.Encoder.SetPostApplyChecksum assert stage == 5 && arg1 == post ; then stage = 6
//@   on call ltx.Encoder.Close assert stage == 6 ; then stage = (ret0 == nil ? 7 : stage)
//@   on call Client.Commit assert stage == 8 && haltLock != nil && arg4 == haltLock.ID && arg3 == db.name ; then remoteOK = (ret0 == nil)
//@   on call DB.Writeable assert stage == 8 ; then w = ret0
//@   on call OS.Rename op "COMMITWAL:LTX" assert stage == 8 && w && (haltLock != nil ==> remoteOK) ; then stage = (ret0 == nil ? 9 : stage)
//@   on call internal.Sync assert stage == 9 ; then stage = (ret0 == nil ? 10 : stage)
//@   on call atomic.Uint32.Store assert stage == 10 && !pageNSet && arg0 == addr(db.pageN) && arg1 == cm ; then pageNSet = true
//@   on call DB.setPos assert stage == 10 && pageNSet && arg1.TXID == old(posOf(db)).TXID + 1 && arg1.PostApplyChecksum == post &&
//@        db.wal.offset == endOff && db.wal.chksum1 == c1 && db.wal.chksum2 == c2 ; then stage = 11
//@   on call Store.MarkDirty assert stage == 11 ; then stage = 12
//@   on call field.Store.Exit assert !noTx && (stage < 10 ==> walStateUnchanged(db) && posOf(db) == old(posOf(db)) && !pageNSet)
//@   loop 1 invariant stage == 4
//@   loop 1 modifies class("C|[]uint32"), class("S|uint32")
//@   loop 2 invariant stage == 4 && -1 <= rangeindex && rangeindex < len(pgnos) && enc.header.Commit == cm && enc.header.PageSize == db.pageSize &&
//@          (forall p uint32 :: has(newWALChksums, p) ==> p > 0)
//@   loop 2 modifies contents(frame), contents(newWALChksums), enc.prevPgno, enc.pagesWritten, enc.n, class("S|any")
//@   loop 3 invariant stage == 4 && pgno > cm && (forall p uint32 :: has(newWALChksums, p) ==> p > 0) &&
//@          (forall p uint32 :: cm < p && p < pgno && p != ltx.LockPgno(db.pageSize) ==> has(newWALChksums, p) && newWALChksums[p] == 0)
//@   loop 3 modifies contents(page), contents(newWALChksums), class("S|any")
//@   loop 4 invariant stage == 10 && !pageNSet
//@   loop 4 modifies contents(db.wal.frameOffsets)
//@   loop 5 invariant stage == 10 && !pageNSet && walKeysPositive(db) && (forall p uint32 :: has(newWALChksums, p) ==> p > 0)
//@   loop 5 modifies contents(db.wal.chksums), class("S|ltx.Checksum")
// every page of the transaction is recorded: each key the ranges have produced so far is in the WAL page index / the WAL
// checksum overlay (in particular the zero markers of truncated pages are kept: they force a page-by-page sum of their block)
//@   loop 4 invariant forall p uint32 :: visited(4, p) ==> has(db.wal.frameOffsets, p)
//@   loop 5 invariant forall p uint32 :: visited(5, p) ==> has(db.wal.chksums, p)
//@   ensures   err == nil
//@   ensures   stage == 12 || (noTx && stage == 1)
//@   ensures   lockStateFrame(db)
//@   ensures   dbWF(db) && walScanReady(db) && walMapsReady(db) && walKeysPositive(db) && db.pageSize == old(db.pageSize)
//@   ensures   stage == 12 ==> db.wal.offset == endOff && endOff > old(db.wal.offset) && db.wal.chksum1 == c1 && db.wal.chksum2 == c2 &&
//@             db.wal.salt1 == old(db.wal.salt1) && db.wal.salt2 == old(db.wal.salt2) && db.wal.byteOrder == old(db.wal.byteOrder)
//@   ensures   noTx ==> walStateUnchanged(db) && posOf(db) == old(posOf(db)) && !pageNSet
//@   nopanic

// ===========================================================================
// db.go — the capture trigger: releasing the WAL WRITE lock (C03, C11)

// The guard set registered for an owner (nil when the owner never locked anything).
//@ spec func gsOf(db *DB, owner uint64) *GuardSet = db.guardSets.m[owner]
// The twelve locks are well formed and a registered guard set is bound to them (what newGuardSet establishes).
//@ pred ownerBound(db *DB, owner uint64) = locksWF(db) && (gsOf(db, owner) != nil ==> guardSetWF(gsOf(db, owner), db))
// GuardSet.Guard as a function of the lock type (it panics on any other value).
//@ spec func guardOf(s *GuardSet, t LockType) *RWMutexGuard = (t == LockTypePending ? addr(s.pending) : (t == LockTypeShared ? addr(s.shared) : (t == LockTypeReserved ? addr(s.reserved) :
//@      (t == LockTypeWrite ? addr(s.write) : (t == LockTypeCkpt ? addr(s.ckpt) : (t == LockTypeRecover ? addr(s.recover) : (t == LockTypeRead0 ? addr(s.read0) :
//@      (t == LockTypeRead1 ? addr(s.read1) : (t == LockTypeRead2 ? addr(s.read2) : (t == LockTypeRead3 ? addr(s.read3) : (t == LockTypeRead4 ? addr(s.read4) : addr(s.dms))))))))))))
// (No `nopanic` here: Guard deliberately panics on a lock type outside the twelve; whenever it returns the result is
// the guard below. Callers in the FUSE layer pass the results of ParseDatabaseLockRange / ParseSHMLockRange only.)
//@ func (s *GuardSet) Guard [C11,C03]
//@   requires  s != nil
//@   modifies
//@   ensures   result == guardOf(s, lockType)

// Everything CommitWAL needs from its caller.
//@ pred commitWALReady(db *DB) = dbWF(db) && walScanReady(db) && walMapsReady(db) && walKeysPositive(db) && haltCellWF(db)

// DB.Unlock: CommitWAL runs exactly when WRITE is among the lock types being released and this owner's
// WRITE guard is held exclusively - once, and before any guard is released; then every listed guard is released.
//@ func (db *DB) Unlock [C03,C11]
//@   requires  commitWALReady(db) && ownerBound(db, owner)
//@   ghost committed bool = false
//@   ghost released int = 0
//@   on call DB.CommitWAL assert !committed && released == 0 && sliceHas(lockTypes, LockTypeWrite) && gsOf(db, owner) != nil &&
//@        gsOf(db, owner).write.state == RWMutexStateExclusive && db.writeLock.excl == addr(gsOf(db, owner).write) ; then committed = true
//@   on call RWMutexGuard.Unlock assert gsOf(db, owner) != nil &&
//@        (old(sliceHas(lockTypes, LockTypeWrite) && gsOf(db, owner).write.state == RWMutexStateExclusive) ==> committed) ; then released = released + 1
//@   loop 1 invariant -1 <= rangeindex && rangeindex < len(lockTypes) && guardSet == old(gsOf(db, owner)) && guardSet != nil && gsDatabaseBound(guardSet) && gsSHMBound(guardSet) &&
//@          committed == old(sliceHas(lockTypes, LockTypeWrite) && gsOf(db, owner).write.state == RWMutexStateExclusive) && released == rangeindex + 1
//@   ensures   result == nil
//@   ensures   committed == old(gsOf(db, owner) != nil && sliceHas(lockTypes, LockTypeWrite) && gsOf(db, owner).write.state == RWMutexStateExclusive)
//@   ensures   old(gsOf(db, owner)) != nil ==> released == len(lockTypes)
//@   nopanic

// UnlockSHM (flush of the SHM handle): CommitWAL runs exactly when this owner's WRITE guard is held exclusively,
// before the nine SHM guards are released.
//@ func (db *DB) UnlockSHM [C03,C11]
//@   requires  commitWALReady(db) && ownerBound(db, owner)
//@   ghost committed bool = false
//@   ghost released bool = false
//@   on call DB.CommitWAL assert !committed && !released && gsOf(db, owner) != nil && gsOf(db, owner).write.state == RWMutexStateExclusive &&
//@        db.writeLock.excl == addr(gsOf(db, owner).write) ; then committed = true
//@   on call GuardSet.UnlockSHM assert !released && arg0 == old(gsOf(db, owner)) && (old(gsOf(db, owner).write.state) == RWMutexStateExclusive ==> committed) ; then released = true
//@   ensures   committed == old(gsOf(db, owner) != nil && gsOf(db, owner).write.state == RWMutexStateExclusive)
//@   ensures   released == (old(gsOf(db, owner)) != nil)
//@   ensures   old(gsOf(db, owner)) != nil ==> old(gsOf(db, owner)).write.state == RWMutexStateUnlocked
//@   nopanic

// ===========================================================================
// db.go — WAL file lifecycle (C03)

// CreateWAL: creates the file through the OS layer; no in-memory effect.
//@ func (db *DB) CreateWAL [C03]
//@   requires  db != nil && db.os != nil
//@   modifies
//@   ensures   err == nil ==> result0 != nil
//@   nopanic

// TruncateWAL: only truncation to zero is accepted; the page index and the WAL page checksums are dropped
// only after the file was truncated. (The capture offset, salts and running checksum are left alone: they are
// reset by the header write that must precede the next frame.)
//@ func (db *DB) TruncateWAL [C03]
//@   requires  db != nil && db.os != nil
//@   ghost truncated bool = false
//@   on call OS.Truncate op "TRUNCATEWAL" assert size == 0 && arg2 == 0 && !truncated ; then truncated = (ret0 == nil)
//@   modifies  db.wal.frameOffsets, db.wal.chksums
//@   ensures   size != 0 ==> err != nil
//@   ensures   (err == nil) == truncated
//@   ensures   err != nil ==> unchanged(db.wal.frameOffsets, db.wal.chksums)
//@   ensures   err == nil ==> db.wal.frameOffsets != nil && (forall p uint32 :: !has(db.wal.frameOffsets, p))
//@   proves    err == nil ==> fresh(db.wal.frameOffsets)
//@   ensures   err == nil ==> db.wal.chksums != nil && (forall p uint32 :: !has(db.wal.chksums, p))
//@   proves    err == nil ==> fresh(db.wal.chksums)
//@   nopanic

// RemoveWAL: same in-memory effect, after the file was removed.
//@ func (db *DB) RemoveWAL [C03]
//@   requires  db != nil && db.os != nil
//@   ghost removed bool = false
//@   on call OS.Remove op "REMOVEWAL" assert !removed ; then removed = (ret0 == nil)
//@   modifies  db.wal.frameOffsets, db.wal.chksums
//@   ensures   (err == nil) == removed
//@   ensures   err != nil ==> unchanged(db.wal.frameOffsets, db.wal.chksums)
//@   ensures   err == nil ==> db.wal.frameOffsets != nil && (forall p uint32 :: !has(db.wal.frameOffsets, p))
//@   proves    err == nil ==> fresh(db.wal.frameOffsets)
//@   ensures   err == nil ==> db.wal.chksums != nil && (forall p uint32 :: !has(db.wal.chksums, p))
//@   proves    err == nil ==> fresh(db.wal.chksums)
//@   nopanic
