//go:build verif

// Contracts for the stream-frame codec of client.go (property C18), checked by govc. Comment-only.
//
// Conventions used below.
//   e   ghost: the error of the first failing underlying read/write (nil while all succeeded)
//   k   ghost: number of underlying reads/writes issued so far (position in the wire format)
//   `on call binary.Read #i assert typeis(arg2, *T) && fieldKind(TYPE, k) == 8` pins width and order of
//   the wire fields against the shared format table fieldKind (below);
//   `then v = *as(arg2, *T)` captures the value the reader delivered, so that postconditions can say
//   "the decoded field is exactly that value" (and the writer side says "the value handed to
//   binary.Write is exactly the field").
// Obligations that fail on the unchanged code because litefs is wrong are kept and marked FAILS.

package litefs

// Every fixed-size field on the wire is big endian: the byte-order argument of each binary.Read /
// binary.Write is binary.BigEndian (asserted at every call; reader and writer therefore agree).
//@ pred be(o binary.ByteOrder) = typeis(o, binary.bigEndian)

// Largest name / lease ID a decoder should be willing to allocate for before having seen the bytes.
// (Names are file names inside the FUSE mount: NAME_MAX is 255. The bound below is generous.)
//@ spec func maxWireString() int = 65536

// An arbitrary but fixed index (uninterpreted): a fact proved about position anyIdx() holds for every
// position. Used to snapshot "the byte io.ReadFull delivered at position i" at the moment of the call
// (ghost bj), so that later writes to the buffer cannot hide behind the comparison.
//@ spec func anyIdx() int

// The wire format of the seven frame bodies as ONE table shared by readers and writers: fieldKind(t, k) is
// the kind of the k-th field of a frame of type t: 8 = 8-byte big-endian integer, 4 = 4-byte big-endian
// integer, -1 = byte string whose length is the preceding 4-byte field, 0 = end of frame. Every ReadFrom
// and every WriteTo below is checked against this table at each underlying read/write (kind and position)
// and must have reached kind 0 when it returns nil, so reader and writer of a type agree field by field.
//@ spec func fieldKind(t StreamFrameType, k int) int =
//@      (t == StreamFrameTypeLTX || t == StreamFrameTypeHWM) ? (k == 0 ? 8 : (k == 1 ? 4 : (k == 2 ? -1 : 0))) :
//@      ((t == StreamFrameTypeDropDB || t == StreamFrameTypeHandoff) ? (k == 0 ? 4 : (k == 1 ? -1 : 0)) :
//@      (t == StreamFrameTypeHeartbeat ? (k == 0 ? 8 : 0) : 0))

// ---------------------------------------------------------------------------
// Type()

//@ func (f *LTXStreamFrame) Type [C18]
//@   modifies
//@   ensures   result == StreamFrameTypeLTX
//@   nopanic
//@ func (f *ReadyStreamFrame) Type [C18]
//@   modifies
//@   ensures   result == StreamFrameTypeReady
//@   nopanic
//@ func (f *EndStreamFrame) Type [C18]
//@   modifies
//@   ensures   result == StreamFrameTypeEnd
//@   nopanic
//@ func (f *DropDBStreamFrame) Type [C18]
//@   modifies
//@   ensures   result == StreamFrameTypeDropDB
//@   nopanic
//@ func (f *HandoffStreamFrame) Type [C18]
//@   modifies
//@   ensures   result == StreamFrameTypeHandoff
//@   nopanic
//@ func (f *HWMStreamFrame) Type [C18]
//@   modifies
//@   ensures   result == StreamFrameTypeHWM
//@   nopanic
//@ func (f *HeartbeatStreamFrame) Type [C18]
//@   modifies
//@   ensures   result == StreamFrameTypeHeartbeat
//@   nopanic

// ---------------------------------------------------------------------------
// Frames without payload

//@ func (f *ReadyStreamFrame) ReadFrom [C18]
//@   on call binary.Read assert false
//@   on call io.ReadFull assert false
//@   modifies
//@   ensures   fieldKind(StreamFrameTypeReady, 0) == 0 && result0 == 0 && err == nil
//@   nopanic
//@ func (f *ReadyStreamFrame) WriteTo [C18]
//@   on call binary.Write assert false
//@   on call io.Writer.Write assert false
//@   modifies
//@   ensures   fieldKind(StreamFrameTypeReady, 0) == 0 && result0 == 0 && err == nil
//@   nopanic
//@ func (f *EndStreamFrame) ReadFrom [C18]
//@   on call binary.Read assert false
//@   on call io.ReadFull assert false
//@   modifies
//@   ensures   fieldKind(StreamFrameTypeEnd, 0) == 0 && result0 == 0 && err == nil
//@   nopanic
//@ func (f *EndStreamFrame) WriteTo [C18]
//@   on call binary.Write assert false
//@   on call io.Writer.Write assert false
//@   modifies
//@   ensures   fieldKind(StreamFrameTypeEnd, 0) == 0 && result0 == 0 && err == nil
//@   nopanic

// ---------------------------------------------------------------------------
// Heartbeat: one int64

//@ func (f *HeartbeatStreamFrame) ReadFrom [C18]
//@   requires  f != nil && r != nil
//@   ghost e error = nil
//@   ghost k int = 0
//@   ghost v int64 = 0
//@   on call binary.Read assert be(arg1) && k == 0 && typeis(arg2, *int64) && fieldKind(StreamFrameTypeHeartbeat, k) == 8 && as(arg2, *int64) == addr(f.Timestamp) ; then e = ret0, k = k + 1, v = *as(arg2, *int64)
//@   on call io.ReadFull assert false
//@   modifies  f.Timestamp
//@   ensures   err == nil ==> fieldKind(StreamFrameTypeHeartbeat, k) == 0
//@   ensures   k == 1
//@   ensures   err == nil <==> e == nil
//@   ensures   e == io.EOF ==> err == io.ErrUnexpectedEOF
//@   ensures   e != io.EOF ==> err == e
//@   ensures   err == nil ==> f.Timestamp == v
//@   ensures   result0 == 0
//@   nopanic

//@ func (f *HeartbeatStreamFrame) WriteTo [C18]
//@   requires  f != nil && w != nil
//@   ghost e error = nil
//@   ghost k int = 0
//@   on call binary.Write assert be(arg1) && k == 0 && typeis(arg2, int64) && fieldKind(StreamFrameTypeHeartbeat, k) == 8 && as(arg2, int64) == f.Timestamp ; then e = ret0, k = k + 1
//@   on call io.Writer.Write assert false
//@   modifies
//@   ensures   err == nil ==> fieldKind(StreamFrameTypeHeartbeat, k) == 0
//@   ensures   k == 1 && err == e && result0 == 0
//@   nopanic

// ---------------------------------------------------------------------------
// LTX: uint64 size, uint32 name length, name bytes

//@ func (f *LTXStreamFrame) ReadFrom [C18]
//@   requires  f != nil && r != nil
//@   ghost e error = nil
//@   ghost k int = 0
//@   ghost vSize uint64 = 0
//@   ghost vLen uint32 = 0
//@   ghost bj byte = 0
//@   on call binary.Read #1 assert be(arg1) && k == 0 && typeis(arg2, *uint64) && fieldKind(StreamFrameTypeLTX, k) == 8 ; then e = ret0, k = 1, vSize = *as(arg2, *uint64)
//@   on call binary.Read #2 assert be(arg1) && k == 1 && e == nil && typeis(arg2, *uint32) && fieldKind(StreamFrameTypeLTX, k) == 4 ; then e = ret0, k = 2, vLen = *as(arg2, *uint32)
//@   on call binary.Read #3 assert false
//@   on call io.ReadFull assert fieldKind(StreamFrameTypeLTX, k) == -1 && k == 2 && e == nil && len(arg1) == int(vLen) ; then e = ret1, k = 3, bj = arg1[anyIdx()]
//@   alloc bound size <= 0xffffffff
// FAILS on the unchanged code (genuine finding C18-A): the length prefix is used as allocation size unchecked.
//@   alloc bound size <= maxWireString()
//@   modifies  f.Size, f.Name
//@   ensures   err == nil ==> fieldKind(StreamFrameTypeLTX, k) == 0
//@   ensures   err == nil <==> e == nil && k == 3
//@   ensures   e == io.EOF ==> err == io.ErrUnexpectedEOF
//@   ensures   e != io.EOF ==> err == e || (e == nil && err != nil && vLen > MaxStreamNameSize)
//@   ensures   e == nil && vLen > MaxStreamNameSize ==> err != nil
//@   ensures   err == nil ==> f.Size == int64(vSize) && len(f.Name) == int(vLen)
//@   ensures   err == nil && 0 <= anyIdx() && anyIdx() < len(f.Name) ==> f.Name[anyIdx()] == bj
//@   ensures   k < 1 || e != nil && k == 1 ==> f.Size == old(f.Size)
//@   ensures   err != nil ==> f.Name == old(f.Name)
//@   ensures   result0 == 0
//@   nopanic

//@ func (f *LTXStreamFrame) WriteTo [C18]
//@   requires  f != nil && w != nil
//@   ghost e error = nil
//@   ghost k int = 0
//@   on call binary.Write #1 assert be(arg1) && k == 0 && typeis(arg2, uint64) && fieldKind(StreamFrameTypeLTX, k) == 8 && as(arg2, uint64) == uint64(f.Size) ; then e = ret0, k = 1
//@   on call binary.Write #2 assert be(arg1) && k == 1 && e == nil && typeis(arg2, uint32) && fieldKind(StreamFrameTypeLTX, k) == 4 && as(arg2, uint32) == uint32(len(f.Name)) ; then e = ret0, k = 2
// FAILS on the unchanged code (genuine finding C18-C): a string of 2^32 bytes or more is announced modulo 2^32.
//@   on call binary.Write #2 assert int(as(arg2, uint32)) == len(f.Name)
//@   on call binary.Write #3 assert false
//@   on call io.Writer.Write assert fieldKind(StreamFrameTypeLTX, k) == -1 && k == 2 && e == nil && len(arg0) == len(f.Name) && (forall i int :: 0 <= i && i < len(arg0) ==> arg0[i] == f.Name[i]) ; then e = ret1, k = 3
//@   modifies
//@   ensures   err == nil ==> fieldKind(StreamFrameTypeLTX, k) == 0
//@   ensures   err == e && result0 == 0
//@   ensures   err == nil ==> k == 3
//@   nopanic

// ---------------------------------------------------------------------------
// DropDBStreamFrame: uint32 length, bytes

//@ func (f *DropDBStreamFrame) ReadFrom [C18]
//@   requires  f != nil && r != nil
//@   ghost e error = nil
//@   ghost k int = 0
//@   ghost vLen uint32 = 0
//@   ghost bj byte = 0
//@   on call binary.Read #1 assert be(arg1) && k == 0 && typeis(arg2, *uint32) && fieldKind(StreamFrameTypeDropDB, k) == 4 ; then e = ret0, k = 1, vLen = *as(arg2, *uint32)
//@   on call binary.Read #2 assert false
//@   on call io.ReadFull assert fieldKind(StreamFrameTypeDropDB, k) == -1 && k == 1 && e == nil && len(arg1) == int(vLen) ; then e = ret1, k = 2, bj = arg1[anyIdx()]
//@   alloc bound size <= 0xffffffff
// FAILS on the unchanged code (genuine finding C18-A): the length prefix is used as allocation size unchecked.
//@   alloc bound size <= maxWireString()
//@   modifies  f.Name
//@   ensures   err == nil ==> fieldKind(StreamFrameTypeDropDB, k) == 0
//@   ensures   err == nil <==> e == nil && k == 2
//@   ensures   e == io.EOF ==> err == io.ErrUnexpectedEOF
//@   ensures   e != io.EOF ==> err == e || (e == nil && err != nil && vLen > MaxStreamNameSize)
//@   ensures   e == nil && vLen > MaxStreamNameSize ==> err != nil
//@   ensures   err == nil ==> len(f.Name) == int(vLen)
//@   ensures   err == nil && 0 <= anyIdx() && anyIdx() < len(f.Name) ==> f.Name[anyIdx()] == bj
//@   ensures   err != nil ==> f.Name == old(f.Name)
//@   ensures   result0 == 0
//@   nopanic

//@ func (f *DropDBStreamFrame) WriteTo [C18]
//@   requires  f != nil && w != nil
//@   ghost e error = nil
//@   ghost k int = 0
//@   on call binary.Write #1 assert be(arg1) && k == 0 && typeis(arg2, uint32) && fieldKind(StreamFrameTypeDropDB, k) == 4 && as(arg2, uint32) == uint32(len(f.Name)) ; then e = ret0, k = 1
// FAILS on the unchanged code (genuine finding C18-C): a string of 2^32 bytes or more is announced modulo 2^32.
//@   on call binary.Write #1 assert int(as(arg2, uint32)) == len(f.Name)
//@   on call binary.Write #2 assert false
//@   on call io.Writer.Write assert fieldKind(StreamFrameTypeDropDB, k) == -1 && k == 1 && e == nil && len(arg0) == len(f.Name) && (forall i int :: 0 <= i && i < len(arg0) ==> arg0[i] == f.Name[i]) ; then e = ret1, k = 2
//@   modifies
//@   ensures   err == nil ==> fieldKind(StreamFrameTypeDropDB, k) == 0
//@   ensures   err == e && result0 == 0
//@   ensures   err == nil ==> k == 2
//@   nopanic

// ---------------------------------------------------------------------------
// HandoffStreamFrame: uint32 length, bytes

//@ func (f *HandoffStreamFrame) ReadFrom [C18]
//@   requires  f != nil && r != nil
//@   ghost e error = nil
//@   ghost k int = 0
//@   ghost vLen uint32 = 0
//@   ghost bj byte = 0
//@   on call binary.Read #1 assert be(arg1) && k == 0 && typeis(arg2, *uint32) && fieldKind(StreamFrameTypeHandoff, k) == 4 ; then e = ret0, k = 1, vLen = *as(arg2, *uint32)
//@   on call binary.Read #2 assert false
//@   on call io.ReadFull assert fieldKind(StreamFrameTypeHandoff, k) == -1 && k == 1 && e == nil && len(arg1) == int(vLen) ; then e = ret1, k = 2, bj = arg1[anyIdx()]
//@   alloc bound size <= 0xffffffff
// FAILS on the unchanged code (genuine finding C18-A): the length prefix is used as allocation size unchecked.
//@   alloc bound size <= maxWireString()
//@   modifies  f.LeaseID
//@   ensures   err == nil ==> fieldKind(StreamFrameTypeHandoff, k) == 0
//@   ensures   err == nil <==> e == nil && k == 2
//@   ensures   e == io.EOF ==> err == io.ErrUnexpectedEOF
//@   ensures   e != io.EOF ==> err == e || (e == nil && err != nil && vLen > MaxStreamNameSize)
//@   ensures   e == nil && vLen > MaxStreamNameSize ==> err != nil
//@   ensures   err == nil ==> len(f.LeaseID) == int(vLen)
//@   ensures   err == nil && 0 <= anyIdx() && anyIdx() < len(f.LeaseID) ==> f.LeaseID[anyIdx()] == bj
//@   ensures   err != nil ==> f.LeaseID == old(f.LeaseID)
//@   ensures   result0 == 0
//@   nopanic

//@ func (f *HandoffStreamFrame) WriteTo [C18]
//@   requires  f != nil && w != nil
//@   ghost e error = nil
//@   ghost k int = 0
//@   on call binary.Write #1 assert be(arg1) && k == 0 && typeis(arg2, uint32) && fieldKind(StreamFrameTypeHandoff, k) == 4 && as(arg2, uint32) == uint32(len(f.LeaseID)) ; then e = ret0, k = 1
// FAILS on the unchanged code (genuine finding C18-C): a string of 2^32 bytes or more is announced modulo 2^32.
//@   on call binary.Write #1 assert int(as(arg2, uint32)) == len(f.LeaseID)
//@   on call binary.Write #2 assert false
//@   on call io.Writer.Write assert fieldKind(StreamFrameTypeHandoff, k) == -1 && k == 1 && e == nil && len(arg0) == len(f.LeaseID) && (forall i int :: 0 <= i && i < len(arg0) ==> arg0[i] == f.LeaseID[i]) ; then e = ret1, k = 2
//@   modifies
//@   ensures   err == nil ==> fieldKind(StreamFrameTypeHandoff, k) == 0
//@   ensures   err == e && result0 == 0
//@   ensures   err == nil ==> k == 2
//@   nopanic

// ---------------------------------------------------------------------------
// HWM: uint64 TXID, uint32 name length, name bytes

//@ func (f *HWMStreamFrame) ReadFrom [C18]
//@   requires  f != nil && r != nil
//@   ghost e error = nil
//@   ghost k int = 0
//@   ghost vTXID uint64 = 0
//@   ghost vLen uint32 = 0
//@   ghost bj byte = 0
//@   on call binary.Read #1 assert be(arg1) && k == 0 && typeis(arg2, *uint64) && fieldKind(StreamFrameTypeHWM, k) == 8 ; then e = ret0, k = 1, vTXID = *as(arg2, *uint64)
//@   on call binary.Read #2 assert be(arg1) && k == 1 && e == nil && typeis(arg2, *uint32) && fieldKind(StreamFrameTypeHWM, k) == 4 ; then e = ret0, k = 2, vLen = *as(arg2, *uint32)
//@   on call binary.Read #3 assert false
//@   on call io.ReadFull assert fieldKind(StreamFrameTypeHWM, k) == -1 && k == 2 && e == nil && len(arg1) == int(vLen) ; then e = ret1, k = 3, bj = arg1[anyIdx()]
//@   alloc bound size <= 0xffffffff
// FAILS on the unchanged code (genuine finding C18-A): the length prefix is used as allocation size unchecked.
//@   alloc bound size <= maxWireString()
//@   modifies  f.TXID, f.Name
//@   ensures   err == nil ==> fieldKind(StreamFrameTypeHWM, k) == 0
//@   ensures   err == nil <==> e == nil && k == 3
//@   ensures   e == io.EOF ==> err == io.ErrUnexpectedEOF
//@   ensures   e != io.EOF ==> err == e || (e == nil && err != nil && vLen > MaxStreamNameSize)
//@   ensures   e == nil && vLen > MaxStreamNameSize ==> err != nil
//@   ensures   err == nil ==> uint64(f.TXID) == vTXID && len(f.Name) == int(vLen)
//@   ensures   err == nil && 0 <= anyIdx() && anyIdx() < len(f.Name) ==> f.Name[anyIdx()] == bj
//@   ensures   k < 1 || e != nil && k == 1 ==> f.TXID == old(f.TXID)
//@   ensures   err != nil ==> f.Name == old(f.Name)
//@   ensures   result0 == 0
//@   nopanic

//@ func (f *HWMStreamFrame) WriteTo [C18]
//@   requires  f != nil && w != nil
//@   ghost e error = nil
//@   ghost k int = 0
//@   on call binary.Write #1 assert be(arg1) && k == 0 && typeis(arg2, uint64) && fieldKind(StreamFrameTypeHWM, k) == 8 && as(arg2, uint64) == uint64(f.TXID) ; then e = ret0, k = 1
//@   on call binary.Write #2 assert be(arg1) && k == 1 && e == nil && typeis(arg2, uint32) && fieldKind(StreamFrameTypeHWM, k) == 4 && as(arg2, uint32) == uint32(len(f.Name)) ; then e = ret0, k = 2
// FAILS on the unchanged code (genuine finding C18-C): a string of 2^32 bytes or more is announced modulo 2^32.
//@   on call binary.Write #2 assert int(as(arg2, uint32)) == len(f.Name)
//@   on call binary.Write #3 assert false
//@   on call io.Writer.Write assert fieldKind(StreamFrameTypeHWM, k) == -1 && k == 2 && e == nil && len(arg0) == len(f.Name) && (forall i int :: 0 <= i && i < len(arg0) ==> arg0[i] == f.Name[i]) ; then e = ret1, k = 3
//@   modifies
//@   ensures   err == nil ==> fieldKind(StreamFrameTypeHWM, k) == 0
//@   ensures   err == e && result0 == 0
//@   ensures   err == nil ==> k == 3
//@   nopanic

// ---------------------------------------------------------------------------
// ReadStreamFrame / WriteStreamFrame: uint32 tag, then the frame body
//
// Interface-level assumptions (each is PROVED for all seven implementations above: Type() and WriteTo()
// have an empty `modifies`).
//@ func litefs.StreamFrame.Type
//@   pure
//@ func litefs.StreamFrame.WriteTo
//@   pure

// et = error of the tag read, eb = error of the body read, t = tag delivered by the reader.
// * a failed tag read is returned unchanged (a clean io.EOF before a tag is how a stream ends);
// * an unknown tag is an error and no body byte is consumed;
// * tag t yields exactly the frame type whose Type() is t (see the Type contracts);
// * io.EOF inside the body becomes io.ErrUnexpectedEOF, so io.EOF is returned only for a clean end;
// * a nil error comes with a non-nil frame, an error with a nil frame.
//@ func ReadStreamFrame [C18]
//@   requires  r != nil
//@   ghost et error = nil
//@   ghost eb error = nil
//@   ghost k int = 0
//@   ghost t StreamFrameType = 0
//@   on call binary.Read assert be(arg1) && k == 0 && typeis(arg2, *StreamFrameType) ; then et = ret0, k = 1, t = *as(arg2, *StreamFrameType)
//@   on call StreamFrame.ReadFrom assert k == 1 && et == nil && arg0 == r && 1 <= t && t <= 7 &&
//@        (t == StreamFrameTypeLTX ==> typeis(recv, *LTXStreamFrame)) && (t == StreamFrameTypeReady ==> typeis(recv, *ReadyStreamFrame)) &&
//@        (t == StreamFrameTypeEnd ==> typeis(recv, *EndStreamFrame)) && (t == StreamFrameTypeDropDB ==> typeis(recv, *DropDBStreamFrame)) &&
//@        (t == StreamFrameTypeHandoff ==> typeis(recv, *HandoffStreamFrame)) && (t == StreamFrameTypeHWM ==> typeis(recv, *HWMStreamFrame)) &&
//@        (t == StreamFrameTypeHeartbeat ==> typeis(recv, *HeartbeatStreamFrame)) && !isnil(recv) ; then eb = ret1, k = 2
//@   ensures   k >= 1
//@   ensures   et != nil ==> err == et && k == 1
//@   ensures   et == nil && (t < 1 || t > 7) ==> err != nil && err != io.EOF && k == 1
//@   ensures   et == nil && 1 <= t && t <= 7 ==> k == 2 && (eb == io.EOF ? err == io.ErrUnexpectedEOF : err == eb)
//@   ensures   err == io.EOF ==> et == io.EOF
//@   ensures   err == nil <==> !isnil(result0)
//@   ensures   err == nil ==> (t == StreamFrameTypeLTX <==> typeis(result0, *LTXStreamFrame)) && (t == StreamFrameTypeReady <==> typeis(result0, *ReadyStreamFrame)) &&
//@        (t == StreamFrameTypeEnd <==> typeis(result0, *EndStreamFrame)) && (t == StreamFrameTypeDropDB <==> typeis(result0, *DropDBStreamFrame)) &&
//@        (t == StreamFrameTypeHandoff <==> typeis(result0, *HandoffStreamFrame)) && (t == StreamFrameTypeHWM <==> typeis(result0, *HWMStreamFrame)) &&
//@        (t == StreamFrameTypeHeartbeat <==> typeis(result0, *HeartbeatStreamFrame))
// the frame object behind the interface is a real (non-nil) object
//@   ensures   err == nil && typeis(result0, *LTXStreamFrame) ==> as(result0, *LTXStreamFrame) != nil
//@   ensures   err == nil && typeis(result0, *DropDBStreamFrame) ==> as(result0, *DropDBStreamFrame) != nil
//@   ensures   err == nil && typeis(result0, *HandoffStreamFrame) ==> as(result0, *HandoffStreamFrame) != nil
//@   ensures   err == nil && typeis(result0, *HWMStreamFrame) ==> as(result0, *HWMStreamFrame) != nil
//@   nopanic

// The tag handed to binary.Write is f.Type(); the body is written only after the tag was written
// successfully, to the same writer; the first error is returned.
//@ func WriteStreamFrame [C18]
//@   requires  w != nil && !isnil(f)
//@   ghost et error = nil
//@   ghost eb error = nil
//@   ghost k int = 0
//@   ghost t StreamFrameType = 0
//@   on call StreamFrame.Type assert k == 0 && recv == f ; then t = ret0, k = 1
//@   on call binary.Write assert be(arg1) && k == 1 && arg0 == w && typeis(arg2, StreamFrameType) && as(arg2, StreamFrameType) == t ; then et = ret0, k = 2
//@   on call StreamFrame.WriteTo assert k == 2 && et == nil && recv == f && arg0 == w ; then eb = ret1, k = 3
//@   modifies
//@   ensures   et != nil ==> err == et && k == 2
//@   ensures   et == nil ==> err == eb && k == 3
//@   nopanic
