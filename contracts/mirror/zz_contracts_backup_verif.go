//go:build verif

// Contracts for the backup stream (property C14), checked by /verif (govc).
package litefs

//@ func litefs.BackupClient.*
//@   pure
//@ func litefs.BackupClient.FetchSnapshot
//@   pure
//@   ensures ret1 == nil ==> ret0 != nil
//@ func litefs.BackupClient.PosMap
//@   pure
//@   ensures ret1 == nil ==> ret0 != nil

//@ pred isPM(err error) = typeis(err, *ltx.PosMismatchError)
//@ spec func pmPos(err error) ltx.Pos = as(err, *ltx.PosMismatchError).Pos
//@ pred zeroPos(p ltx.Pos) = p.TXID == 0 && p.PostApplyChecksum == 0
//@ pred samePos(p ltx.Pos, q ltx.Pos) = p.TXID == q.TXID && p.PostApplyChecksum == q.PostApplyChecksum
// Every database of the store is well formed.
//@ pred storeBackupWF(s *Store) = s != nil && s.BackupClient != nil && s.OS != nil && s.dbs != nil && (forall k string :: s.dbs[k] != nil ==> dbWF(s.dbs[k]))
// The store's database map holds no nil entries (DBs() dereferences every value).
//@ pred noNilDBs(s *Store) = forall k string :: has(s.dbs, k) ==> s.dbs[k] != nil
// A-TXID: the local TXID is below 2^64-1, so that `txID+1` in the file loop of streamBackupDB does not wrap around.
//@ pred txidBounded(s *Store, name string) = s.dbs[name] != nil ==> posOf(s.dbs[name]).TXID != 0xffffffffffffffff
// Frame: a method of one database (or of the store) leaves every other well-formed database well formed.
//@ pred otherDBsKept(db *DB) = forall d *DB :: d != db && old(dbWF(d)) ==> dbWF(d)
// Frame: a method of a database does not replace the backup client of a store, does not add/remove databases and
// does not reset the dirty set of a change-set subscriber.
//@ pred storesKept() = (forall t *Store :: t.BackupClient == old(t.BackupClient) && t.dbs == old(t.dbs)) &&
//@      (forall t *Store :: forall k string :: t.dbs[k] == old(t.dbs[k]) && has(t.dbs, k) == old(has(t.dbs, k))) && subsKept()
//@ pred subsKept() = forall c *ChangeSetSubscriber :: (old(c.dirtySet) != nil ==> c.dirtySet != nil) && c.store == old(c.store)
//@ pred allFiles(a []io.Reader) = forall i int :: 0 <= i && i < len(a) ==> typeis(a[i], *os.File)
// number of LTX files one sync may upload: min(local.TXID - remote.TXID, MaxBackupLTXFileN)
//@ spec func batchN(local ltx.TXID, remote ltx.TXID) ltx.TXID = (local - remote <= MaxBackupLTXFileN ? local - remote : MaxBackupLTXFileN)

// streamBackupDB: the decision table over (local position L of s.dbs[name], remote position R):
//   no local database, R.TXID > L.TXID, same TXID with another checksum, or a missing LTX file  => *ltx.PosMismatchError carrying R, nothing uploaded
//   L zero => nothing;  R zero => streamBackupDBSnapshot;  L == R => nothing
//   otherwise the files opened are exactly R.TXID+1 ... R.TXID+batchN(L.TXID, R.TXID) in ascending order, one WriteTx with them,
//   every opened file is closed on every exit, SetHWM only with the value WriteTx returned together with a nil error.
//@ func (s *Store) streamBackupDB [C14]
//@   requires storeBackupWF(s) && txidBounded(s, name)
//@   ghost opened int = 0
//@   ghost closed int = 0
//@   ghost wtN int = 0
//@   ghost wtOK bool = false
//@   ghost wtPM bool = false
//@   ghost hwmVal ltx.TXID = 0
//@   ghost hwmSet bool = false
//@   ghost snap bool = false
//@   ghost prClosed bool = false
//@   ghost missing bool = false
//@   on call os.IsNotExist assert !missing ; then missing = ret0
//@   on call io.PipeReader.Close ; then prClosed = true
//@   on call DB.OpenLTXFile assert !snap && wtN == 0 && arg0 == old(s.dbs[name]) && arg1 == remotePos.TXID + 1 + ltx.TXID(opened) && arg1 <= old(posOf(s.dbs[name])).TXID ; then opened = (ret1 == nil ? opened + 1 : opened)
//@   on call io.Closer.Close assert recv == rdrs[closed] ; then closed = closed + 1
//@   on call Store.streamBackupDBSnapshot assert !snap && wtN == 0 && opened == 0 && arg2 == old(s.dbs[name]) && zeroPos(remotePos) && !zeroPos(old(posOf(s.dbs[name]))) ; then snap = true
//@   on call BackupClient.WriteTx assert wtN == 0 && !snap && arg1 == name && opened >= 1 && len(rdrs) == opened &&
//@        ltx.TXID(opened) == batchN(old(posOf(s.dbs[name])).TXID, remotePos.TXID) ; then wtN = 1, wtOK = (ret1 == nil), wtPM = errorsAs(ret1, *ltx.PosMismatchError), hwmVal = ret0
//@   on call DB.SetHWM assert wtOK && !hwmSet && arg1 == hwmVal && arg0 == old(s.dbs[name]) ; then hwmSet = true
//@   loop 1 invariant 0 <= n && n <= MaxBackupLTXFileN && opened == n && len(rdrs) == n && txID == remotePos.TXID + 1 + ltx.TXID(n) &&
//@        ltx.TXID(n) <= localPos.TXID - remotePos.TXID && closed == 0 && wtN == 0 && !snap && !hwmSet && !missing && allFiles(rdrs) && (len(rdrs) == 0 || alive(rdrs))
//@   thorough  streamBackupDB/loop1/step#1.12
//@   on return assert closed == opened
// FINDING (kept): when WriteTx fails nothing closes the read end of the pipe; the BackupClient interface does not
// promise that WriteTx drains or closes r, so the compaction goroutine may stay blocked in pw.Write for ever.
//@   on return assert wtN == 1 && !wtOK ==> prClosed
//@   mergeexits
//@   ensures err != nil ==> zeroPos(newPos)
//@   ensures old(s.dbs[name]) == nil ==> isPM(err) && samePos(pmPos(err), remotePos)
//@   ensures old(s.dbs[name]) != nil && zeroPos(old(posOf(s.dbs[name]))) ==> err == nil && zeroPos(newPos)
//@   ensures old(s.dbs[name]) != nil && !zeroPos(old(posOf(s.dbs[name]))) && !zeroPos(remotePos) && remotePos.TXID > old(posOf(s.dbs[name])).TXID ==> isPM(err) && samePos(pmPos(err), remotePos)
//@   ensures old(s.dbs[name]) != nil && !zeroPos(old(posOf(s.dbs[name]))) && !zeroPos(remotePos) && remotePos.TXID == old(posOf(s.dbs[name])).TXID &&
//@           remotePos.PostApplyChecksum != old(posOf(s.dbs[name])).PostApplyChecksum ==> isPM(err) && samePos(pmPos(err), remotePos)
//@   ensures old(s.dbs[name]) != nil && !zeroPos(remotePos) && samePos(remotePos, old(posOf(s.dbs[name]))) ==> err == nil && samePos(newPos, remotePos)
//@   ensures isPM(err) ==> as(err, *ltx.PosMismatchError) != nil
//@   ensures storeBackupWF(s) && (old(noNilDBs(s)) ==> noNilDBs(s)) && subsKept()
// nothing is uploaded and no HWM is published unless the remote is strictly behind (or empty: snapshot)
//@   proves  old(s.dbs[name]) == nil || zeroPos(old(posOf(s.dbs[name]))) || (!zeroPos(remotePos) && remotePos.TXID >= old(posOf(s.dbs[name])).TXID) ==> wtN == 0 && !snap && !hwmSet && opened == 0
//@   proves  snap ==> wtN == 0 && opened == 0
//@   proves  old(s.dbs[name]) != nil && !zeroPos(old(posOf(s.dbs[name]))) && zeroPos(remotePos) ==> snap
//@   proves  err == nil && !snap && wtN == 0 ==> opened == 0 && !hwmSet
//@   proves  wtN == 1 ==> (err == nil <==> wtOK) && (wtOK ==> hwmSet) && (wtPM ==> isPM(err))
//@   proves  wtN == 0 && !snap && opened > 0 ==> err != nil
// a missing LTX file is a position mismatch (carrying the remote position) and nothing is uploaded
//@   proves  missing ==> isPM(err) && samePos(pmPos(err), remotePos) && wtN == 0
//@   nopanic

// the deferred closure that closes every opened file
//@ func litefs.Store.streamBackupDB$1
//@   loop 1 invariant -1 <= rangeindex && rangeindex < len(rdrs) && closed == rangeindex + 1 && allFiles(rdrs)
//@   loop 1 modifies

// the compaction goroutine
//@ func litefs.Store.streamBackupDB$2 [C14]
//@   requires s != nil && pw != nil && ctx != nil
//@   ghost done int = 0
//@   ghost compacted bool = false
//@   on call ltx.NewCompactor assert len(arg1) == len(rdrs) && sameArray(arg1, rdrs) && typeis(arg0, *io.PipeWriter) && as(arg0, *io.PipeWriter) == pw
//@   on call ltx.Compactor.Compact ; then compacted = (ret0 == nil)
//@   on call io.PipeWriter.CloseWithError assert done == 0 && !compacted && arg1 != nil ; then done = 1
//@   on call io.PipeWriter.Close assert done == 0 && compacted ; then done = 1
//@   on return assert done == 1
//@   nopanic

//@ func (s *Store) streamBackupDBSnapshot [C14]
//@   requires s != nil && s.BackupClient != nil && dbWF(db)
//@   ghost wtN int = 0
//@   ghost wtOK bool = false
//@   ghost hwmVal ltx.TXID = 0
//@   on call BackupClient.WriteTx assert wtN == 0 && arg1 == db.name ; then wtN = 1, wtOK = (ret1 == nil), hwmVal = ret0
//@   on call DB.SetHWM assert wtOK && arg1 == hwmVal && arg0 == db
//@   ghost prClosed bool = false
//@   on call io.PipeReader.Close ; then prClosed = true
// FINDING (kept): as in streamBackupDB, and worse: the goroutine blocked in pw.Write is inside DB.WriteSnapshotTo, which holds
// the database's SHARED/READ locks until it returns.
//@   on return assert wtN == 1 && !wtOK ==> prClosed
//@   ensures err != nil ==> newPos.TXID == 0 && newPos.PostApplyChecksum == 0 && !isPM(err)
//@   proves  wtN == 1
//@   nopanic

// the snapshot goroutine: the pipe is closed exactly once, with WriteSnapshotTo's verdict, after the position was published
//@ func litefs.Store.streamBackupDBSnapshot$1 [C14]
//@   requires  db != nil && pw != nil && dbWF(db) && ctx != nil
// (the lock well-formedness WriteSnapshotTo requires is part of the database object invariant, which the backup contracts do
// not carry through their quantified store invariant: deferred to the thorough tier, undecided there — DESIGN I.7)
//@   thorough  call/litefs.DB.WriteSnapshotTo/pre#2
//@   ghost done int = 0
//@   ghost wrote bool = false
//@   ghost stored bool = false
//@   ghost werrNil bool = false
//@   on call DB.WriteSnapshotTo assert !wrote && arg0 == db && typeis(arg2, *io.PipeWriter) && as(arg2, *io.PipeWriter) == pw ; then wrote = true, werrNil = (ret2 == nil)
//@   on call atomic.Value.Store assert wrote && !stored ; then stored = true
//@   on call io.PipeWriter.CloseWithError assert done == 0 && stored && arg0 == pw && ((arg1 == nil) == werrNil) ; then done = 1
//@   on return assert done == 1
//@   nopanic

// ===========================================================================
// restoreDBFromBackup: fetch the service's snapshot, then (under the full write lock of the database) recover,
// write the snapshot as an LTX file through WriteLTXFileAt and apply it with ApplyLTXNoLock. The snapshot reader is
// closed and the write lock released on every path after they were obtained.
//
// Interface contracts of the callees, as far as this function needs them. They are NOT tagged C14: they are
// assumptions here and are verified under their own properties (AcquireWriteLock, recover: C11/C13/C05 contracts of
// the same text exist in zz_contracts_verif.go of the main tree).
//@ func (s *Store) CreateDBIfNotExists
//@   requires  s != nil
//@   ensures   err == nil ==> result0 != nil && dbWF(result0) && locksWF(result0) && s.dbs[name] == result0 && has(s.dbs, name)
//@   ensures   err != nil ==> s.dbs[name] == old(s.dbs[name]) && has(s.dbs, name) == old(has(s.dbs, name))
//@   ensures   forall k string :: k != name ==> s.dbs[k] == old(s.dbs[k]) && has(s.dbs, k) == old(has(s.dbs, k))
//@   ensures   s.BackupClient == old(s.BackupClient) && otherDBsKept(nil) && subsKept()
//@ func (db *DB) recover
//@   requires  dbWF(db)
//@   ensures   dbWF(db) && otherDBsKept(db) && storesKept()
//@ func (db *DB) WriteLTXFileAt
//@   requires  dbWF(db) && r != nil
//@   ensures   dbWF(db) && otherDBsKept(db) && storesKept() && (old(walKeysPositive(db)) ==> walKeysPositive(db))
//@ func (db *DB) ApplyLTXNoLock
//@   requires  dbWF(db)
//@   ensures   dbWF(db) && otherDBsKept(db) && storesKept()

//@ func (s *Store) restoreDBFromBackup [C14]
//@   requires  storeBackupWF(s) && ctx != nil && s.Exit != nil && storeDBCountMetric != nil
//@   ghost stage int = 0
//@   ghost rcClosed bool = false
//@   ghost unlocked bool = false
//@   on call BackupClient.FetchSnapshot assert stage == 0 && arg1 == name ; then stage = (ret1 == nil ? 1 : 0)
//@   on call Store.CreateDBIfNotExists assert stage == 1 && arg1 == name ; then stage = (ret1 == nil ? 2 : stage)
//@   on call DB.AcquireWriteLock assert stage == 2 && arg0 == db ; then stage = (ret1 == nil ? 3 : stage)
//@   on call DB.recover assert stage == 3 && arg0 == db ; then stage = (ret0 == nil ? 4 : stage)
//@   on call DB.WriteLTXFileAt assert stage == 4 && arg0 == db && arg2 == rc ; then stage = (ret1 == nil ? 5 : stage)
//@   on call DB.ApplyLTXNoLock assert stage == 5 && arg0 == db && arg1 == ltxPath && arg2 == true ; then stage = (ret0 == nil ? 6 : stage)
//@   on call GuardSet.Unlock assert stage >= 3 && arg0 == guard && !unlocked ; then unlocked = true
//@   on call io.ReadCloser.Close assert stage >= 1 && recv == rc && !rcClosed && (stage >= 3 ==> unlocked) ; then rcClosed = true
//@   on return assert (stage >= 1 <==> rcClosed) && (stage >= 3 <==> unlocked)
//@   mergeexits
//@   ensures   err == nil <==> stage == 6
//@   ensures   storeBackupWF(s) [C14,thorough]
//@   ensures   (old(noNilDBs(s)) ==> noNilDBs(s)) && subsKept()
//@   ensures   err != nil ==> zeroPos(newPos)
//@   nopanic

// ===========================================================================
// streamBackup: the sync loop. Per dirty database: streamBackupDB with the position the service reported
// (zero if unknown); a position-mismatch error (errors.As) always and only leads to restoreDBFromBackup; any other
// error, and a failed restore, end the loop with an error; the position map is updated only after a successful
// upload or a successful restore.
//@ pred subOK(c *ChangeSetSubscriber, s *Store) = c != nil && c.dirtySet != nil && c.store == s
//@ func (s *Store) DBs [C14,C20]
//@   requires  s != nil
//@   loop 1 invariant alive(a) && (old(noNilDBs(s)) ==> noNilDBs(s) && (forall i int :: 0 <= i && i < len(a) ==> a[i] != nil))
//@   ensures   old(noNilDBs(s)) ==> (forall i int :: 0 <= i && i < len(result) ==> result[i] != nil)
//@   nopanic

//@ func (s *ChangeSetSubscriber) DirtySet [C14]
//@   requires  s != nil
//@   modifies  s.dirtySet
//@   ensures   result == old(s.dirtySet) && s.dirtySet != nil && s.dirtySet != old(s.dirtySet)
//@   proves    fresh(s.dirtySet)
//@   nopanic

//@ func (s *Store) streamBackup [C14]
//@   requires  storeBackupWF(s) && noNilDBs(s) && s.changeSetSubscribers != nil && ctx != nil && storeSubscriberCountMetric != nil && s.Exit != nil && storeDBCountMetric != nil
//@   ghost phase int = 0
//@   ghost pm bool = false
//@   ghost sbOK bool = false
//@   ghost cur string = ""
//@   on call Store.streamBackupDB assume txidBounded(s, arg2)
//@   ghost gotTX ltx.TXID = 0
//@   ghost gotCk ltx.Checksum = 0
//@   on call Store.streamBackupDB assert phase == 0 && posMap != nil && samePos(arg3, posMap[arg2]) ; then phase = 1, cur = arg2, sbOK = (ret1 == nil), gotTX = ret0.TXID, gotCk = ret0.PostApplyChecksum
//@   on call errors.As assert phase == 1 ; then phase = 2, pm = ret0
//@   on call Store.restoreDBFromBackup assert phase == 2 && pm && arg2 == cur ; then phase = (ret1 == nil ? 3 : 4), gotTX = ret0.TXID, gotCk = ret0.PostApplyChecksum
// the position recorded for the database (or deleted when zero) is the one the upload / the restore just returned
//@   on call ltx.Pos.IsZero assert arg0.TXID == gotTX && arg0.PostApplyChecksum == gotCk
//@   on call ltx.Pos.IsZero assert (phase == 2 && !pm && sbOK) || phase == 3 ; then phase = 0
//@   loop 1 invariant storeBackupWF(s) && noNilDBs(s) && dirtySet != nil && subOK(subscription, s) && phase == 0
//@   loop 2 invariant storeBackupWF(s) && noNilDBs(s) && dirtySet != nil && subOK(subscription, s) && phase == 0
//@   loop 3 invariant storeBackupWF(s) && noNilDBs(s) && dirtySet != nil && subOK(subscription, s) && phase == 0 && -1 <= rangeindex && rangeindex < 0x1000000000000
//@   loop 4 invariant storeBackupWF(s) && noNilDBs(s) && dirtySet != nil && subOK(subscription, s) && phase == 0 && posMap != nil
//@   on return assert phase == 0 || (phase == 2 && !pm && !sbOK) || phase == 4
//@   ensures   phase != 0 ==> err != nil
//@   nopanic

// ===========================================================================
// backup_client.go — the file-based reference client (the "service" side of the contiguity check)

//@ pred entsOK(a []os.DirEntry) = forall i int :: 0 <= i && i < len(a) ==> !isnil(a[i])

// pos: the position of one database on the service = (MaxTXID, PostApplyChecksum) of the LTX file with the
// greatest name, and only after that file passed ltx.Decoder.Verify; no LTX file: the zero position. The file
// opened is closed on every path.
//@ func (c *FileBackupClient) pos [C14]
//@   requires  c != nil
//@   ghost verified bool = false
//@   ghost openN int = 0
//@   ghost closeN int = 0
//@   on call os.Open assert openN == 0 ; then openN = (ret1 == nil ? 1 : 0)
//@   on call ltx.Decoder.Verify assert openN == 1 && closeN == 0 ; then verified = (ret0 == nil)
//@   on call ltx.Decoder.Header assert verified
//@   on call ltx.Decoder.Trailer assert verified
//@   on call os.File.Close assert openN == 1 && arg0 == f ; then closeN = closeN + 1
//@   loop 1 invariant -1 <= rangeindex && rangeindex < len(ents) && entsOK(ents) && openN == 0 && closeN == 0 && !verified
//@   on return assert openN == closeN
//@   ensures   err != nil ==> zeroPos(result0)
//@   ensures   err == nil && !zeroPos(result0) ==> verified
//@   nopanic

// PosMap: a fresh non-nil map on success (streamBackup assigns into it).
//@ func (c *FileBackupClient) PosMap [C14]
//@   requires  c != nil
//@   ghost held bool = false
//@   on call sync.Mutex.Lock assert !held ; then held = true
//@   on call sync.Mutex.Unlock assert held ; then held = false
//@   on call FileBackupClient.pos assert held
//@   loop 1 invariant -1 <= rangeindex && rangeindex < len(ents) && entsOK(ents) && m != nil && held
//@   ensures   ret1 == nil ==> ret0 != nil && fresh(ret0)
//@   ensures   !held
//@   nopanic

// WriteTx: the service-side contiguity check. With cur = pos(name): nothing is created on disk unless
// hdr.MinTXID == cur.TXID+1 && hdr.PreApplyChecksum == cur.PostApplyChecksum (a snapshot, MinTXID == 1 and
// PreApplyChecksum == 0, is therefore accepted only by an empty service); otherwise the error is an
// *ltx.PosMismatchError carrying cur. The upload goes to a temporary file which is synced, verified by
// ltx.Decoder.Verify and closed before it is renamed into place; then the directory is synced. The HWM returned is the
// MaxTXID of the header that was checked.
//@ func (c *FileBackupClient) WriteTx [C14]
//@   requires  c != nil && r != nil
//@   ghost held bool = false
//@   ghost stage int = 0
//@   ghost cur ltx.Pos
//@   ghost closedTmp bool = false
//@   on call sync.Mutex.Lock assert !held ; then held = true
//@   on call sync.Mutex.Unlock assert held ; then held = false
//@   on call FileBackupClient.pos assert held && stage == 0 && arg2 == name ; then stage = (ret1 == nil ? 1 : 0), cur = ret0
//@   on call io.ReadFull assert stage == 1 && len(arg1) == ltx.HeaderSize ; then stage = (ret1 == nil ? 2 : stage)
//@   on call ltx.Header.UnmarshalBinary assert stage == 2 ; then stage = (ret0 == nil ? 3 : stage)
//@   on call os.MkdirAll assert stage == 3 && hdr.MinTXID == cur.TXID + 1 && hdr.PreApplyChecksum == cur.PostApplyChecksum ; then stage = (ret0 == nil ? 4 : stage)
//@   on call os.Create assert stage == 4 && hdr.MinTXID == cur.TXID + 1 && hdr.PreApplyChecksum == cur.PostApplyChecksum && arg0 == tempFilename ; then stage = (ret1 == nil ? 5 : stage)
//@   on call io.Copy assert stage == 5 ; then stage = (ret1 == nil ? 6 : stage)
//@   on call os.File.Sync assert stage == 6 && arg0 == f && hdr.MinTXID == cur.TXID + 1 ; then stage = (ret0 == nil ? 7 : stage)
//@   on call os.File.Seek assert stage == 7 && arg0 == f && arg1 == 0 && arg2 == io.SeekStart ; then stage = (ret1 == nil ? 8 : stage)
//@   on call ltx.Decoder.Verify assert stage == 8 && hdr.MinTXID == cur.TXID + 1 ; then stage = (ret0 == nil ? 9 : stage)
//@   on call os.File.Close assert stage >= 5 && arg0 == f ; then stage = (stage == 9 && ret0 == nil ? 10 : stage), closedTmp = true
//@   on call os.Rename assert stage == 10 && arg0 == tempFilename && arg1 == filename && hdr.MinTXID == cur.TXID + 1 ; then stage = (ret0 == nil ? 11 : stage)
//@   on call internal.Sync assert stage == 11 ; then stage = (ret0 == nil ? 12 : stage)
//@   ensures   !held
//@   ensures   err == nil ==> stage == 12 && hwm == hdr.MaxTXID && hdr.MinTXID == cur.TXID + 1 && hdr.PreApplyChecksum == cur.PostApplyChecksum
//@   ensures   err != nil ==> hwm == 0
//@   ensures   stage == 3 && (hdr.MinTXID != cur.TXID + 1 || hdr.PreApplyChecksum != cur.PostApplyChecksum) ==> isPM(err) && samePos(pmPos(err), cur)
//@   ensures   stage >= 5 ==> closedTmp
//@   nopanic

// FetchSnapshot: every *.ltx file of the database, in name order, handed to a compactor whose output is the
// returned pipe. An error after some files were opened closes all of them.
//@ func (c *FileBackupClient) FetchSnapshot [C14]
//@   requires  c != nil
//@   ghost held bool = false
//@   ghost openN int = 0
//@   ghost closeN int = 0
//@   on call sync.Mutex.Lock assert !held ; then held = true
//@   on call sync.Mutex.Unlock assert held ; then held = false
//@   on call os.Open assert held ; then openN = (ret1 == nil ? openN + 1 : openN)
//@   on call io.Closer.Close assert recv == rdrs[closeN] ; then closeN = closeN + 1
//@   loop 1 invariant -1 <= rangeindex && rangeindex < len(ents) && entsOK(ents) && openN == 0 && closeN == 0 && held && len(filenames) >= 0
//@   loop 2 invariant -1 <= rangeindex && rangeindex < len(filenames) && openN == len(rdrs) && openN == rangeindex + 1 && closeN == 0 && held && allFiles(rdrs) && (len(rdrs) == 0 || alive(rdrs))
//@   on return assert retErr != nil ==> closeN == openN
//@   mergeexits
//@   ensures   retErr == nil ==> ret0 != nil && openN >= 1 && closeN == 0
//@   ensures   !held
//@   nopanic

//@ func litefs.FileBackupClient.FetchSnapshot$1
//@   loop 1 invariant -1 <= rangeindex && rangeindex < len(rdrs) && closeN == rangeindex + 1 && allFiles(rdrs)
//@   loop 1 modifies

// The compaction goroutine of FetchSnapshot: the pipe is closed exactly once, with the compactor's verdict.
// (Observation, not demanded by C14: on the success path of FetchSnapshot nobody closes the files it opened - the
// deferred closure closes them only when an error is returned, and this goroutine, their only remaining user, never does.)
//@ func litefs.FileBackupClient.FetchSnapshot$2 [C14]
//@   requires  pw != nil && ctx != nil
//@   ghost done int = 0
//@   on call ltx.NewCompactor assert len(arg1) == len(rdrs) && sameArray(arg1, rdrs)
//@   on call io.PipeWriter.CloseWithError assert done == 0 ; then done = 1
//@   on return assert done == 1
//@   nopanic
