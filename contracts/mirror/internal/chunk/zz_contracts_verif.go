//go:build verif

// Contracts for the chunked-body codec of chunk.go (property C18), checked by govc. Comment-only.
//
// Wire format: a sequence of chunks `uint16 size (big endian), size bytes`, 1 <= size <= 65535,
// terminated by a chunk header with size 0 (EOF marker).

package chunk

// Every fixed-size field on the wire is big endian: the byte-order argument of each binary.Read /
// binary.Write is binary.BigEndian (asserted at every call; reader and writer therefore agree).
//@ pred be(o binary.ByteOrder) = typeis(o, binary.bigEndian)

// An arbitrary but fixed index (uninterpreted): what is proved about position anyIdx() holds for every position.
//@ spec func anyIdx() int

// A Reader is usable when it has an underlying reader; its pending buffer is a window of at most one
// chunk into its own 65535-byte array r.b.
//@ pred readerWF(r *Reader) = r != nil && r.r != nil && len(r.buf) <= MaxChunkSize && (len(r.buf) == 0 || sameArray(r.buf, r.b[:]))

//@ func NewReader [C18]
//@   modifies
//@   ensures   result != nil && fresh(result) && result.r == r && len(result.buf) == 0 && !result.eof
//@   nopanic

//@ func NewWriter [C18]
//@   modifies
//@   ensures   result != nil && fresh(result) && result.w == w && !result.closed
//@   nopanic

// Reader.Read. e1 = error of the chunk-header read, e2 = error of the chunk-body read, sz = the size
// the header read delivered, k = number of underlying reads issued.
//@ func (r *Reader) Read [C18]
//@   requires  readerWF(r)
//@   requires  len(p) == 0 || !sameArray(p, r.b[:])
//@   ghost e1 error = nil
//@   ghost e2 error = nil
//@   ghost k int = 0
//@   ghost sz uint16 = 0
//@   ghost bj byte = 0
//@   on call binary.Read assert be(arg1) && k == 0 && old(len(r.buf)) == 0 && !old(r.eof) && arg0 == r.r && typeis(arg2, *uint16) ; then e1 = ret0, k = 1, sz = *as(arg2, *uint16)
//@   on call io.ReadFull assert k == 1 && e1 == nil && sz != 0 && arg0 == r.r && len(arg1) == int(sz) && sameArray(arg1, r.b[:]) ; then e2 = ret1, k = 2, bj = arg1[anyIdx()]
//@   modifies  r.buf, r.eof, contents(r.b[:]), contents(p)
//@   ensures   readerWF(r) && r.r == old(r.r)
//@   ensures   0 <= n && n <= len(p) && (err != nil ==> n == 0)
//@   ensures   len(p) > 0 ==> n > 0 || err != nil
// buffered data is served first, without touching the underlying reader
//@   ensures   old(len(r.buf)) > 0 ==> k == 0 && err == nil && r.eof == old(r.eof) &&
//@             n == (len(p) < old(len(r.buf)) ? len(p) : old(len(r.buf))) && len(r.buf) == old(len(r.buf)) - n
//@   ensures   old(len(r.buf)) > 0 ==> (forall i int :: 0 <= i && i < n ==> p[i] == old(r.buf[i]))
//@   ensures   old(len(r.buf)) > 0 ==> (forall i int :: 0 <= i && i < len(r.buf) ==> r.buf[i] == old(r.buf[i + n]))
// after the EOF marker: io.EOF forever, no further read
//@   ensures   old(len(r.buf)) == 0 && old(r.eof) ==> k == 0 && n == 0 && err == io.EOF && r.eof
// header read
//@   ensures   old(len(r.buf)) == 0 && !old(r.eof) ==> k >= 1
//@   ensures   k >= 1 && e1 == io.EOF ==> err == io.ErrUnexpectedEOF && k == 1
//@   ensures   k >= 1 && e1 != nil && e1 != io.EOF ==> err == e1 && k == 1
//@   ensures   k >= 1 && e1 == nil && sz == 0 ==> err == io.EOF && r.eof && k == 1
//@   ensures   k >= 1 && e1 == nil && sz != 0 ==> k == 2 && !r.eof
// body read
//@   ensures   k == 2 && e2 != nil ==> err != nil
//@   ensures   k == 2 && e2 == nil ==> err == nil && n == (len(p) < int(sz) ? len(p) : int(sz)) && len(r.buf) == int(sz) - n
// the bytes handed out are the first n bytes the body read delivered, the rest stays pending, in order
// (bj = the byte io.ReadFull delivered at the arbitrary position anyIdx(), captured at the call)
//@   ensures   k == 2 && e2 == nil && 0 <= anyIdx() && anyIdx() < n ==> p[anyIdx()] == bj
//@   ensures   k == 2 && e2 == nil && n <= anyIdx() && anyIdx() < int(sz) ==> r.buf[anyIdx() - n] == bj
// C18 "truncation is an error": io.EOF is reported only after the EOF marker was seen.
// FAILS on the unchanged code (genuine finding C18-B1): io.EOF from the chunk-body read is returned as is.
//@   ensures   err == io.EOF ==> r.eof
// C18 "no silently different value": after an error no bytes are left pending as if they were data.
// FAILS on the unchanged code (genuine finding C18-B2): r.buf keeps the whole window after a failed body read.
//@   ensures   err != nil ==> len(r.buf) == 0
//@   nopanic

// Writer.Write. s = 0 at a chunk boundary, 1 between a chunk header and its body; hdr = size announced
// by the last header; sent = payload bytes handed over in completed chunks; e = first underlying error.
//   * nothing is written for an empty p (size 0 is the EOF marker);
//   * every header announces min(remaining, 65535) >= 1 bytes, and is followed by exactly that many
//     bytes, which are the next bytes of p in order; everything goes to w.w;
//   * nothing more is written after a failed write, whose error is returned;
//   * on success n == len(p) (all of p was sent, in ceil(len(p)/65535) chunks).
// In this contract `p` is the argument as passed; cur(p) is the shrinking remainder the loop works on.
// Precondition !w.closed: Write does not check it (a Write after Close would emit chunks after the EOF
// marker which no reader ever sees, and report success).
//@ func (w *Writer) Write [C18]
//@   requires  w != nil && w.w != nil && !w.closed
//@   ghost e error = nil
//@   ghost s int = 0
//@   ghost hdr uint16 = 0
//@   ghost sent int = 0
//@   on call binary.Write assert be(arg1) && s == 0 && e == nil && len(p) > 0 && arg0 == w.w && typeis(arg2, uint16) && as(arg2, uint16) >= 1 &&
//@        int(as(arg2, uint16)) == (len(p) - sent < MaxChunkSize ? len(p) - sent : MaxChunkSize) ; then e = ret0, s = 1, hdr = as(arg2, uint16)
//@   on call io.Writer.Write assert s == 1 && e == nil && recv == w.w && len(arg0) == int(hdr) &&
//@        (forall i int :: 0 <= i && i < len(arg0) ==> arg0[i] == p[sent + i]) ; then e = ret1, s = 0, sent = sent + len(arg0)
//@   loop 1 invariant s == 0 && e == nil && sent == n && 0 <= n && n + len(cur(p)) == len(p) && cur(p) == p[n:]
//@   loop 1 decreases len(cur(p))
//@   loop 1 modifies
//@   modifies
//@   ensures   0 <= n && n <= len(p)
//@   ensures   e != nil ==> err == e
//@   ensures   err == nil ==> e == nil && s == 0 && n == len(p) && sent == n
//@   ensures   len(p) == 0 ==> n == 0 && err == nil
//@   nopanic

// Writer.Close: the EOF marker (uint16 0) is written exactly once, by the first Close, to w.w; later
// calls write nothing and return nil; the writer is closed afterwards in every case.
//@ func (w *Writer) Close [C18]
//@   requires  w != nil && w.w != nil
//@   ghost e error = nil
//@   ghost k int = 0
//@   on call binary.Write assert be(arg1) && k == 0 && !old(w.closed) && arg0 == w.w && typeis(arg2, uint16) && as(arg2, uint16) == 0 ; then e = ret0, k = 1
//@   on call io.Writer.Write assert false
//@   modifies  w.closed
//@   ensures   w.closed
//@   ensures   old(w.closed) ==> k == 0 && err == nil
//@   ensures   !old(w.closed) ==> k == 1 && err == e
//@   nopanic
