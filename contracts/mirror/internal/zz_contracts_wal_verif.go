//go:build verif

// Additional contract lines for package internal needed by the WAL capture contracts (C03). Comment-only.
package internal

// ReadFullAt: under A-FS (see contracts/assumed/io.gvc) a read that delivered data lies inside [0, 2^62),
// so callers that advance an offset by the number of bytes read cannot wrap around.
//@ func ReadFullAt [C03]
//@   loop 1 invariant n > 0 ==> 0 <= off && off <= 0x4000000000000000 - int64(n)
//@   ensures   n > 0 ==> 0 <= off && off <= 0x4000000000000000 - int64(n)
