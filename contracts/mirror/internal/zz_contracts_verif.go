//go:build verif

// Contracts for package internal, checked by /verif (govc). Comment-only.
package internal

// ReadFullAt has io.ReadFull's result shape: exactly len(buf) bytes and nil, or fewer bytes and a
// non-nil error (io.ErrUnexpectedEOF instead of io.EOF after a partial read); it terminates under the
// io.ReaderAt contract (a short read comes with an error).
//@ func ReadFullAt [C17,C18,C05]
//@   requires  r != nil
//@   loop 1 invariant 0 <= n && n <= len(buf)
//@   loop 1 modifies contents(buf)
//@   loop 1 decreases (err == nil ? len(buf) - n + 1 : 0)
//@   modifies  contents(buf)
//@   ensures   0 <= n && n <= len(buf)
//@   ensures   err == nil <==> n == len(buf)
//@   ensures   err == io.EOF ==> n == 0
//@   nopanic

// Sync fsyncs a path (a directory, typically). It touches no program state; callers treat it as one
// file-system event (it is not inlined into their protocol automata).
//@ func Sync [C05]
//@   pure
