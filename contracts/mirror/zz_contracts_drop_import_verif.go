//go:build verif

// Contracts for properties C15 (drop is a replicated transaction; recreation continues the log) and
// C16 (import replaces a database atomically; export returns the exact current image).
// Checked by govc. Comment-only file.
package litefs

// ===========================================================================
// db.go — Drop (C15)
//
// Protocol automaton of Drop. `stage` is the durable-before-visible order:
//   0 --Create tmp--> 1 --EncodeHeader(tombstone)--> 2 --SetPostApplyChecksum(flag)--> 3 --Close--> 4 --fsync--> 5
//   --[Client.Commit when a remote halt lock is held]--> 5 --Writeable()==true--> rename 6 --dir fsync--> 7
//   --Remove DB 8 --Remove JOURNAL 9 --Remove WAL 10 --Remove SHM 11 --setPos--> 12 --MarkDirty--> 13
// `w` is true only when Writeable() returned true AFTER the last forwarding call (Client.Commit resets it).

//@ pred walReset(db *DB) = db.wal.offset == 0 && db.wal.chksum1 == 0 && db.wal.chksum2 == 0 &&
//@      db.wal.frameOffsets != nil && (forall p uint32 :: !has(db.wal.frameOffsets, p)) &&
//@      db.wal.chksums != nil && (forall p uint32 :: !has(db.wal.chksums, p))

// Store notifications: they touch subscriber state only (their mod-set is computed by the engine; no DB field is in it).
//@ func (s *Store) MarkDirty [C15]
//@   requires  s != nil
//@ func (s *Store) NotifyEvent [C15]
//@   requires  s != nil

//@ func (db *DB) Drop [C15]
//@   requires  dbWF(db) && typeis(aload(db.remoteHaltLock), *HaltLock)
//@   requires  as(aload(db.remoteHaltLock), *HaltLock) != nil ==> db.store.Client != nil
//@   ghost w bool = false
//@   ghost stage int = 0
//@   on call OS.Create op "DROP:LTX" assert stage == 0 ; then stage = (ret1 == nil ? 1 : stage)
//@   on call ltx.Encoder.EncodeHeader assert stage == 1 && arg1.Version == 1 && arg1.Commit == 0 && arg1.MinTXID == old(posOf(db)).TXID + 1 && arg1.MaxTXID == arg1.MinTXID &&
//@        arg1.PreApplyChecksum == old(posOf(db)).PostApplyChecksum && arg1.PageSize == db.pageSize ; then stage = (ret0 == nil ? 2 : stage)
//@   on call ltx.Encoder.EncodePage assert false
//@   on call ltx.Encoder.SetPostApplyChecksum assert stage == 2 && arg1 == ltx.ChecksumFlag ; then stage = 3
//@   on call ltx.Encoder.Close assert stage == 3 ; then stage = (ret0 == nil ? 4 : stage)
//@   on call os.File.Sync assert stage == 4 ; then stage = (ret0 == nil ? 5 : stage)
//@   on call Client.Commit assert stage == 5 && arg3 == db.name ; then w = false
//@   on call DB.Writeable assert stage == 5 ; then w = ret0
//@   on call OS.Rename op "DROP:LTX" assert w && stage == 5 ; then stage = (ret0 == nil ? 6 : stage)
//@   on call internal.Sync assert stage == 6 ; then stage = (ret0 == nil ? 7 : stage)
//@   on call OS.Remove op "DROP:DB" assert stage == 7 ; then stage = 8
//@   on call OS.Remove op "DROP:JOURNAL" assert stage == 8 ; then stage = 9
//@   on call OS.Remove op "DROP:WAL" assert stage == 9 ; then stage = 10
//@   on call OS.Remove op "DROP:SHM" assert stage == 10 ; then stage = 11
//@   on call DB.setPos assert stage == 11 ; then stage = (ret0 == nil ? 12 : stage)
//@   on call DB.setPos assert arg1.TXID == old(posOf(db)).TXID + 1
//@   on call DB.setPos assert arg1.PostApplyChecksum == ltx.ChecksumFlag
//@   on call DB.setPos assert dbModeIs(db, DBModeRollback)
//@   on call DB.setPos assert aload(db.pageN) == 0
//@   on call DB.setPos assert walReset(db)
//@   on call Store.MarkDirty assert stage == 12 && arg1 == db.name ; then stage = 13
//@   ensures   err == nil ==> stage == 13 && w
//@   ensures   err == nil ==> posOf(db).TXID == old(posOf(db)).TXID + 1 && posOf(db).PostApplyChecksum == ltx.ChecksumFlag
//@   ensures   err == nil ==> dbModeIs(db, DBModeRollback) && aload(db.pageN) == 0 && walReset(db)
//@   ensures   stage < 11 ==> posOf(db) == old(posOf(db))
//@   ensures   dbWF(db)
// FINDING F-C15-1 (fails on the unchanged code): a dropped database must be re-creatable "under the same name ... and
// replicate normally" for every history, including one that recreates it with a different page size. The DB object
// is reused by Store.CreateDB, and db.pageSize is only ever assigned when it is zero — Drop must clear it.
//@   ensures   err == nil ==> db.pageSize == 0
//@   mergeexits
//@   nopanic

// ===========================================================================
// db.go — ApplyLTXNoLock (C15, C16; replica side of every transaction)
//
//   stage 0 --Open LTX--> 1 --DecodeHeader--> 2 --(every DecodePage is followed by writeDatabasePage(dbFile,pgno,pageBuf,true))
//   --Decoder.Close (file checksum verified)--> 3 --truncateDatabase(Commit) | 4 x Remove (tombstone)--> 4
//   --pageN/mode stored; checksum(Commit) == trailer.PostApplyChecksum--> 5 --setPos(MaxTXID, that checksum)--> 6
//   --updateSHM--> 7 --[InvalidateDB iff snapshot]--> MarkDirty 8
// `failed` records that some callee reported an error (I/O or decoding); Exit(99) is legal only then, or on the
// deliberate checksum-mismatch verdict, and only when fatalOnError.

//@ func field.Store.Exit
//@   pure

// Frames for the two page-level writers (merged with their contracts in zz_contracts_verif.go): in memory they only
// touch the page/block checksum cache.
//@ func (db *DB) writeDatabasePage [C15,C16]
//@   modifies  db.chksums.pages, contents(db.chksums.pages), contents(db.chksums.blocks)
//@ func (db *DB) truncateDatabase [C15,C16]
//@   modifies  db.chksums.pages, contents(db.chksums.pages), contents(db.chksums.blocks)

//@ func (db *DB) updateSHM [C15,C16]
//@   requires db != nil
//@   modifies class("C|atomic_bool")

//@ func (db *DB) ApplyLTXNoLock [C15,C16,C01,C09,C11]
//@   requires  dbWF(db) && walKeysPositive(db)
// A-DBSIZE (unchecked, listed): the commit size of an LTX header stays below 2^32 - 256 pages (as in CommitJournal)
//@   on call DB.checksum assume arg1 <= 0xffffff00
//@   requires  fatalOnError ==> db.store.Exit != nil
//@   ghost stage int = 0
//@   ghost failed bool = false
//@   ghost decoded int = 0
//@   ghost written int = 0
//@   ghost rm int = 0
//@   ghost commit uint32 = 0
//@   ghost inval bool = false
//@   ghost post ltx.Checksum = 0
//@   ghost psMismatch bool = false
//@   ghost sawP1 bool = false
//@   ghost everWal bool = false
//@   ghost lastWal bool = false
//@   on call DB.writeDatabasePage ; then sawP1 = sawP1 || arg2 == 1, everWal = everWal || (arg2 == 1 && arg3[18] == 2 && arg3[19] == 2), lastWal = (arg2 == 1 ? (arg3[18] == 2 && arg3[19] == 2) : lastWal)
//@   on call OS.Open op "APPLYLTX:LTX" assert stage == 0 ; then stage = (ret1 == nil ? 1 : stage)
//@   on call ltx.Decoder.DecodeHeader assert stage == 1 ; then stage = (ret0 == nil ? 2 : stage), commit = arg0.header.Commit
//@   on call OS.OpenFile op "APPLYLTX:DB" assert stage == 2 && commit > 0
//@   on call ltx.Decoder.DecodePage assert stage == 2 && written == decoded && arg0 == dec && sameArray(arg2, pageBuf) ; then decoded = (ret0 == nil ? decoded + 1 : decoded), failed = failed || (ret0 != nil && ret0 != io.EOF)
//@   on call DB.writeDatabasePage assert stage == 2 && written == decoded - 1 && arg1 == dbFile && arg2 == phdr.Pgno && sameArray(arg3, pageBuf) && arg4 == true ; then written = written + 1, failed = failed || ret0 != nil
//@   on call DB.writeDatabasePage ; then psMismatch = psMismatch || len(arg3) != int(db.pageSize)
//@   on call ltx.Decoder.Close assert stage == 2 && written == decoded ; then stage = (ret0 == nil ? 3 : stage), failed = failed || ret0 != nil
//@   on call DB.truncateDatabase assert stage == 3 && commit > 0 && arg1 == dbFile && arg2 == commit ; then stage = (ret0 == nil ? 4 : stage), failed = failed || ret0 != nil
//@   on call OS.Remove op "APPLYLTX:DROP:DB" assert stage == 3 && commit == 0 && rm == 0 ; then rm = 1, failed = failed || ret0 != nil
//@   on call OS.Remove op "APPLYLTX:DROP:JOURNAL" assert rm == 1 ; then rm = 2, failed = failed || ret0 != nil
//@   on call OS.Remove op "APPLYLTX:DROP:WAL" assert rm == 2 ; then rm = 3, failed = failed || ret0 != nil
//@   on call OS.Remove op "APPLYLTX:DROP:SHM" assert rm == 3 ; then rm = 4, stage = 4, failed = failed || ret0 != nil
//@   on call DB.checksum assert stage == 4 && arg1 == commit && aload(db.pageN) == commit && (commit == 0 ==> dbModeIs(db, DBModeRollback) && rm == 4) ; then stage = (ret1 == nil ? 5 : stage), post = ret0, failed = failed || ret1 != nil
//@   on call DB.setPos assert stage == 5 && arg1.TXID == dec.header.MaxTXID && arg1.PostApplyChecksum == dec.trailer.PostApplyChecksum && arg1.PostApplyChecksum == post ; then stage = (ret0 == nil ? 6 : stage), failed = failed || ret0 != nil
//@   on call DB.updateSHM assert stage == 6 ; then stage = (ret0 == nil ? 7 : stage), failed = failed || ret0 != nil
//@   on call Invalidator.InvalidateDB assert stage == 7 && dec.header.MinTXID == 1 && arg0 == db ; then inval = (ret0 == nil), failed = failed || ret0 != nil
//@   on call Store.MarkDirty assert stage == 7 && arg1 == db.name && (dec.header.MinTXID == 1 && db.store.Invalidator != nil ==> inval) ; then stage = 8
//@   on call field.Store.Exit assert fatalOnError && stage >= 2 && arg0 == 99
//@   on call field.Store.Exit assert failed || (stage == 5 && post != dec.trailer.PostApplyChecksum)
// (an LTX file whose page size differs from the database's is refused by writeDatabasePage only after the point of no
// return; every producer of LTX files is checked to use the database's page size — importToLTX, CommitJournal, CommitWAL, Drop —
// so this function does not demand it again)
//@   loop 1 invariant stage == 2 && written == decoded && rm == 0 && !inval && (psMismatch ==> len(pageBuf) != int(db.pageSize))
//@   loop 1 modifies db.chksums.pages, contents(db.chksums.pages), contents(db.chksums.blocks), class("S|uint8"), class("F|ltx.Decoder|*"), class("F|ltx.PageHeader|*")
//@   loop 1 invariant sawP1 ? (dbMode == DBModeWAL <==> lastWal) : (dbMode == DBModeWAL <==> old(dbModeIs(db, DBModeWAL)))
//@   loop 1 invariant dbWF(db)
//@   loop 1 invariant walKeysPositive(db)
//@   loop 1 invariant db.pageSize == (old(db.pageSize) == 0 ? dec.header.PageSize : old(db.pageSize))
//@   loop 1 invariant db.pageSize != 0 && dec != nil && dec.header.Commit == commit && hdr.MinTXID == dec.header.MinTXID
//@   loop 1 invariant len(pageBuf) == int(dec.header.PageSize) && len(pageBuf) >= 512
//@   loop 1 invariant (commit > 0 ==> dbFile != nil) && (fatalOnError ==> db.store.Exit != nil) && hf != nil
// Frame: the page size (first apply only), the checksum cache, the atomic cells (pageN, mode, pos, timestamp, updatingSHM),
// subscriber notification sets, and objects it allocates (decoder, buffers). Not: lock state, WAL state, dirty page set, store fields.
//@   modifies  db.pageSize, db.chksums.pages, db.chksums.blocks, class("S|ltx.Checksum"),
//@             class("C|atomic_uint32"), class("C|interface{}"), class("C|atomic_bool"), class("C|int64"),
//@             class("M|map[string]struct{}"), class("M|map[*litefs.EventSubscriber]struct{}"),
//@             class("S|uint8"), class("S|any"), class("S|string"), class("F|ltx.Decoder|*"), class("F|ltx.Header|*"), class("F|ltx.Trailer|*"), class("F|ltx.PageHeader|*")
//@   ensures   retErr == nil ==> stage == 8 && written == decoded
//@   ensures   retErr == nil ==> aload(db.pageN) == commit && posOf(db).PostApplyChecksum == post
//@   ensures   retErr == nil && commit == 0 ==> rm == 4 && dbModeIs(db, DBModeRollback) && posOf(db).PostApplyChecksum == ltx.ChecksumFlag
//@   ensures   stage < 5 ==> posOf(db) == old(posOf(db))
//@   ensures   dbWF(db)
// FINDING F-C15-1, replica side (fails on the unchanged code): the tombstone arm leaves (or even sets) db.pageSize.
//@   ensures   retErr == nil && commit == 0 ==> db.pageSize == 0
// When page 1 is part of the applied transaction (always for an import), the journal mode recorded for the DB object is
// the one in that page's header (bytes 18/19 == 2 <=> WAL), in both directions (finding F30, repaired).
//@   ensures   retErr == nil && commit > 0 && sawP1 ==> (dbModeIs(db, DBModeWAL) <==> lastWal)
//@   mergeexits
//@   nopanic

// ===========================================================================
// store.go — CreateDB / CreateDBIfNotExists (C15: recreation continues the log)
//
// The store remembers a dropped database as a zero-page DB object. CreateDB on such a name reuses that very object
// (so its position — the tombstone's TXID and ChecksumFlag — is what the next commit continues from); on a
// non-empty one it refuses with ErrDatabaseExists before touching the file system; on an unknown name it
// registers a fresh object. The database file is created with O_EXCL. All of it under s.mu.

// NewDB: a fresh, well-formed DB object of the store: rollback mode, zero position, no halt locks, empty WAL index,
// twelve free advisory locks. The ghost numbering of the locks (locksNumbered, a proof device saying the twelve
// by-value mutexes are pairwise different objects) cannot be established by executable code: trusted.
//@ func NewDB [C15,C16,C20]
//@   requires  store != nil
//@   ensures   result != nil && fresh(result) && result.store == store && result.name == name && result.path == path && result.os == store.OS
//@   ensures   result.pageSize == 0 && aload(result.pageN) == 0 && dbModeIs(result, DBModeRollback) && posOf(result).TXID == 0 && posOf(result).PostApplyChecksum == 0
//@   ensures   typeis(aload(result.remoteHaltLock), *HaltLock) && as(aload(result.remoteHaltLock), *HaltLock) == nil
//@   ensures   typeis(aload(result.haltLockAndGuard), *haltLockAndGuard) && as(aload(result.haltLockAndGuard), *haltLockAndGuard) == nil
//@   ensures   result.wal.frameOffsets != nil && result.wal.chksums != nil && result.guardSets.m != nil && result.dirtyPageSet != nil && walKeysPositive(result)
//@   ensures   store.OS != nil ==> dbWF(result)
//@   ensures   wfMutex(addr(result.pendingLock)) && wfMutex(addr(result.sharedLock)) && wfMutex(addr(result.reservedLock)) &&
//@        wfMutex(addr(result.writeLock)) && wfMutex(addr(result.ckptLock)) && wfMutex(addr(result.recoverLock)) &&
//@        wfMutex(addr(result.read0Lock)) && wfMutex(addr(result.read1Lock)) && wfMutex(addr(result.read2Lock)) &&
//@        wfMutex(addr(result.read3Lock)) && wfMutex(addr(result.read4Lock)) && wfMutex(addr(result.dmsLock))
//@   trusts    locksNumbered(result)
//@   nopanic
// ASSUMED (untagged, hence never checked): the frame of DB.Open. Open is a ~50-line driver over recovery code whose
// computed mod-set is "everything" (dynamic calls); for its two callers here only this matters: it works on the
// DB object it is given (its fields, nested checksum/WAL/guard-set structs, atomic cells) and on subscriber
// dirty-sets — it does not touch the store's name->DB map, the store's fields, or package-level variables.
//@ func (db *DB) Open
//@   requires db != nil
//@   modifies fields(db), db.chksums, db.wal, db.guardSets, class("C|atomic_uint32"), class("C|atomic_bool"), class("C|any"),
//@             class("M|map[string]struct{}"), class("M|map[*litefs.EventSubscriber]struct{}"), class("M|map[uint32]int64"), class("S|ltx.Checksum")
//@   ensures  db.store == old(db.store) && db.name == old(db.name)
//@ func (s *Store) markDirty [C15]
//@   requires s != nil

//@ func (s *Store) CreateDB [C15]
//@   requires  s != nil && s.OS != nil && s.dbs != nil && s.Exit != nil
//@   requires  storeDBCountMetric != nil
//@   ghost held bool = false
//@   ghost opened bool = false
//@   on call sync.Mutex.Lock assert !held ; then held = true
//@   on call sync.Mutex.Unlock assert held ; then held = false
//@   on call DB.PageN assert held
//@   on call OS.MkdirAll op "CREATDEDB" assert held && (old(s.dbs[name]) == nil || aload(old(s.dbs[name]).pageN) == 0)
//@   on call OS.OpenFile op "CREATDEDB" assert held && !opened && arg2 == os.O_RDWR|os.O_CREATE|os.O_EXCL|os.O_TRUNC ; then opened = (ret1 == nil)
//@   on call NewDB assert held && opened && old(s.dbs[name]) == nil && arg0 == s && arg1 == name
//@   on call DB.Open assert held && old(s.dbs[name]) == nil
//@   on call Store.markDirty assert held && opened && arg1 == name
//@   ensures   !held
//@   ensures   old(s.dbs[name]) != nil && aload(old(s.dbs[name]).pageN) > 0 ==> err == ErrDatabaseExists && db == nil && f == nil && !opened
//@   ensures   err == nil ==> opened && db != nil && f != nil && s.dbs[name] == db
//@   ensures   err == nil && old(s.dbs[name]) != nil ==> db == old(s.dbs[name]) && posOf(db) == old(posOf(s.dbs[name])) && aload(db.pageN) == 0
//@   ensures   err == nil && old(s.dbs[name]) == nil ==> fresh(db) && db.store == s && db.name == name
//@   ensures   err != nil ==> db == nil && f == nil
//@   ensures   err != nil && old(s.dbs[name]) != nil ==> s.dbs[name] == old(s.dbs[name])
//@   ensures   forall k string :: k != name ==> s.dbs[k] == old(s.dbs[k])
//@   nopanic

// CreateDBIfNotExists (replica side and HTTP import): an existing object — including a remembered dropped one — is
// returned as is, without touching the file system; otherwise a fresh object is opened and registered.
//@ func (s *Store) CreateDBIfNotExists [C15,C16]
//@   requires  s != nil && s.OS != nil && s.dbs != nil && s.Exit != nil
//@   requires  storeDBCountMetric != nil
//@   ghost held bool = false
//@   on call sync.Mutex.Lock assert !held ; then held = true
//@   on call sync.Mutex.Unlock assert held ; then held = false
//@   on call OS.MkdirAll op "CREATDEDBIFNOTEXISTS" assert held && old(s.dbs[name]) == nil
//@   on call OS.WriteFile op "CREATDEDBIFNOTEXISTS" assert held && old(s.dbs[name]) == nil && len(arg2) == 0
//@   on call NewDB assert held && old(s.dbs[name]) == nil && arg0 == s && arg1 == name
//@   on call Store.markDirty assert held && arg1 == name
//@   ensures   !held
//@   ensures   old(s.dbs[name]) != nil ==> result0 == old(s.dbs[name]) && err == nil && posOf(result0) == old(posOf(s.dbs[name]))
//@   ensures   err == nil ==> result0 != nil && s.dbs[name] == result0
//@   ensures   err == nil && old(s.dbs[name]) == nil ==> fresh(result0) && result0.store == s && result0.name == name
//@   ensures   err != nil ==> result0 == nil
//@   ensures   forall k string :: k != name ==> s.dbs[k] == old(s.dbs[k])
//@   nopanic

// ===========================================================================
// litefs.go — readSQLiteDatabaseHeader (C16, C15)
//
// Exactly 100 bytes are consumed on success and returned; the page size is the big-endian uint16 at bytes 16-17 with
// the SQLite convention 1 => 65536; the page count is the big-endian uint32 at bytes 28-31; the versions are bytes
// 18 and 19. Nothing validates the page size or the page count here (importToLTX relies on the LTX encoder for that).
// On any failure the header is all zero and the bytes read so far are returned.

//@ spec func be16(b []byte, i int) uint32 = (uint32(b[i]) << 8) | uint32(b[i+1])
//@ spec func be32(b []byte, i int) uint32 = (uint32(b[i]) << 24) | (uint32(b[i+1]) << 16) | (uint32(b[i+2]) << 8) | uint32(b[i+3])

//@ func readSQLiteDatabaseHeader [C16,C15]
//@   requires  r != nil
//@   modifies
//@   ensures   err == nil ==> len(data) == 100 && fresh(data)
//@   ensures   err == nil ==> hdr.PageSize == (be16(data, 16) == 1 ? 65536 : be16(data, 16))
//@   ensures   err == nil ==> hdr.PageN == be32(data, 28)
//@   ensures   err == nil ==> hdr.WriteVersion == int(data[18]) && hdr.ReadVersion == int(data[19])
// a short or unreadable input leaves the header zero; a 100-byte input with a bad magic or page size is refused (the header
// value returned with the error is unspecified)
//@   ensures   err != nil && len(data) < 100 ==> hdr.PageSize == 0 && hdr.PageN == 0 && hdr.WriteVersion == 0 && hdr.ReadVersion == 0
//@   ensures   len(data) <= 100
//@   nopanic

// ===========================================================================
// db.go — importToLTX (C16)
//
//   stage 0 --readSQLiteDatabaseHeader ok--> 1 --Create tmp--> 2 --EncodeHeader--> 3 --(pages)--> SetPostApplyChecksum 4
//   --Close--> 5 --fsync--> 6 --close file--> 7 --rename--> 8 --dir fsync--> 9
// Header: PageSize/Commit from the SQLite header (bytes 16-17 with 1 => 65536; bytes 28-31), TXID = pos+1,
// PreApplyChecksum = current post-apply checksum. Pages: every page 1..PageN is read in order; every page except
// the lock page is encoded exactly once, in order (the encoder's prevPgno is the witness), page 1 with bytes 24-27
// (file change counter) and 40-43 (schema cookie) zeroed; the rolling checksum handed to the encoder is the XOR of
// the encoded pages' checksums. A short read returns before anything is renamed.

// the last page number encoded once all pages below `next` have been processed
//@ spec func lastEncoded(next uint32, lock uint32) uint32 = (next - 1 == lock ? next - 2 : next - 1)

//@ func (db *DB) importToLTX [C16]
//@   requires  dbWF(db) && r != nil
//@   ghost stage int = 0
//@   ghost short bool = false
//@   ghost ps uint32 = 0
//@   ghost pn uint32 = 0
//@   on call readSQLiteDatabaseHeader assert stage == 0 ; then stage = (ret2 == nil ? 1 : stage), ps = ret0.PageSize, pn = ret0.PageN
//@   on call OS.Create op "IMPORTTOLTX" assert stage == 1 ; then stage = (ret1 == nil ? 2 : stage)
//@   on call ltx.Encoder.EncodeHeader assert stage == 2 && arg1.Version == 1 && arg1.PageSize == ps && arg1.Commit == pn &&
//@        arg1.MinTXID == old(posOf(db)).TXID + 1 && arg1.MaxTXID == arg1.MinTXID && arg1.PreApplyChecksum == old(posOf(db)).PostApplyChecksum ; then stage = (ret0 == nil ? 3 : stage)
//@   on call io.ReadFull assert stage == 3 && sameArray(arg1, buf) && len(arg1) == int(ps) ; then short = short || ret1 != nil
//@   on call ltx.Encoder.EncodePage assert stage == 3 && !short && arg1.Pgno == pgno && pgno != ltx.LockPgno(ps) && sameArray(arg2, buf) && len(arg2) == int(ps)
//@   on call ltx.Encoder.EncodePage assert pgno == 1 ==> buf[24] == 0 && buf[25] == 0 && buf[26] == 0 && buf[27] == 0 && buf[40] == 0 && buf[41] == 0 && buf[42] == 0 && buf[43] == 0
//@   on call ltx.Encoder.SetPostApplyChecksum assert stage == 3 && !short && arg0.prevPgno == lastEncoded(pn + 1, ltx.LockPgno(ps)) && arg1 == pos.PostApplyChecksum ; then stage = 4
//@   on call ltx.Encoder.Close assert stage == 4 ; then stage = (ret0 == nil ? 5 : stage)
//@   on call os.File.Sync assert stage == 5 ; then stage = (ret0 == nil ? 6 : stage)
//@   on call os.File.Close ; then stage = (stage == 6 && ret0 == nil ? 7 : stage)
//@   on call OS.Rename op "IMPORTTOLTX" assert stage == 7 && !short ; then stage = (ret0 == nil ? 8 : stage)
//@   on call internal.Sync assert stage == 8 ; then stage = (ret0 == nil ? 9 : stage)
//@   loop 1 invariant stage == 3 && !short && enc != nil && enc.state == "page" && enc.header.PageSize == ps && enc.header.Commit == pn && hdr.PageSize == ps && hdr.PageN == pn
//@   loop 1 invariant lockPgno == ltx.LockPgno(ps) && len(buf) == int(ps) && ps >= 512 && ps <= 65536 && r != nil && f != nil && dbWF(db)
// (pgno wraps to 0 only after 2^32-1 pages were read with PageN == 0xffffffff; the encoder then refuses page 0)
//@   loop 1 invariant (pgno >= 1 && pgno - 1 <= pn && enc.prevPgno == lastEncoded(pgno, lockPgno)) || (pgno == 0 && pn == 0xffffffff)
//@   loop 1 invariant pos.TXID == old(posOf(db)).TXID + 1 && (enc.prevPgno == 0 ? pos.PostApplyChecksum == 0 : pos.PostApplyChecksum & ltx.ChecksumFlag != 0)
//@   modifies  class("F|ltx.Encoder|*"), class("F|ltx.Header|*"), class("F|ltx.Trailer|*"), class("S|uint8")
//@   ensures   err == nil ==> stage == 9 && !short
//@   ensures   err == nil ==> result0.TXID == old(posOf(db)).TXID + 1
//@   ensures   err == nil ==> result0.PostApplyChecksum & ltx.ChecksumFlag != 0
//@   ensures   err != nil ==> result0.TXID == 0 && result0.PostApplyChecksum == 0
//@   ensures   short ==> err != nil && stage < 8
// FINDING F-C16-2 (fails on the unchanged code): the LTX made durable here is applied with fatalOnError right after
// (Import); it must be one ApplyLTXNoLock accepts — its page size must be the database's (or the database has none yet).
//@   ensures   stage >= 8 ==> db.pageSize == 0 || db.pageSize == ps
//@   nopanic

// ===========================================================================
// db.go — write-lock acquisition frames, TruncateWAL, Import (C16)

// Frame of TryAcquireWriteLock (merged with its contract in zz_contracts_verif.go): lock state only
// (mutex counters/holders, guards, the fresh guard set, the ghost shared-holder sets).
//@ func (db *DB) TryAcquireWriteLock [C16]
//@   modifies  class("F|litefs.RWMutex|*"), class("F|litefs.RWMutexGuard|*"), class("F|litefs.GuardSet|*"), class("G|litefs.RWMutex.S")

// TruncateWAL: only to zero; the file is truncated through the OS layer before the in-memory WAL page maps are replaced
// by empty ones; nothing else changes; on failure nothing in memory changes.
//@ func (db *DB) TruncateWAL [C16]
//@   requires  db != nil && db.os != nil
//@   ghost truncated bool = false
//@   on call OS.Truncate op "TRUNCATEWAL" assert size == 0 && arg2 == 0 && !truncated ; then truncated = (ret0 == nil)
//@   modifies  db.wal.frameOffsets, db.wal.chksums
//@   ensures   err == nil ==> truncated && size == 0
//@   ensures   err == nil ==> db.wal.frameOffsets != nil && (forall p uint32 :: !has(db.wal.frameOffsets, p)) && db.wal.chksums != nil && (forall p uint32 :: !has(db.wal.chksums, p))
//@   ensures   err != nil ==> unchanged(db.wal.frameOffsets, db.wal.chksums)
//@   nopanic

// Import. `accepted` = the input is known acceptable (importToLTX returned nil: header read, every page read, LTX
// durable). C16: "an import that cannot be applied fails without changing the database, without stopping the node":
//  (a) no state-changing step may precede `accepted`: jEarly / wEarly record that invalidateJournal / TruncateWAL ran
//      before it; `ensures !jEarly`, `ensures !wEarly` FAIL on the unchanged code (finding F-C16-1);
//  (b) the fatal apply is reached only with an accepted input, on the primary, under the write lock, and the lock is
//      released on every path.
//@ func (db *DB) Import [C16]
//@   requires  dbWF(db) && locksWF(db) && walKeysPositive(db) && ctx != nil && r != nil && db.store.Exit != nil
//@   ghost prim bool = false
//@   ghost locked bool = false
//@   ghost unlocked bool = false
//@   ghost accepted bool = false
//@   ghost jEarly bool = false
//@   ghost wEarly bool = false
//@   on call Store.IsPrimary assert !locked ; then prim = ret0
//@   on call DB.AcquireWriteLock assert prim && !locked ; then locked = (ret1 == nil)
//@   on call DB.invalidateJournal assert locked && !unlocked && arg1 == JournalModePersist ; then jEarly = jEarly || !accepted
//@   on call DB.TruncateWAL assert locked && !unlocked && arg2 == 0 ; then wEarly = wEarly || !accepted
//@   on call DB.importToLTX assert locked && !unlocked && !accepted ; then accepted = (ret1 == nil)
//@   on call DB.ApplyLTXNoLock assert locked && !unlocked && accepted && arg2 == true
//@   on call GuardSet.Unlock assert locked && !unlocked ; then unlocked = true
//@   ensures   !prim ==> err == ErrReadOnlyReplica && !locked
//@   ensures   locked ==> unlocked
//@   ensures   err == nil ==> accepted
// FINDING F-C16-1 (both fail on the unchanged code): the journal is invalidated and the WAL truncated before the input is read.
//@   ensures   !jEarly
//@   ensures   !wEarly
//@   ensures   !accepted ==> posOf(db) == old(posOf(db)) && aload(db.pageN) == old(aload(db.pageN)) && db.pageSize == old(db.pageSize)
//@   mergeexits
//@   nopanic

// ===========================================================================
// db.go — Export (C16): snapshot-style read of the database file with the WAL overlay
//
// Frames of the blocking lock operations (merged with their contracts in zz_contracts_verif.go): lock state only.
//@ func (g *RWMutexGuard) RLock [C16]
//@   modifies  g.state, g.rw.sharedN, g.rw.excl, g.rw.S
//@   loop 1 modifies g.state, g.rw.sharedN, g.rw.excl, g.rw.S
//@ func (g *RWMutexGuard) Lock [C16]
//@   modifies  g.state, g.rw.sharedN, g.rw.excl, g.rw.S
//@   loop 1 modifies g.state, g.rw.sharedN, g.rw.excl, g.rw.S

// State-level view of the guards Export holds while it reads the files.
//@ pred gsh(g *RWMutexGuard) = g.state == RWMutexStateShared
//@ pred gun(g *RWMutexGuard) = g.state == RWMutexStateUnlocked
//@ pred exportReadLocks(gs *GuardSet) = gsh(addr(gs.shared)) && gsh(addr(gs.ckpt)) && gsh(addr(gs.recover)) &&
//@      gsh(addr(gs.read0)) && gsh(addr(gs.read1)) && gsh(addr(gs.read2)) && gsh(addr(gs.read3)) && gsh(addr(gs.read4)) &&
//@      gun(addr(gs.pending)) && gun(addr(gs.write))

// Export: (1) the position, page size, page count and WAL overlay are sampled while holding SHARED (and, in WAL mode,
// the exclusive WAL write lock); (2) every file open/read happens while holding SHARED + CKPT + RECOVER + READ0..4 shared
// (no checkpoint, no writer truncation can interleave) and with PENDING and WRITE released; (3) page k is read with one
// Seek to the sampled WAL frame offset + 24 (frame header) of the WAL file if the overlay has the page, else to
// (k-1)*pageSize of the database file, followed by one full read of pageSize bytes into the page buffer, and exactly
// that buffer is written to dst, pages in order 1..pageN, nothing else is written; (4) success => all pageN pages were
// written and the returned position is the sampled one; (5) the guard set is released on every path; (6) position,
// page count, page size and the WAL overlay of the DB object are not changed.
// The well-formedness preconditions of the twelve lock operations (cardinality reasoning of C12) are thorough-tier.
// (pgno is a uint32: with pageN == 0xffffffff the loop would not terminate; the invariant carries that case explicitly.)
//@ func (db *DB) Export [C16,C10]
//@   requires  dbWF(db) && locksWF(db) && ctx != nil && dst != nil
//@   thorough  call/litefs.GuardSet.Unlock/pre
//@   thorough  call/litefs.RWMutexGuard.RLock/pre
//@   thorough  call/litefs.RWMutexGuard.Lock/pre
//@   thorough  call/litefs.RWMutexGuard.Unlock/pre
//@   ghost sampled bool = false
//@   ghost sought bool = false
//@   ghost readok bool = false
//@   ghost written int = 0
//@   ghost unlocked bool = false
//@   on call DB.Pos assert !sampled && gsh(addr(gs.shared)) && (dbModeIs(db, DBModeWAL) ==> gs.write.state == RWMutexStateExclusive) ; then sampled = true
//@   on call DB.PageN assert sampled && gsh(addr(gs.shared)) && (dbModeIs(db, DBModeWAL) ==> gs.write.state == RWMutexStateExclusive)
//@   on call OS.Open op "EXPORT:DB" assert sampled && exportReadLocks(gs)
//@   on call OS.Open op "EXPORT:WAL" assert sampled && exportReadLocks(gs)
//@   on call os.File.Seek assert !sought && !readok && arg2 == 0 &&
//@        (has(walFrameOffsets, pgno) ? arg0 == walFile && arg1 == walFrameOffsets[pgno] + 24 : arg0 == dbFile && arg1 == int64(pgno - 1) * int64(pageSize)) ; then sought = (ret1 == nil)
//@   on call io.ReadFull assert sought && !readok && sameArray(arg1, pageData) && len(arg1) == int(pageSize) && exportReadLocks(gs) ; then readok = (ret1 == nil), sought = false
//@   on call io.Writer.Write assert readok && (pageN == 0xffffffff || written == int(pgno) - 1) && sameArray(arg0, pageData) && len(arg0) == int(pageSize) ; then written = (ret1 == nil ? written + 1 : written), readok = false
//@   on call GuardSet.Unlock assert arg0 == gs && !unlocked ; then unlocked = true
//@   loop 1 modifies contents(walFrameOffsets)
//@   loop 1 invariant walFrameOffsets != nil
// the copy of the WAL page index is complete (key set of the map range)
//@   loop 1 invariant forall p uint32 :: visited(1, p) ==> has(walFrameOffsets, p)
//@   loop 2 invariant forall p uint32 :: has(db.wal.frameOffsets, p) ==> has(walFrameOffsets, p) [C10,C16]
//@   loop 2 modifies contents(pageData), sought, readok, written
//@   thorough  Export/loop2/frame/F:os.File
//@   loop 2 invariant sampled && !sought && !readok && !unlocked && exportReadLocks(gs) && dbFile != nil && len(pageData) == int(pageSize)
//@   loop 2 invariant pageN == 0xffffffff || (pgno >= 1 && pgno - 1 <= pageN && written == int(pgno) - 1)
//@   ensures   unlocked
//@   proves    err == nil ==> sampled && written == int(pageN)
//@   ensures   posOf(db) == old(posOf(db)) && aload(db.pageN) == old(aload(db.pageN)) && unchanged(db.pageSize, db.wal.frameOffsets)
//@   ensures   sampled ==> result0 == posOf(db)
//@   mergeexits
//@   nopanic
