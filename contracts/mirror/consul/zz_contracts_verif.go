//go:build verif

// Contracts for package consul (property C08), checked by govc. Comment-only file.
package consul

// A usable leaser has an opened client.
//@ pred leaserWF(l *Leaser) = l != nil && l.client != nil
//@ pred leaseWF(l *Lease) = l != nil && leaserWF(l.leaser)

// ===========================================================================
// Lease.Renew: ErrLeaseExpired exactly when Consul answered without error and without a session entry; nil exactly
// when it answered with an entry (then the renewal time is refreshed); a transport error is passed through and
// leaves the renewal time alone.
//@ func (l *Lease) Renew [C08]
//@   requires  leaseWF(l)
//@   ghost n int = 0
//@   ghost entryNil bool = false
//@   ghost rerr error = nil
//@   on call api.Session.Renew assert n == 0 && arg1 == l.sessionID ; then n = n + 1, entryNil = (ret0 == nil), rerr = ret2
//@   modifies  l.renewedAt
//@   ensures   n == 1
//@   ensures   rerr != nil ==> result == rerr && unchanged(l.renewedAt)
//@   ensures   rerr == nil && entryNil ==> result == litefs.ErrLeaseExpired && unchanged(l.renewedAt)
//@   ensures   rerr == nil && !entryNil ==> result == nil
//@   ensures   result == nil ==> rerr == nil && !entryNil
//@   nopanic

// Lease.Close: the key is released for this session (best effort), then this session is destroyed; the result is
// the destroy error.
//@ func (l *Lease) Close [C08]
//@   requires  leaseWF(l)
//@   ghost stage int = 0
//@   ghost derr error = nil
//@   on call api.KV.Release assert stage == 0 && arg1.Session == l.sessionID ; then stage = 1
//@   on call api.Session.Destroy assert stage == 1 && arg1 == l.sessionID ; then stage = 2, derr = ret1
//@   modifies
//@   ensures   stage == 2 && result == derr
//@   nopanic

//@ func (l *Lease) ID [C08]
//@   requires  l != nil
//@   modifies
//@   ensures   result == l.sessionID
//@   nopanic

//@ func (l *Lease) TTL [C08]
//@   requires  l != nil && l.leaser != nil
//@   modifies
//@   ensures   result == l.leaser.TTL
//@   nopanic

//@ func (l *Lease) RenewedAt [C08]
//@   requires  l != nil
//@   modifies
//@   ensures   result == l.renewedAt
//@   nopanic

//@ func (l *Lease) HandoffCh [C08]
//@   requires  l != nil
//@   modifies
//@   ensures   result == l.handoffCh
//@   nopanic

// Handoff only offers the node ID on the lease's own handoff channel (or times out): no state changes.
//@ func (l *Lease) Handoff [C08]
//@   requires  l != nil && ctx != nil
//@   modifies
//@   nopanic

//@ func newLease [C08]
//@   modifies
//@   ensures   result != nil && fresh(result) && result.leaser == leaser && result.sessionID == sessionID && result.renewedAt == renewedAt
//@   ensures   result.handoffCh != nil && !closed(result.handoffCh)
//@   nopanic

// ===========================================================================
// Leaser.Acquire: a lease is returned only if a session was created AND the KV acquire for exactly that session
// said "acquired" without error; the lease carries that session ID. Every failure after session creation destroys
// that session again (Lease.Close) and returns no lease; "not acquired" is reported as ErrPrimaryExists.
//@ func (l *Leaser) Acquire [C08]
//@   requires  leaserWF(l)
//@   ghost created bool = false
//@   ghost sid string = ""
//@   ghost tried bool = false
//@   ghost acq bool = false
//@   ghost acqErr bool = false
//@   ghost closedN int = 0
//@   on call api.Session.CreateNoChecks assert !created && arg1.Behavior == "delete" && arg1.LockDelay == l.LockDelay ; then created = (ret2 == nil), sid = ret0
//@   on call api.KV.Acquire assert created && !tried && arg1.Session == sid ; then tried = true, acq = (ret2 == nil && ret0), acqErr = (ret2 != nil)
//@   on call Lease.Close assert created && !acq && closedN == 0 && arg0.sessionID == sid && arg0.leaser == l ; then closedN = closedN + 1
//@   ensures   retErr == nil ==> acq && closedN == 0 && ret0 != nil && typeis(ret0, *Lease) && as(ret0, *Lease).sessionID == sid && as(ret0, *Lease).leaser == l
//@   ensures   retErr != nil ==> ret0 == nil && !acq
//@   ensures   retErr != nil && created ==> closedN == 1
//@   ensures   tried && !acq && !acqErr ==> retErr == litefs.ErrPrimaryExists
//@   ensures   retErr == nil ==> ret0 != nil
//@   nopanic

// Leaser.AcquireExisting (receiving side of a handoff): the handed-over session is renewed first; a lease is
// returned only if that renewal succeeded AND the KV acquire for exactly that session said "acquired".
// The handed-over session is never destroyed here.
//@ func (l *Leaser) AcquireExisting [C08]
//@   requires  leaserWF(l)
//@   ghost renewed bool = false
//@   ghost acq bool = false
//@   ghost tried bool = false
//@   ghost acqErr bool = false
//@   on call Lease.Renew assert !renewed && arg0.sessionID == leaseID && arg0.leaser == l ; then renewed = (ret0 == nil)
//@   on call api.KV.Acquire assert renewed && !tried && arg1.Session == leaseID ; then tried = true, acq = (ret2 == nil && ret0), acqErr = (ret2 != nil)
//@   on call Lease.Close assert false
//@   on call api.Session.Destroy assert false
//@   ensures   ret1 == nil ==> renewed && acq && ret0 != nil && typeis(ret0, *Lease) && as(ret0, *Lease).sessionID == leaseID && as(ret0, *Lease).leaser == l
//@   ensures   ret1 != nil ==> ret0 == nil
//@   ensures   tried && !acq && !acqErr ==> ret1 == litefs.ErrPrimaryExists
//@   nopanic

// Leaser.PrimaryInfo: no key or an empty value means "no primary".
//@ func (l *Leaser) PrimaryInfo [C08]
//@   requires  leaserWF(l)
//@   ghost gotNil bool = false
//@   ghost vlen int = 0
//@   ghost gerr error = nil
//@   on call api.KV.Get ; then gotNil = (ret0 == nil), vlen = len(ret0.Value), gerr = ret2
//@   ensures   gerr != nil ==> err == gerr
//@   ensures   gerr == nil && (gotNil || vlen == 0) ==> err == litefs.ErrNoPrimary
//@   ensures   err == nil ==> gerr == nil && !gotNil && vlen > 0
//@   nopanic

// Leaser.ClusterID: a missing key is the empty cluster ID.
//@ func (l *Leaser) ClusterID [C08]
//@   requires  leaserWF(l)
//@   ghost gotNil bool = false
//@   ghost gerr error = nil
//@   on call api.KV.Get ; then gotNil = (ret0 == nil), gerr = ret2
//@   modifies
//@   ensures   gerr != nil ==> ret1 == gerr && ret0 == ""
//@   ensures   gerr == nil ==> ret1 == nil
//@   ensures   gerr == nil && gotNil ==> ret0 == ""
//@   nopanic

// Leaser.SetClusterID: the key is written only if the current cluster ID was read without error and is empty.
//@ func (l *Leaser) SetClusterID [C08]
//@   requires  leaserWF(l)
//@   ghost cur string = ""
//@   ghost curOK bool = false
//@   ghost put bool = false
//@   on call Leaser.ClusterID ; then cur = ret0, curOK = (ret1 == nil)
//@   on call api.KV.Put assert curOK && cur == "" && !put ; then put = (ret1 == nil)
//@   ensures   result == nil ==> put
//@   ensures   curOK && cur != "" ==> result != nil
//@   nopanic

//@ func (l *Leaser) kvKey [C08]
//@   requires  l != nil
//@   pure
//@   nopanic
//@ func (l *Leaser) ClusterIDKey [C08]
//@   requires  l != nil
//@   pure
//@   nopanic
//@ func (l *Leaser) NodeName [C08]
//@   requires  l != nil
//@   pure
//@   nopanic
