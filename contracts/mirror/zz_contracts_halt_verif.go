//go:build verif

// Contracts for property C13 (write forwarding under a halt lock), the non-handler half:
// the primary-side grant / release / expiry of a database's halt lock, the replica-side
// acquisition / release of the remote halt lock, and the write-lock retry loop they rest on.
// Comment-only file, checked by govc.
package litefs

// ===========================================================================
// db.go — AcquireWriteLock: the retry loop around TryAcquireWriteLock.
//
// The callback is an arbitrary function of the caller. For the stand-alone proof of the loop it is
// assumed not to write the heap (A-CB2); where a caller passes a function literal (AcquireHaltLock)
// the engine does not use this contract but inlines the loop and runs the literal's body in place.
//@ func param.AcquireWriteLock.fn
//@   pure

// Partial correctness (the loop need not terminate before ctx is done): a guard set is returned iff
// err == nil; it is fresh, bound to db's twelve locks and holds the full write lock of the journal mode.
// The callback is consulted before EVERY attempt and an error from it ends the loop without an attempt.
// The halt-lock record stored in db is not touched by the loop.
//@ func (db *DB) AcquireWriteLock [C13,C11,C10,C05,C06,C15,C16,C14]
//@   requires  db != nil && locksWF(db) && typeis(aload(db.mode), DBMode) && ctx != nil
// only lock state changes (mutex counters/holders, guards, the fresh guard set and its guard slice, the ghost holder sets)
//@   modifies  class("F|litefs.RWMutex|sharedN"), class("F|litefs.RWMutex|excl"), class("G|litefs.RWMutex.S"), class("F|litefs.RWMutexGuard|*"), class("F|litefs.GuardSet|*"), class("S|any")
//@   loop 1 modifies class("F|litefs.RWMutex|sharedN"), class("F|litefs.RWMutex|excl"), class("G|litefs.RWMutex.S"), class("F|litefs.RWMutexGuard|*"), class("F|litefs.GuardSet|*"), class("S|any")
//@   ghost asked bool = false
//@   on call param.AcquireWriteLock.fn assert !asked ; then asked = (ret0 == nil)
//@   on call DB.TryAcquireWriteLock assert fn == nil || asked ; then asked = false
//@   loop 1 invariant locksWF(db) && typeis(aload(db.mode), DBMode) && !asked && haltRecUnchanged(db)
//@   ensures   locksWF(db)
//@   ensures   (err == nil) == (result0 != nil)
//@   ensures   result0 != nil ==> fresh(result0) && guardSetWF(result0, db)
//@   ensures   result0 != nil && dbModeIs(db, DBModeRollback) ==> holdsWriteLockRollback(result0)
//@   ensures   result0 != nil && !dbModeIs(db, DBModeRollback) ==> holdsWriteLockWAL(result0)
//@   ensures   unchanged(aload(db.mode), aload(db.pos), aload(db.remoteHaltLock)) && haltRecUnchanged(db)
//@   nopanic

// ===========================================================================
// Halt-lock state of a database (both atomic.Value fields are plain cells in the engine, A-SEQ).

//@ spec func haltOf(db *DB) *haltLockAndGuard = as(aload(db.haltLockAndGuard), *haltLockAndGuard)
//@ spec func remoteOf(db *DB) *HaltLock = as(aload(db.remoteHaltLock), *HaltLock)

// The primary-side record (cell, pair, and the HaltLock it points to) is exactly as at entry.
//@ pred haltRecUnchanged(db *DB) = unchanged(aload(db.haltLockAndGuard)) &&
//@      (typeis(aload(db.haltLockAndGuard), *haltLockAndGuard) && haltOf(db) != nil ==>
//@         unchanged(haltOf(db).haltLock, haltOf(db).guardSet) &&
//@         (haltOf(db).haltLock != nil ==> unchanged(haltOf(db).haltLock.ID, haltOf(db).haltLock.Pos.TXID,
//@              haltOf(db).haltLock.Pos.PostApplyChecksum, haltOf(db).haltLock.Expires)))

// Both cells hold a (possibly nil) pointer of their declared use (NewDB stores typed nils).
//@ pred haltCellsWF(db *DB) = typeis(aload(db.haltLockAndGuard), *haltLockAndGuard) && typeis(aload(db.remoteHaltLock), *HaltLock)

// Object invariant of the primary-side record: a stored pair has a lock record and a guard set bound to db's locks.
//@ pred haltInv(db *DB) = haltCellsWF(db) && (haltOf(db) != nil ==> haltOf(db).haltLock != nil && guardSetWF(haltOf(db).guardSet, db))

// The part of haltInv that does not speak about guard states. After an attempt that ran TryAcquireWriteLock but
// published nothing (error / idempotent return), the well-formedness of the guards of the STORED guard set cannot be
// re-established from TryAcquireWriteLock's contract (it has no frame for guards of other guard sets), so only this
// weaker invariant is promised on those paths; on a successful grant the full haltInv(db) holds for the new record.
//@ pred haltRecWF(db *DB) = haltCellsWF(db) && (haltOf(db) != nil ==> haltOf(db).haltLock != nil && haltOf(db).guardSet != nil)

// ===========================================================================
// db.go — primary side: grant, release, expiry.

// AcquireHaltLock. stage: 0 = nothing held, 1 = full write lock held (guard set gs), 2 = recovery done,
// 3 = position read after recovery, 4 = lock record published.
// The callback handed to AcquireWriteLock is a function literal: the engine inlines AcquireWriteLock here (with its
// loop invariant) and runs the literal in place, so the idempotence check is verified on the real code.
// clearedPrev marks the defensive branch "there shouldn't be an existing halt lock but clear it just in case"
// (db.go:267-270). It is proved unreachable unless a lock with a DIFFERENT id is stored at entry. In that case
// reaching it would need TryAcquireWriteLock to succeed while the stored guard set still holds the write lock,
// which the lock contracts exclude but do not export in a usable form (TryAcquireWriteLock / GuardSet.Unlock say
// nothing about guards of OTHER guard sets): the Unlock preconditions on that branch and the lock-state
// postconditions after it are therefore not provable; they are deferred to the thorough tier / guarded by !clearedPrev.
//@ func (db *DB) AcquireHaltLock [C13]
//@   requires  dbWF(db) && locksWF(db) && ctx != nil && haltInv(db) && db.store != nil
//@   ghost gs *GuardSet = nil
//@   ghost stage int = 0
//@   ghost relGS bool = false
//@   ghost clearedPrev bool = false
//@   ghost asked bool = false
//@   on call param.AcquireWriteLock.fn assert !asked ; then asked = (ret0 == nil)
//@   on call DB.TryAcquireWriteLock assert asked ; then asked = false
//@   on call DB.AcquireWriteLock assert stage == 0 && lockID != 0 ; then gs = ret0, stage = (ret1 == nil ? 1 : 0), relGS = false, clearedPrev = false
//@   on call DB.recover assert stage == 1 && gs != nil ; then stage = (ret0 == nil ? 2 : stage)
//@   on call DB.Pos assert stage == 2 ; then stage = 3
//@   on call time.Time.Add assert stage == 2 && arg1 == db.store.HaltLockTTL
//@   on call atomic.Value.CompareAndSwap assert stage == 3 && arg0 == addr(db.haltLockAndGuard) && arg1 == aload(db.haltLockAndGuard) &&
//@        typeis(arg2, *haltLockAndGuard) && as(arg2, *haltLockAndGuard) != nil && as(arg2, *haltLockAndGuard).guardSet == gs &&
//@        as(arg2, *haltLockAndGuard).haltLock != nil && as(arg2, *haltLockAndGuard).haltLock.ID == lockID &&
//@        as(arg2, *haltLockAndGuard).haltLock.Pos.TXID == posOf(db).TXID &&
//@        as(arg2, *haltLockAndGuard).haltLock.Pos.PostApplyChecksum == posOf(db).PostApplyChecksum &&
//@        as(arg2, *haltLockAndGuard).haltLock.Expires != nil ; then stage = (ret0 ? 4 : stage)
//@   on call GuardSet.Unlock assert (arg0 == gs && gs != nil && stage >= 1 && stage < 4 && retErr != nil) ||
//@        (stage == 3 && haltOf(db) != nil && arg0 == haltOf(db).guardSet && arg0 != gs) ; then relGS = (relGS || arg0 == gs), clearedPrev = (clearedPrev || arg0 != gs)
//@   thorough  AcquireHaltLock/call/litefs.GuardSet.Unlock/pre
//@   ensures   lockID == 0 ==> err != nil && stage == 0 && gs == nil
//@   ensures   err != nil ==> result0 == nil && stage < 4 && (gs != nil ==> relGS)
//@   ensures   err != nil && !clearedPrev ==> haltRecUnchanged(db)
//@   ensures   err == nil ==> stage == 4 || stage == 0
//@   ensures   err == nil ==> result0 != nil && result0.ID == lockID && haltOf(db) != nil && haltOf(db).haltLock != nil &&
//@             haltOf(db).haltLock.ID == lockID && result0.Pos.TXID == haltOf(db).haltLock.Pos.TXID &&
//@             result0.Pos.PostApplyChecksum == haltOf(db).haltLock.Pos.PostApplyChecksum && result0.Expires == haltOf(db).haltLock.Expires
//@   ensures   err == nil && stage == 4 ==> haltOf(db).guardSet == gs && gs != nil && !relGS &&
//@             result0.Pos.TXID == posOf(db).TXID && result0.Pos.PostApplyChecksum == posOf(db).PostApplyChecksum
//@   ensures   err == nil && stage == 4 && !clearedPrev && dbModeIs(db, DBModeRollback) ==> holdsWriteLockRollback(gs)
//@   ensures   err == nil && stage == 4 && !clearedPrev && !dbModeIs(db, DBModeRollback) ==> holdsWriteLockWAL(gs)
//@   ensures   err == nil && stage == 0 ==> gs == nil && haltRecUnchanged(db)
//@   ensures   old(haltOf(db)) != nil && old(haltOf(db).haltLock.ID) == lockID && lockID != 0 ==> err == nil && stage == 0
//@   ensures   old(haltOf(db)) == nil || old(haltOf(db).haltLock.ID) != lockID ==> stage != 0 || err != nil
//@   ensures   old(haltOf(db)) == nil || old(haltOf(db).haltLock.ID) == lockID ==> !clearedPrev
//@   ensures   !clearedPrev ==> locksWF(db) && haltRecWF(db)
//@   ensures   !clearedPrev && err == nil && stage == 4 ==> haltInv(db)
//@   nopanic

//@ pred gsAllUnlocked(gs *GuardSet) = gUnlocked(addr(gs.pending)) && gUnlocked(addr(gs.shared)) && gUnlocked(addr(gs.reserved)) &&
//@      gUnlocked(addr(gs.write)) && gUnlocked(addr(gs.ckpt)) && gUnlocked(addr(gs.recover)) &&
//@      gUnlocked(addr(gs.read0)) && gUnlocked(addr(gs.read1)) && gUnlocked(addr(gs.read2)) &&
//@      gUnlocked(addr(gs.read3)) && gUnlocked(addr(gs.read4)) && gUnlocked(addr(gs.dms))

// ReleaseHaltLock: only a request that names the ID of the stored lock has an effect; then the record is
// cleared first and exactly the stored guard set is unlocked, once, so the primary can write again.
// Any other request changes neither the record nor any lock.
//@ func (db *DB) ReleaseHaltLock [C13]
//@   requires  db != nil && locksWF(db) && haltInv(db)
//@   ghost cleared bool = false
//@   ghost n int = 0
//@   on call atomic.Value.CompareAndSwap assert !cleared && arg0 == addr(db.haltLockAndGuard) && haltOf(db) != nil && haltOf(db).haltLock.ID == id &&
//@        arg1 == aload(db.haltLockAndGuard) && typeis(arg2, *haltLockAndGuard) && as(arg2, *haltLockAndGuard) == nil ; then cleared = ret0
//@   on call GuardSet.Unlock assert n == 0 && cleared && arg0 == old(haltOf(db).guardSet) ; then n = n + 1
//@   ensures   old(haltOf(db)) != nil && old(haltOf(db).haltLock.ID) == id ==> haltOf(db) == nil && n == 1 && gsAllUnlocked(old(haltOf(db).guardSet))
//@   ensures   old(haltOf(db)) == nil || old(haltOf(db).haltLock.ID) != id ==> n == 0 && !cleared && haltRecUnchanged(db) && locksUnchanged(db)
//@   ensures   haltInv(db) && locksWF(db)
//@   nopanic

// EnforceHaltLockExpiration: the record is cleared and its guard set unlocked only when the stored lock has an
// expiry time and that time is not after now (time.Time.After is uninterpreted; its receiver is pinned to the stored time).
//@ func (db *DB) EnforceHaltLockExpiration [C13]
//@   requires  db != nil && locksWF(db) && haltInv(db)
//@   ghost live bool = true
//@   ghost asked bool = false
//@   ghost cleared bool = false
//@   ghost n int = 0
//@   on call time.Time.After assert !asked && haltOf(db) != nil && haltOf(db).haltLock.Expires != nil &&
//@        arg0.wall == haltOf(db).haltLock.Expires.wall && arg0.ext == haltOf(db).haltLock.Expires.ext ; then live = ret0, asked = true
//@   on call atomic.Value.CompareAndSwap assert asked && !live && !cleared && arg0 == addr(db.haltLockAndGuard) && haltOf(db) != nil &&
//@        arg1 == aload(db.haltLockAndGuard) && typeis(arg2, *haltLockAndGuard) && as(arg2, *haltLockAndGuard) == nil ; then cleared = ret0
//@   on call GuardSet.Unlock assert n == 0 && cleared && arg0 == old(haltOf(db).guardSet) ; then n = n + 1
//@   ensures   old(haltOf(db)) == nil || old(haltOf(db).haltLock.Expires) == nil ==> n == 0 && !cleared && haltRecUnchanged(db) && locksUnchanged(db)
//@   ensures   asked && live ==> n == 0 && !cleared && haltRecUnchanged(db) && locksUnchanged(db)
//@   ensures   asked && !live ==> haltOf(db) == nil && n == 1 && gsAllUnlocked(old(haltOf(db).guardSet))
//@   ensures   old(haltOf(db)) != nil && old(haltOf(db).haltLock.Expires) != nil ==> asked
//@   ensures   haltInv(db) && locksWF(db)
//@   nopanic

// ===========================================================================
// db.go — replica side: the remote halt lock.

// Assumption about every replication client (A-CLIENT): a successful AcquireHaltLock returns a lock record
// (http.Client decodes the response body into a new HaltLock). No in-memory state of DB/Store is touched.
//@ func litefs.Client.AcquireHaltLock
//@   pure
//@   ensures ret1 == nil ==> ret0 != nil

// Getters. The type assertions succeed because both cells only ever hold a (possibly nil) pointer of
// their type (haltCellsWF; established by NewDB and preserved by every store in this file).
//@ func (db *DB) RemoteHaltLock [C13]
//@   requires  db != nil && typeis(aload(db.remoteHaltLock), *HaltLock)
//@   pure
//@   ensures   (result == nil) == (remoteOf(db) == nil)
//@   ensures   result != nil ==> fresh(result) && result.ID == remoteOf(db).ID && result.Pos.TXID == remoteOf(db).Pos.TXID &&
//@             result.Pos.PostApplyChecksum == remoteOf(db).Pos.PostApplyChecksum && result.Expires == remoteOf(db).Expires
//@   nopanic

// HasRemoteHaltLock / Writeable are called from contracts that only know dbWF(db); their results are
// characterised under the cell typing, which is not made a precondition here (see NOTES).
//@ func (db *DB) HasRemoteHaltLock [C13,C07]
//@   requires  db != nil
//@   pure
//@   ensures   typeis(aload(db.remoteHaltLock), *HaltLock) ==> result == (remoteOf(db) != nil)

// Write authority: a node may write iff it holds the primary lease or a remote halt lock.
//@ func (db *DB) Writeable [C13]
//@   ensures   typeis(aload(db.remoteHaltLock), *HaltLock) ==> result == (remoteOf(db) != nil || db.store.lease != nil)

// WaitPosExact: success is returned only when the database position equals the target exactly (TXID and
// checksum); a position beyond the target or a checksum mismatch is an error, never a success. Nothing is written.
// Partial correctness; in the sequential model the position cannot advance inside the loop (A-SEQ), so
// "eventually reaches" is not claimed.
//@ func (db *DB) WaitPosExact [C13]
//@   requires  db != nil && ctx != nil && typeis(aload(db.pos), ltx.Pos)
//@   modifies
//@   loop 1 invariant typeis(aload(db.pos), ltx.Pos)
//@   ensures   err == nil ==> posOf(db).TXID == target.TXID && posOf(db).PostApplyChecksum == target.PostApplyChecksum
//@   nopanic

// AcquireRemoteHaltLock. stage: 0 = nothing, 1 = granted by the primary (record g), 2 = g stored locally,
// 3 = local position equals g.Pos.
//@ func (db *DB) AcquireRemoteHaltLock [C13,C07]
//@   requires  db != nil && db.store != nil && db.store.Client != nil && ctx != nil && haltCellsWF(db) && typeis(aload(db.pos), ltx.Pos)
//@   ghost stage int = 0
//@   ghost g *HaltLock = nil
//@   ghost relRemote bool = false
//@   on call Client.AcquireHaltLock assert stage == 0 && lockID != 0 && arg2 == db.store.id && arg3 == db.name && arg4 == lockID ; then g = ret0, stage = (ret1 == nil ? 1 : 0)
//@   on call atomic.Value.Store assert stage == 1 && arg0 == addr(db.remoteHaltLock) && typeis(arg1, *HaltLock) && as(arg1, *HaltLock) == g ; then stage = 2
//@   on call DB.WaitPosExact assert stage == 2 && arg2.TXID == g.Pos.TXID && arg2.PostApplyChecksum == g.Pos.PostApplyChecksum ; then stage = (ret0 == nil ? 3 : 2)
//@   on call Client.ReleaseHaltLock assert stage >= 1 && stage < 3 && retErr != nil && !relRemote && arg2 == db.store.id && arg3 == db.name && arg4 == g.ID ; then relRemote = true
//@   ensures   lockID == 0 ==> err != nil && stage == 0
//@   ensures   stage == 0 ==> err != nil && unchanged(aload(db.remoteHaltLock))
//@   ensures   err == nil ==> stage == 3 && !relRemote && result0 != nil && remoteOf(db) == g && g != nil && result0.ID == g.ID &&
//@             result0.Pos.TXID == g.Pos.TXID && result0.Pos.PostApplyChecksum == g.Pos.PostApplyChecksum &&
//@             posOf(db).TXID == g.Pos.TXID && posOf(db).PostApplyChecksum == g.Pos.PostApplyChecksum
//@   ensures   err != nil ==> result0 == nil && stage < 3 && (stage >= 1 ==> relRemote)
//@   ensures   err != nil && stage >= 1 ==> remoteOf(db) != g
//@   ensures   haltCellsWF(db)
//@   nopanic

// Recover = full write lock + recover(), the lock released on every path. Neither halt-lock cell is touched
// (recover()'s transitive write set is computed by the engine; it contains no atomic.Value cell other than db.pos/db.mode — see NOTES).
//@ func (db *DB) Recover [C13]
//@   requires  dbWF(db) && locksWF(db) && ctx != nil
//@   ghost gs *GuardSet = nil
//@   ghost rel bool = false
//@   on call DB.AcquireWriteLock assert gs == nil ; then gs = ret0
//@   on call DB.recover assert gs != nil && !rel
//@   on call GuardSet.Unlock assert arg0 == gs && gs != nil && !rel ; then rel = true
//@   ensures   gs != nil ==> rel
//@   ensures   gs == nil ==> err != nil
//@   ensures   locksWF(db)
//@   ensures   unchanged(aload(db.remoteHaltLock), aload(db.haltLockAndGuard))
//@   nopanic

// UnsetRemoteHaltLock: the local reference is cleared only when it carries the given ID, and only after a
// successful recovery (rollback / checkpoint); a request for another ID, or with no lock held, changes nothing
// and runs no recovery; a failed recovery leaves the reference in place.
// (UnsetRemoteHaltLock itself is the one-line wrapper unsetRemoteHaltLock(ctx, lockID, false), inlined by the engine.)
// The recovery runs under the write lock: DB.Recover takes it; with writeLocked the caller holds it and recover runs directly.
//@ func (db *DB) unsetRemoteHaltLock [C13,C06,C07]
//@   requires  dbWF(db) && locksWF(db) && ctx != nil && haltCellsWF(db)
//@   ghost rec int = 0
//@   ghost cleared bool = false
//@   on call DB.Recover assert !writeLocked && rec == 0 && remoteOf(db) != nil && remoteOf(db).ID == lockID ; then rec = (ret0 == nil ? 2 : 1)
//@   on call DB.recover assert writeLocked && rec == 0 && remoteOf(db) != nil && remoteOf(db).ID == lockID ; then rec = (ret0 == nil ? 2 : 1)
//@   on call atomic.Value.CompareAndSwap assert rec == 2 && !cleared && arg0 == addr(db.remoteHaltLock) && arg1 == aload(db.remoteHaltLock) &&
//@        remoteOf(db) != nil && remoteOf(db).ID == lockID && typeis(arg2, *HaltLock) && as(arg2, *HaltLock) == nil ; then cleared = ret0
//@   ensures   old(remoteOf(db)) != nil && old(remoteOf(db).ID) == lockID ==> rec != 0 && (err == nil) == (rec == 2) && (err == nil ==> remoteOf(db) == nil && cleared)
//@   ensures   old(remoteOf(db)) == nil || old(remoteOf(db).ID) != lockID ==> err == nil && rec == 0 && !cleared
//@   ensures   !cleared ==> unchanged(aload(db.remoteHaltLock))
//@   ensures   haltCellsWF(db) && locksWF(db) && unchanged(aload(db.haltLockAndGuard))
//@   nopanic

// ReleaseRemoteHaltLock: local unset first (see above); the primary is told to release only after the local
// reference is gone or was not ours, never on a primary, and with the caller's ID.
//@ func (db *DB) ReleaseRemoteHaltLock [C13,C07]
//@   requires  dbWF(db) && locksWF(db) && ctx != nil && haltCellsWF(db) && db.store.Client != nil
//@   ghost unset int = 0
//@   ghost told bool = false
//@   on call DB.UnsetRemoteHaltLock assert unset == 0 && arg2 == lockID ; then unset = (ret0 == nil ? 2 : 1)
//@   on call Client.ReleaseHaltLock assert unset == 2 && !told && arg2 == db.store.id && arg3 == db.name && arg4 == lockID &&
//@        (remoteOf(db) == nil || remoteOf(db).ID != lockID) ; then told = true
//@   ensures   err == nil ==> unset == 2 && (remoteOf(db) == nil || remoteOf(db).ID != lockID)
//@   ensures   unset != 2 ==> err != nil && !told
//@   ensures   haltCellsWF(db) && locksWF(db)
//@   nopanic

// ===========================================================================
// store.go — expiry sweep: every database of the store is visited under the store mutex, with the caller's context.
// Each visit needs the per-database invariant (locksWF, haltInv); it is assumed for every registered database at
// entry and carried as loop invariant. Its preservation across one database's expiry (loop1/step) needs a
// separation argument between distinct DB objects that the engine cannot make: DB.EnforceHaltLockExpiration has
// no `modifies` frame (an atomic.Value cell cannot be named in one), so all lock classes are havocked at the call.
// Those step obligations are deferred to the thorough tier, where they remain undecided (see NOTES).
//@ pred storeDBsWF(s *Store) = forall name string :: has(s.dbs, name) ==> s.dbs[name] != nil && locksWF(s.dbs[name]) && haltInv(s.dbs[name])

//@ func (s *Store) EnforceHaltLockExpiration [C13]
//@   requires  s != nil && storeDBsWF(s)
//@   ghost held bool = false
//@   on call sync.Mutex.Lock assert !held && arg0 == addr(s.mu) ; then held = true
//@   on call sync.Mutex.Unlock assert held && arg0 == addr(s.mu) ; then held = false
//@   on call DB.EnforceHaltLockExpiration assert held && arg1 == ctx
//@   loop 1 invariant held
//@   loop 1 invariant storeDBsWF(s) [C13,thorough]
//@   ensures   !held
//@   nopanic

// ===========================================================================
// db.go — forwarding block of CommitJournal (merged with the protocol automaton in zz_contracts_verif.go; `stage`
// is declared there: 6 = LTX file complete and fsynced, 7 = LTX file renamed into place = published locally).
// The transaction is sent to the primary iff a remote halt lock is held, exactly once, with that lock's ID, this
// node's ID and this database's name, after the LTX file is durable and BEFORE it is published locally; local
// publication happens only after the primary acknowledged (Commit returned nil).
//@ func (db *DB) CommitJournal [C13]
//@   requires  typeis(aload(db.remoteHaltLock), *HaltLock)
//@   ghost needFwd int = 0
//@   ghost fwd bool = false
//@   on call DB.RemoteHaltLock assert stage == 6 && needFwd == 0 ; then needFwd = (ret0 != nil ? 2 : 1)
//@   on call Client.Commit assert needFwd == 2 && !fwd && remoteOf(db) != nil && arg2 == db.store.id && arg3 == db.name && arg4 == remoteOf(db).ID ; then fwd = (ret0 == nil)
//@   on call OS.Rename op "COMMITJOURNAL:LTX" assert needFwd != 0 && (needFwd == 2) == (remoteOf(db) != nil) && (needFwd == 2) == fwd
//@   ensures   err == nil && stage == 12 ==> (remoteOf(db) != nil) == fwd

// Callers of CommitJournal under contract: the cell typing is part of the object invariant they assume.
//@ func (db *DB) WriteJournalAt
//@   requires  typeis(aload(db.remoteHaltLock), *HaltLock)
//@ func (db *DB) TruncateJournal
//@   requires  typeis(aload(db.remoteHaltLock), *HaltLock)
//@ func (db *DB) RemoveJournal
//@   requires  typeis(aload(db.remoteHaltLock), *HaltLock)
