//go:build verif

// Contracts for package lfsc (LiteFS Cloud backup client), property C14. Checked by /verif (govc).
package lfsc

// A client as NewBackupClient builds it, attached to an opened store (the cluster ID cell holds a string).
//@ pred clientWF(c *BackupClient) = c != nil && c.HTTPClient != nil && c.store != nil && typeis(aload(c.store.clusterID), string)

//@ func isSuccessfulStatusCode [C14]
//@   modifies
//@   ensures   result == (code >= 200 && code < 300)
//@   nopanic

// readResponseError: always an error (never nil); the body is closed exactly once on every path; a position
// mismatch is reported only for the JSON code "EPOSMISMATCH" and then carries the position the service sent.
//@ func readResponseError [C14]
//@   requires  resp != nil && resp.Body != nil
//@   ghost closed int = 0
//@   on call io.ReadCloser.Close assert closed == 0 && recv == resp.Body ; then closed = 1
//@   on return assert closed == 1
//@   ensures   result != nil
//@   ghost pm bool = false
//@   on call ltx.NewPosMismatchError assert !pm && e.Code == "EPOSMISMATCH" && arg0.TXID == e.Pos.TXID && arg0.PostApplyChecksum == e.Pos.PostApplyChecksum ; then pm = true
//@   proves    pm ==> typeis(result, *ltx.PosMismatchError) && as(result, *ltx.PosMismatchError) != nil
//@   nopanic

// doRequest: a response is returned only for a 2XX status, with a non-nil body; every other outcome is an
// error and a nil response (so no caller ever reads a high-water mark from a refused upload).
//@ func (c *BackupClient) doRequest [C14]
//@   requires  c != nil && c.HTTPClient != nil && req != nil && ctx != nil
//@   modifies  c.lfscInstanceID
//@   ensures   err == nil ==> result0 != nil && result0.Body != nil && result0.StatusCode >= 200 && result0.StatusCode < 300
//@   ensures   err != nil ==> result0 == nil
//@   nopanic

//@ func (c *BackupClient) newRequest [C14]
//@   requires  c != nil && c.store != nil && typeis(aload(c.store.clusterID), string)
//@   ensures   err == nil ==> result0 != nil
//@   ensures   err != nil ==> result0 == nil
//@   nopanic

// WriteTx: the high-water mark returned is exactly what ltx.ParseTXID made of the service's Litefs-Hwm header
// of a 2XX response whose body was closed; any failure (request, status, close, parse) returns 0 and an error.
//@ func (c *BackupClient) WriteTx [C14]
//@   requires  clientWF(c) && ctx != nil
//@   ghost stage int = 0
//@   ghost parsed ltx.TXID = 0
//@   on call BackupClient.newRequest assert stage == 0 && arg1 == "POST" && arg2 == "/db/tx" && arg4 == r ; then stage = (ret1 == nil ? 1 : 0)
//@   on call BackupClient.doRequest assert stage == 1 && arg2 == req ; then stage = (ret1 == nil ? 2 : stage)
//@   on call io.ReadCloser.Close assert stage == 2 && recv == resp.Body ; then stage = (ret0 == nil ? 3 : stage)
//@   ghost gotHdr bool = false
//@   ghost hs string = ""
//@   on call nethttp.Header.Get op "Litefs-Hwm" assert stage == 3 && arg0 == resp.Header ; then gotHdr = true, hs = ret0
//@   on call ltx.ParseTXID assert stage == 3 && gotHdr && arg0 == hs ; then stage = (ret1 == nil ? 4 : stage), parsed = ret0
//@   ensures   err == nil <==> stage == 4
//@   ensures   err == nil ==> hwm == parsed
//@   ensures   err != nil ==> hwm == 0
//@   nopanic

// PosMap: on success the map is usable (litefs.Store.streamBackup assigns into it).
//@ func (c *BackupClient) PosMap [C14]
//@   requires  clientWF(c) && ctx != nil
//@   ghost bodyClosed bool = false
//@   ghost got bool = false
//@   on call BackupClient.doRequest ; then got = (ret1 == nil)
//@   on call io.ReadCloser.Close assert got && !bodyClosed ; then bodyClosed = true
//@   on return assert got <==> bodyClosed
// FINDING (kept): encoding/json sets a map to nil for the document `null`, so a nil map can be returned with a nil error;
// streamBackup then panics on `posMap[name] = newPos` (assignment to entry in nil map).
//@   ensures   ret1 == nil ==> ret0 != nil
//@   nopanic

//@ func (c *BackupClient) FetchSnapshot [C14]
//@   requires  clientWF(c) && ctx != nil
//@   ensures   ret1 == nil ==> ret0 != nil
//@   nopanic
