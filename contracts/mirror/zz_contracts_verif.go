//go:build verif

// Contracts for package litefs, checked by /verif (govc). This file contains no
// code: only structured `//@` comments, keyed by function name and loop ordinal.
// It is compiled only under the build tag `verif` and is otherwise invisible.
package litefs

// ===========================================================================
// rwmutex.go — C12 (and C10/C11 through callers)
//
// Abstract view of one RWMutex: the ghost finite set S of guards that hold it
// shared; sharedN is its cardinality; excl is the exclusive holder or nil.
// S is coupled to the guards by a store hook on RWMutexGuard.state, so
// "g in S <=> g.state == Shared" holds by construction for every guard of rw.

//@ ghost field RWMutex.S fset
//@ on store RWMutexGuard.state then self.rw.S = (newval == RWMutexStateShared ? ins(self.rw.S, self) : del(self.rw.S, self))

//@ pred wfMutex(rw *RWMutex) = rw != nil && rw.sharedN == card(rw.S) && rw.sharedN >= 0 &&
//@      (rw.excl != nil ==> rw.sharedN == 0 && rw.excl.rw == rw && rw.excl.state == RWMutexStateExclusive)

//@ pred wfGuard(g *RWMutexGuard) = g != nil && g.rw != nil &&
//@      (g.state == RWMutexStateUnlocked || g.state == RWMutexStateShared || g.state == RWMutexStateExclusive) &&
//@      (g.state == RWMutexStateExclusive <==> g.rw.excl == g) &&
//@      (g.state == RWMutexStateShared <==> mem(g.rw.S, g))

// POSIX byte-range lock rules between distinct owners, over the abstract view:
// an exclusive lock is allowed iff no other owner holds the lock in any mode;
// a shared lock is allowed iff no other owner holds it exclusively.
//@ pred otherHolder(g *RWMutexGuard) = (g.rw.excl != nil && g.rw.excl != g) ||
//@      (exists h *RWMutexGuard :: h != g && mem(g.rw.S, h))
//@ pred otherExclusive(g *RWMutexGuard) = g.rw.excl != nil && g.rw.excl != g

//@ func (g *RWMutexGuard) tryLock [C12,C11,C10]
//@   requires  wfGuard(g) && wfMutex(g.rw)
//@   modifies  g.state, g.rw.sharedN, g.rw.excl, g.rw.S
//@   ensures   result == !old(otherHolder(g))
//@   ensures   result ==> g.state == RWMutexStateExclusive && g.rw.excl == g && g.rw.sharedN == 0
//@   ensures   !result ==> unchanged(g.state, g.rw.sharedN, g.rw.excl, g.rw.S)
//@   ensures   wfGuard(g) && wfMutex(g.rw)
//@   ensures   forall h *RWMutexGuard :: h != g && h.rw == g.rw && old(wfGuard(h)) ==> wfGuard(h)
//@   nopanic

//@ func (g *RWMutexGuard) tryRLock [C12,C11,C10]
//@   requires  wfGuard(g) && wfMutex(g.rw)
//@   modifies  g.state, g.rw.sharedN, g.rw.excl, g.rw.S
//@   ensures   result == !old(otherExclusive(g))
//@   ensures   result ==> g.state == RWMutexStateShared && g.rw.excl == nil && g.rw.sharedN >= 1
//@   ensures   !result ==> unchanged(g.state, g.rw.sharedN, g.rw.excl, g.rw.S)
//@   ensures   wfGuard(g) && wfMutex(g.rw)
//@   ensures   forall h *RWMutexGuard :: h != g && h.rw == g.rw && old(wfGuard(h)) ==> wfGuard(h)
//@   nopanic

//@ func (g *RWMutexGuard) unlock [C12,C11,C10]
//@   requires  wfGuard(g) && wfMutex(g.rw)
//@   modifies  g.state, g.rw.sharedN, g.rw.excl, g.rw.S
//@   ensures   g.state == RWMutexStateUnlocked
//@   ensures   old(g.state) == RWMutexStateUnlocked ==> unchanged(g.rw.sharedN, g.rw.excl, g.rw.S)
//@   ensures   old(g.state) == RWMutexStateExclusive ==> g.rw.excl == nil && g.rw.sharedN == 0
//@   ensures   old(g.state) == RWMutexStateShared ==> g.rw.sharedN == old(g.rw.sharedN) - 1 && g.rw.excl == nil
//@   ensures   wfGuard(g) && wfMutex(g.rw)
//@   ensures   forall h *RWMutexGuard :: h != g && h.rw == g.rw && old(wfGuard(h)) ==> wfGuard(h)
//@   nopanic

//@ func (rw *RWMutex) state [C12]
//@   requires  rw != nil
//@   pure
//@   ensures   (rw.excl != nil ==> result == RWMutexStateExclusive) &&
//@             (rw.excl == nil && rw.sharedN > 0 ==> result == RWMutexStateShared) &&
//@             (rw.excl == nil && rw.sharedN <= 0 ==> result == RWMutexStateUnlocked)
//@   nopanic

// The state-change callback is assumed not to touch lock state (A-CB). No
// non-test code in the repository sets it.
//@ func field.RWMutex.OnLockStateChange
//@   pure

//@ func (g *RWMutexGuard) TryLock [C12,C11,C10]
//@   requires  wfGuard(g) && wfMutex(g.rw)
//@   ghost held bool = false
//@   on call sync.Mutex.Lock assert !held ; then held = true
//@   on call sync.Mutex.Unlock assert held ; then held = false
//@   on call RWMutexGuard.tryLock assert held
//@   on call RWMutex.state assert held
//@   on call field.RWMutex.OnLockStateChange assert !held && arg0 != arg1
//@   modifies  g.state, g.rw.sharedN, g.rw.excl, g.rw.S
//@   ensures   result == !old(otherHolder(g))
//@   ensures   result ==> g.state == RWMutexStateExclusive && g.rw.excl == g && g.rw.sharedN == 0
//@   ensures   !result ==> unchanged(g.state, g.rw.sharedN, g.rw.excl, g.rw.S)
//@   ensures   wfGuard(g) && wfMutex(g.rw) && !held
//@   proves    forall h *RWMutexGuard :: h != g && h.rw == g.rw && old(wfGuard(h)) ==> wfGuard(h)
//@   nopanic

//@ func (g *RWMutexGuard) TryRLock [C12,C11,C10]
//@   requires  wfGuard(g) && wfMutex(g.rw)
//@   ghost held bool = false
//@   on call sync.Mutex.Lock assert !held ; then held = true
//@   on call sync.Mutex.Unlock assert held ; then held = false
//@   on call RWMutexGuard.tryRLock assert held
//@   on call RWMutex.state assert held
//@   on call field.RWMutex.OnLockStateChange assert !held && arg0 != arg1
//@   modifies  g.state, g.rw.sharedN, g.rw.excl, g.rw.S
//@   ensures   result == !old(otherExclusive(g))
//@   ensures   result ==> g.state == RWMutexStateShared && g.rw.excl == nil && g.rw.sharedN >= 1
//@   ensures   !result ==> unchanged(g.state, g.rw.sharedN, g.rw.excl, g.rw.S)
//@   ensures   wfGuard(g) && wfMutex(g.rw) && !held
//@   proves    forall h *RWMutexGuard :: h != g && h.rw == g.rw && old(wfGuard(h)) ==> wfGuard(h)
//@   nopanic

//@ func (g *RWMutexGuard) Unlock [C12,C11,C10]
//@   requires  wfGuard(g) && wfMutex(g.rw)
//@   ghost held bool = false
//@   on call sync.Mutex.Lock assert !held ; then held = true
//@   on call sync.Mutex.Unlock assert held ; then held = false
//@   on call RWMutexGuard.unlock assert held
//@   on call RWMutex.state assert held
//@   on call field.RWMutex.OnLockStateChange assert !held && arg0 != arg1
//@   modifies  g.state, g.rw.sharedN, g.rw.excl, g.rw.S
//@   ensures   g.state == RWMutexStateUnlocked
//@   ensures   old(g.state) == RWMutexStateUnlocked ==> unchanged(g.rw.sharedN, g.rw.excl, g.rw.S)
//@   ensures   old(g.state) == RWMutexStateExclusive ==> g.rw.excl == nil && g.rw.sharedN == 0
//@   ensures   old(g.state) == RWMutexStateShared ==> g.rw.sharedN == old(g.rw.sharedN) - 1 && g.rw.excl == nil
//@   ensures   wfGuard(g) && wfMutex(g.rw) && !held
//@   proves    forall h *RWMutexGuard :: h != g && h.rw == g.rw && old(wfGuard(h)) ==> wfGuard(h)
//@   nopanic

// Queries answer exactly what the corresponding attempt would, and change nothing.
//@ func (g *RWMutexGuard) CanLock [C12,C11]
//@   requires  wfGuard(g) && wfMutex(g.rw)
//@   ghost held bool = false
//@   on call sync.Mutex.Lock assert !held ; then held = true
//@   on call sync.Mutex.Unlock assert held ; then held = false
//@   on call RWMutex.state assert held
//@   modifies
//@   ensures   canLock == !otherHolder(g)
//@   ensures   (g.rw.excl != nil ==> mutexState == RWMutexStateExclusive) &&
//@             (g.rw.excl == nil && g.rw.sharedN > 0 ==> mutexState == RWMutexStateShared) &&
//@             (g.rw.excl == nil && g.rw.sharedN == 0 ==> mutexState == RWMutexStateUnlocked)
//@   ensures   !held
//@   nopanic

//@ func (g *RWMutexGuard) CanRLock [C12,C11]
//@   requires  wfGuard(g) && wfMutex(g.rw)
//@   ghost held bool = false
//@   on call sync.Mutex.Lock assert !held ; then held = true
//@   on call sync.Mutex.Unlock assert held ; then held = false
//@   modifies
//@   ensures   result == !otherExclusive(g)
//@   ensures   !held
//@   nopanic

//@ func (g *RWMutexGuard) State [C12]
//@   requires  g != nil && g.rw != nil
//@   modifies
//@   ensures   result == g.state
//@   nopanic

//@ func (rw *RWMutex) State [C12]
//@   requires  rw != nil
//@   modifies
//@   ensures   (rw.excl != nil ==> result == RWMutexStateExclusive) &&
//@             (rw.excl == nil && rw.sharedN > 0 ==> result == RWMutexStateShared) &&
//@             (rw.excl == nil && rw.sharedN <= 0 ==> result == RWMutexStateUnlocked)
//@   nopanic

//@ func (rw *RWMutex) Guard [C12,C11]
//@   inline
//@   modifies
//@   ensures   result.rw == rw && result.state == RWMutexStateUnlocked
//@   nopanic

// Blocking variants (partial correctness): nil is returned only after an
// attempt succeeded; every failed attempt leaves the lock state unchanged.
//@ func (g *RWMutexGuard) Lock [C12]
//@   requires  wfGuard(g) && wfMutex(g.rw) && ctx != nil
//@   loop 1 invariant wfGuard(g) && wfMutex(g.rw) && unchanged(g.state, g.rw.sharedN, g.rw.excl, g.rw.S)
//@   ensures   err == nil ==> g.state == RWMutexStateExclusive && g.rw.excl == g
//@   ensures   err != nil ==> unchanged(g.state, g.rw.sharedN, g.rw.excl, g.rw.S)
//@   ensures   wfGuard(g) && wfMutex(g.rw)
//@   nopanic

//@ func (g *RWMutexGuard) RLock [C12]
//@   requires  wfGuard(g) && wfMutex(g.rw) && ctx != nil
//@   loop 1 invariant wfGuard(g) && wfMutex(g.rw) && unchanged(g.state, g.rw.sharedN, g.rw.excl, g.rw.S)
//@   ensures   err == nil ==> g.state == RWMutexStateShared
//@   ensures   err != nil ==> unchanged(g.state, g.rw.sharedN, g.rw.excl, g.rw.S)
//@   ensures   wfGuard(g) && wfMutex(g.rw)
//@   nopanic

// ===========================================================================
// litefs.go — lock byte ranges and guard sets (C11)

//@ pred sliceHas(a []LockType, t LockType) = exists i int :: 0 <= i && i < len(a) && a[i] == t
//@ pred inRange(start uint64, end uint64, t LockType) = start <= uint64(t) && uint64(t) <= end
//@ pred isDBLock(t LockType) = t == LockTypePending || t == LockTypeReserved || t == LockTypeShared
//@ pred isSHMLock(t LockType) = t == LockTypeWrite || t == LockTypeCkpt || t == LockTypeRecover ||
//@      t == LockTypeRead0 || t == LockTypeRead1 || t == LockTypeRead2 || t == LockTypeRead3 || t == LockTypeRead4 || t == LockTypeDMS

//@ func ContainsLockType [C11,C03]
//@   loop 1 invariant -1 <= rangeindex && rangeindex < len(a) && (forall j int :: 0 <= j && j <= rangeindex ==> a[j] != typ)
//@   modifies
//@   ensures   result == sliceHas(a, typ)
//@   nopanic

// The parsers return exactly the lock types whose byte lies in [start,end] (for all 2^128 ranges), never HALT.
//@ func ParseDatabaseLockRange [C11]
//@   ensures   forall i int :: 0 <= i && i < len(result) ==> isDBLock(result[i]) && inRange(start, end, result[i])
//@   ensures   inRange(start, end, LockTypePending) ==> sliceHas(result, LockTypePending)
//@   ensures   inRange(start, end, LockTypeReserved) ==> sliceHas(result, LockTypeReserved)
//@   ensures   inRange(start, end, LockTypeShared) ==> sliceHas(result, LockTypeShared)
//@   ensures   len(result) <= 3
//@   nopanic

//@ func ParseSHMLockRange [C11]
//@   ensures   forall i int :: 0 <= i && i < len(result) ==> isSHMLock(result[i]) && inRange(start, end, result[i])
//@   ensures   inRange(start, end, LockTypeWrite) ==> sliceHas(result, LockTypeWrite)
//@   ensures   inRange(start, end, LockTypeCkpt) ==> sliceHas(result, LockTypeCkpt)
//@   ensures   inRange(start, end, LockTypeRecover) ==> sliceHas(result, LockTypeRecover)
//@   ensures   inRange(start, end, LockTypeRead0) ==> sliceHas(result, LockTypeRead0)
//@   ensures   inRange(start, end, LockTypeRead1) ==> sliceHas(result, LockTypeRead1)
//@   ensures   inRange(start, end, LockTypeRead2) ==> sliceHas(result, LockTypeRead2)
//@   ensures   inRange(start, end, LockTypeRead3) ==> sliceHas(result, LockTypeRead3)
//@   ensures   inRange(start, end, LockTypeRead4) ==> sliceHas(result, LockTypeRead4)
//@   ensures   inRange(start, end, LockTypeDMS) ==> sliceHas(result, LockTypeDMS)
//@   ensures   len(result) <= 9
//@   nopanic

//@ pred gUnlocked(g *RWMutexGuard) = g.state == RWMutexStateUnlocked
//@ pred gShared(g *RWMutexGuard) = g.state == RWMutexStateShared && mem(g.rw.S, g)
//@ pred gExcl(g *RWMutexGuard) = g.state == RWMutexStateExclusive && g.rw.excl == g

// Ghost numbering of the twelve locks of a database (a proof device: it only says the twelve
// by-value RWMutex fields are pairwise different objects, with 12 facts instead of 66).
//@ spec func lockIdx(rw *RWMutex) int
//@ pred locksNumbered(db *DB) = lockIdx(addr(db.pendingLock)) == 0 && lockIdx(addr(db.sharedLock)) == 1 && lockIdx(addr(db.reservedLock)) == 2 &&
//@      lockIdx(addr(db.writeLock)) == 3 && lockIdx(addr(db.ckptLock)) == 4 && lockIdx(addr(db.recoverLock)) == 5 &&
//@      lockIdx(addr(db.read0Lock)) == 6 && lockIdx(addr(db.read1Lock)) == 7 && lockIdx(addr(db.read2Lock)) == 8 &&
//@      lockIdx(addr(db.read3Lock)) == 9 && lockIdx(addr(db.read4Lock)) == 10 && lockIdx(addr(db.dmsLock)) == 11

// All twelve advisory locks of a database are well formed.
//@ pred locksWF(db *DB) = locksNumbered(db) && wfMutex(addr(db.pendingLock)) && wfMutex(addr(db.sharedLock)) && wfMutex(addr(db.reservedLock)) &&
//@      wfMutex(addr(db.writeLock)) && wfMutex(addr(db.ckptLock)) && wfMutex(addr(db.recoverLock)) &&
//@      wfMutex(addr(db.read0Lock)) && wfMutex(addr(db.read1Lock)) && wfMutex(addr(db.read2Lock)) &&
//@      wfMutex(addr(db.read3Lock)) && wfMutex(addr(db.read4Lock)) && wfMutex(addr(db.dmsLock))

// Every guard of a guard set is well formed and bound to the matching lock of db.
//@ pred guardSetWF(gs *GuardSet, db *DB) = gs != nil &&
//@      wfGuard(addr(gs.pending)) && gs.pending.rw == addr(db.pendingLock) &&
//@      wfGuard(addr(gs.shared)) && gs.shared.rw == addr(db.sharedLock) &&
//@      wfGuard(addr(gs.reserved)) && gs.reserved.rw == addr(db.reservedLock) &&
//@      wfGuard(addr(gs.write)) && gs.write.rw == addr(db.writeLock) &&
//@      wfGuard(addr(gs.ckpt)) && gs.ckpt.rw == addr(db.ckptLock) &&
//@      wfGuard(addr(gs.recover)) && gs.recover.rw == addr(db.recoverLock) &&
//@      wfGuard(addr(gs.read0)) && gs.read0.rw == addr(db.read0Lock) &&
//@      wfGuard(addr(gs.read1)) && gs.read1.rw == addr(db.read1Lock) &&
//@      wfGuard(addr(gs.read2)) && gs.read2.rw == addr(db.read2Lock) &&
//@      wfGuard(addr(gs.read3)) && gs.read3.rw == addr(db.read3Lock) &&
//@      wfGuard(addr(gs.read4)) && gs.read4.rw == addr(db.read4Lock) &&
//@      wfGuard(addr(gs.dms)) && gs.dms.rw == addr(db.dmsLock)

// The full write lock: what a SQLite writer + checkpointer would hold in the database's journal mode.
//@ pred holdsWriteLockRollback(gs *GuardSet) = gExcl(addr(gs.pending)) && gExcl(addr(gs.shared)) && gExcl(addr(gs.reserved))
//@ pred holdsWriteLockWAL(gs *GuardSet) = gShared(addr(gs.shared)) && gShared(addr(gs.dms)) &&
//@      gExcl(addr(gs.write)) && gExcl(addr(gs.ckpt)) && gExcl(addr(gs.recover)) &&
//@      gExcl(addr(gs.read0)) && gExcl(addr(gs.read1)) && gExcl(addr(gs.read2)) && gExcl(addr(gs.read3)) && gExcl(addr(gs.read4))

//@ pred dbModeIs(db *DB, m DBMode) = typeis(aload(db.mode), DBMode) && as(aload(db.mode), DBMode) == m

//@ func (db *DB) newGuardSet [C11]
//@   inline
//@   requires  db != nil && locksWF(db)
//@   modifies
//@   ensures   fresh(result) && guardSetWF(result, db) && result.owner == owner && locksWF(db)
//@   ensures   gUnlocked(addr(result.pending)) && gUnlocked(addr(result.shared)) && gUnlocked(addr(result.reserved)) &&
//@             gUnlocked(addr(result.write)) && gUnlocked(addr(result.ckpt)) && gUnlocked(addr(result.recover)) &&
//@             gUnlocked(addr(result.read0)) && gUnlocked(addr(result.read1)) && gUnlocked(addr(result.read2)) &&
//@             gUnlocked(addr(result.read3)) && gUnlocked(addr(result.read4)) && gUnlocked(addr(result.dms))
//@   nopanic

//@ pred mutexUnchanged(rw *RWMutex) = unchanged(rw.sharedN, rw.excl)
//@ pred locksUnchanged(db *DB) = mutexUnchanged(addr(db.pendingLock)) && mutexUnchanged(addr(db.sharedLock)) && mutexUnchanged(addr(db.reservedLock)) &&
//@      mutexUnchanged(addr(db.writeLock)) && mutexUnchanged(addr(db.ckptLock)) && mutexUnchanged(addr(db.recoverLock)) &&
//@      mutexUnchanged(addr(db.read0Lock)) && mutexUnchanged(addr(db.read1Lock)) && mutexUnchanged(addr(db.read2Lock)) &&
//@      mutexUnchanged(addr(db.read3Lock)) && mutexUnchanged(addr(db.read4Lock)) && mutexUnchanged(addr(db.dmsLock))

// All-or-nothing acquisition of the full write lock: on success the returned
// fresh guard set holds exactly the locks a SQLite writer plus checkpointer
// would hold in the database's journal mode; on failure every lock counter
// and exclusive holder is as before (the deferred Unlock released everything).
//@ func (db *DB) TryAcquireWriteLock [C11,C13,C10]
//@   requires  db != nil && locksWF(db) && typeis(aload(db.mode), DBMode)
//@   thorough  call/litefs.GuardSet.Unlock/pre
//@   ensures   locksWF(db) [C11,C13,C10,thorough]
//@   ensures   ret != nil ==> fresh(ret)
//@   ensures   ret != nil ==> guardSetWF(ret, db) [C11,C13,C10,thorough]
//@   ghost releasedAll bool = false
//@   on call GuardSet.Unlock assert ret == nil ; then releasedAll = true
//@   on return assert ret == nil ==> releasedAll
//@   ensures   ret != nil && dbModeIs(db, DBModeRollback) ==> holdsWriteLockRollback(ret)
//@   ensures   ret != nil && !dbModeIs(db, DBModeRollback) ==> holdsWriteLockWAL(ret)
//@   nopanic

// Guard-set level operations. A guard is "bound" when it and its mutex are well formed and the mutex carries ghost index k.
//@ pred gBound(g *RWMutexGuard, k int) = wfGuard(g) && wfMutex(g.rw) && lockIdx(g.rw) == k
//@ pred gsDatabaseBound(s *GuardSet) = s != nil && gBound(addr(s.pending), 0) && gBound(addr(s.shared), 1) && gBound(addr(s.reserved), 2)
//@ pred gsSHMBound(s *GuardSet) = s != nil && gBound(addr(s.write), 3) && gBound(addr(s.ckpt), 4) && gBound(addr(s.recover), 5) &&
//@      gBound(addr(s.read0), 6) && gBound(addr(s.read1), 7) && gBound(addr(s.read2), 8) && gBound(addr(s.read3), 9) &&
//@      gBound(addr(s.read4), 10) && gBound(addr(s.dms), 11)
// Effect of releasing guard g on its mutex, as a function of the guard's previous state.
//@ pred released(g *RWMutexGuard) = g.state == RWMutexStateUnlocked &&
//@      (old(g.state) == RWMutexStateUnlocked ==> unchanged(g.rw.sharedN, g.rw.excl)) &&
//@      (old(g.state) == RWMutexStateExclusive ==> g.rw.excl == nil && g.rw.sharedN == 0) &&
//@      (old(g.state) == RWMutexStateShared ==> g.rw.sharedN == old(g.rw.sharedN) - 1 && g.rw.excl == nil)

//@ func (s *GuardSet) UnlockDatabase [C11,C10]
//@   requires  gsDatabaseBound(s)
//@   modifies  s.pending.state, s.pending.rw.sharedN, s.pending.rw.excl, s.pending.rw.S,
//@             s.shared.state, s.shared.rw.sharedN, s.shared.rw.excl, s.shared.rw.S,
//@             s.reserved.state, s.reserved.rw.sharedN, s.reserved.rw.excl, s.reserved.rw.S
//@   ensures   gsDatabaseBound(s)
//@   ensures   released(addr(s.pending)) && released(addr(s.shared)) && released(addr(s.reserved))
//@   nopanic

//@ func (s *GuardSet) UnlockSHM [C11,C10]
//@   requires  gsSHMBound(s)
//@   modifies  s.write.state, s.write.rw.sharedN, s.write.rw.excl, s.write.rw.S,
//@             s.ckpt.state, s.ckpt.rw.sharedN, s.ckpt.rw.excl, s.ckpt.rw.S,
//@             s.recover.state, s.recover.rw.sharedN, s.recover.rw.excl, s.recover.rw.S,
//@             s.read0.state, s.read0.rw.sharedN, s.read0.rw.excl, s.read0.rw.S,
//@             s.read1.state, s.read1.rw.sharedN, s.read1.rw.excl, s.read1.rw.S,
//@             s.read2.state, s.read2.rw.sharedN, s.read2.rw.excl, s.read2.rw.S,
//@             s.read3.state, s.read3.rw.sharedN, s.read3.rw.excl, s.read3.rw.S,
//@             s.read4.state, s.read4.rw.sharedN, s.read4.rw.excl, s.read4.rw.S,
//@             s.dms.state, s.dms.rw.sharedN, s.dms.rw.excl, s.dms.rw.S
//@   ensures   gsSHMBound(s)
//@   ensures   released(addr(s.write)) && released(addr(s.ckpt)) && released(addr(s.recover)) &&
//@             released(addr(s.read0)) && released(addr(s.read1)) && released(addr(s.read2)) &&
//@             released(addr(s.read3)) && released(addr(s.read4)) && released(addr(s.dms))
//@   nopanic

//@ func (s *GuardSet) Unlock [C11,C10,C13]
//@   requires  gsDatabaseBound(s) && gsSHMBound(s)
//@   modifies  s.pending.state, s.pending.rw.sharedN, s.pending.rw.excl, s.pending.rw.S,
//@             s.shared.state, s.shared.rw.sharedN, s.shared.rw.excl, s.shared.rw.S,
//@             s.reserved.state, s.reserved.rw.sharedN, s.reserved.rw.excl, s.reserved.rw.S,
//@             s.write.state, s.write.rw.sharedN, s.write.rw.excl, s.write.rw.S,
//@             s.ckpt.state, s.ckpt.rw.sharedN, s.ckpt.rw.excl, s.ckpt.rw.S,
//@             s.recover.state, s.recover.rw.sharedN, s.recover.rw.excl, s.recover.rw.S,
//@             s.read0.state, s.read0.rw.sharedN, s.read0.rw.excl, s.read0.rw.S,
//@             s.read1.state, s.read1.rw.sharedN, s.read1.rw.excl, s.read1.rw.S,
//@             s.read2.state, s.read2.rw.sharedN, s.read2.rw.excl, s.read2.rw.S,
//@             s.read3.state, s.read3.rw.sharedN, s.read3.rw.excl, s.read3.rw.S,
//@             s.read4.state, s.read4.rw.sharedN, s.read4.rw.excl, s.read4.rw.S,
//@             s.dms.state, s.dms.rw.sharedN, s.dms.rw.excl, s.dms.rw.S
//@   ensures   gsDatabaseBound(s) && gsSHMBound(s)
//@   ensures   released(addr(s.pending)) && released(addr(s.shared)) && released(addr(s.reserved)) &&
//@             released(addr(s.write)) && released(addr(s.ckpt)) && released(addr(s.recover)) &&
//@             released(addr(s.read0)) && released(addr(s.read1)) && released(addr(s.read2)) &&
//@             released(addr(s.read3)) && released(addr(s.read4)) && released(addr(s.dms))
//@   nopanic

// ===========================================================================
// litefs.go — WAL reader and checksums on arbitrary bytes (C17, C03, C05)

//@ func WALChecksum [C17,C03,C05]
//@   requires  bo != nil && len(b) % 8 == 0
//@   loop 1 invariant 0 <= i && i <= len(b) && i % 8 == 0
//@   loop 1 decreases len(b) - i
//@   modifies
//@   nopanic

//@ func JournalChecksum [C17,C05]
//@   loop 1 invariant i < len(data)
//@   loop 1 decreases i
//@   modifies
//@   nopanic

// A WAL reader is usable for frames once a header was accepted: a byte order is known and the page
// size is one WALChecksum accepts (a multiple of 8).
//@ pred walReaderReady(r *WALReader) = r != nil && r.r != nil && r.bo != nil && r.pageSize % 8 == 0

//@ func (r *WALReader) ReadHeader [C17,C03,C05]
//@   requires  r != nil && r.r != nil
//@   modifies  fields(r)
//@   ensures   r.r == old(r.r)
//@   ensures   err == nil ==> walReaderReady(r)
//@   ensures   r.frameN == old(r.frameN)
//@   nopanic

// The cumulative checksum of a frame is chained from the reader's running pair, over the first 8 header bytes and then the
// page data, both in the byte order the WAL header's magic selected (r.bo) - SQLite's rule; a frame is accepted only after
// both folds, and the byte order never changes while frames are read.
//@ func (r *WALReader) ReadFrame [C17,C03,C05]
//@   requires  walReaderReady(r)
//@   modifies  fields(r), contents(data)
//@   ghost nck int = 0
//@   on call WALChecksum assert arg0 == old(r.bo) && arg1 == r.chksum1 && arg2 == r.chksum2 && (nck == 0 ? len(arg3) == 8 : nck == 1 && len(arg3) == len(data)) ; then nck = nck + 1
//@   proves    err == nil ==> nck == 2
//@   ensures   r.bo == old(r.bo) && r.salt1 == old(r.salt1) && r.salt2 == old(r.salt2)
//@   ensures   walReaderReady(r) && r.pageSize == old(r.pageSize)
//@   ensures   err == nil ==> r.frameN == old(r.frameN) + 1
//@   ensures   err != nil ==> r.frameN == old(r.frameN) && pgno == 0 && commit == 0
//@   nopanic

//@ func (r *WALReader) Offset [C17,C03]
//@   requires  r != nil
//@   modifies
//@   nopanic

//@ func (r *WALReader) PageSize [C17]
//@   requires  r != nil
//@   modifies
//@   ensures   result == r.pageSize
//@   nopanic

// ===========================================================================
// db.go — journal reader on arbitrary bytes (C17, C05)
//
// Nothing is required of the page size handed to the reader (callers pass
// db.pageSize, which is zero for an empty database file) nor of any byte of
// the journal. File offsets are assumed to stay below 2^62 (A-FS).

//@ func journalHeaderOffset [C17,C05]
//@   requires  offset == 0 || sectorSize != 0
//@   modifies
//@   ensures   offset == 0 ==> result == 0
//@   ensures   offset != 0 ==> result == ((offset-1)/sectorSize + 1) * sectorSize
//@   nopanic

//@ func isByteSliceZero [C17]
//@   loop 1 invariant -1 <= rangeindex && rangeindex < len(b)
//@   modifies
//@   nopanic

//@ pred jrOK(r *JournalReader) = r != nil && (r.offset == 0 || r.sectorSize != 0) && (r.isValid ==> r.pageSize != 0 && r.sectorSize != 0)

// Next: a segment is accepted only with a usable sector size and page size (so that the segment loop
// of rollbackJournal makes progress and no division by zero can happen), and a frame buffer of
// pageSize+8 bytes is in place for ReadFrame.
//@ func (r *JournalReader) Next [C17,C05]
//@   requires  jrOK(r) && r.pageSize <= 65536
// SQLite's rule for the end of the journal: a segment whose header was read in full, is not zeroed, carries the magic
// (after the first segment) and a non-zero sector size (first segment) is refused with io.EOF only if the file does not
// even hold that whole header sector -- a journal of exactly one sector is a valid (empty) segment.
//@   ghost rd int = 0
//@   ghost zero bool = false
//@   ghost sec uint32 = 0
//@   ghost magic bool = true
//@   on call internal.ReadFullAt ; then rd = (ret1 == nil ? 1 : 2)
//@   on call isByteSliceZero ; then zero = ret0, sec = be32(arg0, 20)
//@   on call bytes.Equal ; then magic = ret0
//@   proves    err == io.EOF && old(r.pageSize) != 0 && rd == 1 && !zero && (r.offset == 0 ? sec != 0 : magic) ==> r.offset + int64(r.sectorSize) > fileSize(r.fi)
// a header that is refused at sight (short read, all zero, or missing magic after the first segment) leaves the fields of
// the last ACCEPTED header untouched: rollbackJournal restores the size (r.commit) of the last valid header
//@   ensures   err != nil && old(r.pageSize) == 0 ==> unchanged(r.commit, r.nonce, r.frameN)
//@   proves    err == io.EOF && (rd == 2 || (rd == 1 && zero) || (rd == 1 && r.offset != 0 && !magic)) ==> unchanged(r.commit, r.nonce, r.frameN)
//@   ensures   jrOK(r) && r.pageSize == old(r.pageSize)
//@   ensures   err == nil ==> r.sectorSize != 0 && r.pageSize != 0 && len(r.frame) == int(r.pageSize) + 8
//@   ensures   err == nil ==> r.offset == old(r.offset) + int64(r.sectorSize) || old(r.offset) != 0
//@   ensures   old(r.fi) != nil ==> r.fi == old(r.fi)
//@   nopanic

//@ func (r *JournalReader) ReadFrame [C17,C05]
//@   requires  jrOK(r) && r.sectorSize != 0 && (r.frameN == 0 || len(r.frame) >= 8)
//@   ensures   jrOK(r) && r.fi == old(r.fi) && r.sectorSize == old(r.sectorSize) && r.pageSize == old(r.pageSize) && r.isValid == old(r.isValid) && r.commit == old(r.commit)
//@   ensures   unchanged(len(r.frame))
//@   ensures   err == nil ==> len(data) == len(r.frame) - 8
//@   nopanic

//@ func (r *JournalReader) DatabaseSize [C17]
//@   requires  r != nil
//@   modifies
//@   nopanic

//@ func (r *JournalReader) IsValid [C17]
//@   requires  r != nil
//@   modifies
//@   ensures   result == r.isValid
//@   nopanic

// ===========================================================================
// Interface contracts. These are behavioural assumptions about every implementation of the interface
// (listed as assumptions in the evidence): the injectable OS layer, the kernel-cache invalidator and the
// replication client do not touch the in-memory state of DB/Store objects.
//@ func litefs.Invalidator.*
//@   pure
//@ func litefs.OS.*
//@   pure
//@ func litefs.OS.ReadDir
//@   pure
//@   ensures forall i int :: 0 <= i && i < len(ret0) ==> ret0[i] != nil
//@ func litefs.OS.OpenFile
//@   pure
//@   ensures ret1 == nil ==> ret0 != nil
//@ func litefs.OS.Open
//@   pure
//@   ensures ret1 == nil ==> ret0 != nil
//@ func litefs.OS.Create
//@   pure
//@   ensures ret1 == nil ==> ret0 != nil
//@ func litefs.Client.*
//@   pure

// ===========================================================================
// db.go — database object invariant and page checksum cache (C04; used by C02, C03, C05, C17)

// Structural well-formedness of a DB object (what NewDB establishes and every method preserves).
//@ pred dbWF(db *DB) = db != nil && db.os != nil && db.store != nil && db.pageSize <= 65536 &&
//@      len(db.chksums.pages) <= 0xffffffff && len(db.chksums.blocks) <= 0xffffffff && chkArraysDisjoint(db) &&
//@      typeis(aload(db.mode), DBMode) && typeis(aload(db.pos), ltx.Pos)

// The per-page and per-block checksum slices never share a backing array.
//@ pred chkArraysDisjoint(db *DB) = cap(db.chksums.blocks) == 0 || cap(db.chksums.pages) == 0 || !sameArray(db.chksums.pages, db.chksums.blocks)

//@ func pageChksumBlock [C04,C03,C02]
//@   requires  pgno > 0
//@   modifies
//@   ensures   result == (pgno - 1) / 256
//@   nopanic

//@ func (db *DB) databasePageChecksum [C04,C03,C02]
//@   requires  db != nil && pgno > 0 && len(db.chksums.pages) <= 0xffffffff
//@   modifies
//@   ensures   int(pgno) - 1 < len(db.chksums.pages) ==> result == db.chksums.pages[int(pgno) - 1]
//@   ensures   int(pgno) - 1 >= len(db.chksums.pages) ==> result == 0
//@   nopanic

// setDatabasePageChecksum: the page's slot holds the new value (zero for the lock page), the cached
// block aggregate that covers the page is cleared, every other slot and block is untouched.
//@ func (db *DB) setDatabasePageChecksum [C04,C03,C02]
//@   requires  db != nil && pgno > 0 && db.pageSize != 0 && len(db.chksums.pages) <= 0xffffffff && len(db.chksums.blocks) <= 0xffffffff && chkArraysDisjoint(db)
//@   modifies  db.chksums.pages, contents(db.chksums.pages), contents(db.chksums.blocks)
//@   ensures   chkArraysDisjoint(db)
//@   ensures   len(db.chksums.pages) == (old(len(db.chksums.pages)) >= int(pgno) ? old(len(db.chksums.pages)) : int(pgno))
//@   ensures   db.chksums.pages[int(pgno) - 1] == (pgno == ltx.LockPgno(db.pageSize) ? 0 : chksum)
//@   ensures   forall i int :: 0 <= i && i < old(len(db.chksums.pages)) && i != int(pgno) - 1 ==> db.chksums.pages[i] == old(db.chksums.pages[i])
//@   ensures   forall i int :: old(len(db.chksums.pages)) <= i && i < int(pgno) - 1 ==> db.chksums.pages[i] == 0
//@   ensures   len(db.chksums.blocks) == old(len(db.chksums.blocks))
//@   ensures   int((pgno - 1) / 256) < len(db.chksums.blocks) ==> db.chksums.blocks[int((pgno - 1) / 256)] == 0
//@   ensures   forall b int :: 0 <= b && b < len(db.chksums.blocks) && b != int((pgno - 1) / 256) ==> db.chksums.blocks[b] == old(db.chksums.blocks[b])
//@   nopanic

// resetDatabasePageChecksumsAfter(commit): every slot at index >= commit is zero afterwards, slots below
// are untouched, the length is unchanged, and no cached block aggregate survives for a block it touched.
//@ func (db *DB) resetDatabasePageChecksumsAfter [C04,C02,C03]
//@   requires  db != nil && db.pageSize != 0 && len(db.chksums.pages) <= 0xffffffff && len(db.chksums.blocks) <= 0xffffffff && chkArraysDisjoint(db)
//@   loop 1 invariant commit <= i && len(db.chksums.pages) == old(len(db.chksums.pages)) && len(db.chksums.blocks) == old(len(db.chksums.blocks)) && chkArraysDisjoint(db) &&
//@          (forall k int :: int(commit) <= k && k < int(i) && k < len(db.chksums.pages) ==> db.chksums.pages[k] == 0) &&
//@          (forall k int :: 0 <= k && k < int(commit) && k < len(db.chksums.pages) ==> db.chksums.pages[k] == old(db.chksums.pages[k])) &&
//@          (forall b int :: 0 <= b && b < len(db.chksums.blocks) ==> db.chksums.blocks[b] == 0 || db.chksums.blocks[b] == old(db.chksums.blocks[b]))
//@   loop 1 modifies db.chksums.pages, contents(db.chksums.pages), contents(db.chksums.blocks)
//@   loop 1 decreases len(db.chksums.pages) - int(i)
//@   modifies  db.chksums.pages, contents(db.chksums.pages), contents(db.chksums.blocks)
//@   ensures   len(db.chksums.pages) == old(len(db.chksums.pages)) && len(db.chksums.blocks) == old(len(db.chksums.blocks)) && chkArraysDisjoint(db)
//@   ensures   forall k int :: int(commit) <= k && k < len(db.chksums.pages) ==> db.chksums.pages[k] == 0
//@   ensures   forall k int :: 0 <= k && k < int(commit) && k < len(db.chksums.pages) ==> db.chksums.pages[k] == old(db.chksums.pages[k])
//@   ensures   forall b int :: 0 <= b && b < len(db.chksums.blocks) ==> db.chksums.blocks[b] == 0 || db.chksums.blocks[b] == old(db.chksums.blocks[b])
//@   nopanic

// writeDatabasePage: exactly one page-aligned write of the page's bytes at (pgno-1)*pageSize, then the
// page's checksum slot is ChecksumPage(pgno, data) (zero for the lock page) and the covering block
// aggregate is cleared; on a replica-apply (invalidate) the kernel cache range is invalidated.
//@ func (db *DB) writeDatabasePage [C04,C01,C02,C05,C17]
//@   requires  dbWF(db) && db.pageSize != 0
//@   ghost wrote bool = false
//@   on call os.File.WriteAt assert !wrote && len(arg1) == int(db.pageSize) && arg2 == (int64(pgno) - 1) * int64(db.pageSize) ; then wrote = true
//@   on call DB.setDatabasePageChecksum assert wrote && arg1 == pgno
//@   on call Invalidator.InvalidateDBRange assert wrote && invalidate && arg1 == (int64(pgno) - 1) * int64(db.pageSize) && arg2 == int64(len(data))
//@   ensures   dbWF(db) && db.pageSize == old(db.pageSize)
//@   ensures   err == nil ==> wrote && pgno > 0 && len(data) == int(db.pageSize)
//@   ensures   err == nil ==> len(db.chksums.pages) >= int(pgno) && db.chksums.pages[int(pgno) - 1] == (pgno == ltx.LockPgno(db.pageSize) ? 0 : ltx.ChecksumPage(pgno, data))
//@   ensures   err == nil ==> (forall i int :: 0 <= i && i < old(len(db.chksums.pages)) && i != int(pgno) - 1 ==> db.chksums.pages[i] == old(db.chksums.pages[i]))
//@   nopanic

// truncateDatabase: the file is truncated to pageN*pageSize and fsynced before the checksum slots at and
// beyond pageN are cleared.
//@ func (db *DB) truncateDatabase [C04,C02,C05,C17]
//@   requires  dbWF(db) && db.pageSize != 0
//@   ghost stage int = 0
//@   on call os.File.Truncate assert stage == 0 && arg1 == int64(pageN) * int64(db.pageSize) ; then stage = 1
//@   on call os.File.Sync assert stage == 1 ; then stage = 2
//@   on call DB.resetDatabasePageChecksumsAfter assert stage == 2 && arg1 == pageN ; then stage = 3
//@   ensures   dbWF(db) && db.pageSize == old(db.pageSize) && len(db.chksums.pages) == old(len(db.chksums.pages))
//@   ensures   err == nil ==> stage == 3
//@   ensures   err == nil ==> (forall k int :: int(pageN) <= k && k < len(db.chksums.pages) ==> db.chksums.pages[k] == 0)
//@   ensures   err == nil ==> (forall k int :: 0 <= k && k < int(pageN) && k < len(db.chksums.pages) ==> db.chksums.pages[k] == old(db.chksums.pages[k]))
//@   nopanic

// ===========================================================================
// db.go — journal rollback and WAL scanning on arbitrary bytes (C17, C05)

//@ func (db *DB) rollbackJournalSegment [C17,C05]
//@   requires  dbWF(db) && db.pageSize != 0 && jrOK(r) && r.sectorSize != 0 && len(r.frame) >= 8
//@   loop 1 invariant dbWF(db) && db.pageSize == old(db.pageSize) && jrOK(r) && r.sectorSize != 0 && len(r.frame) >= 8 &&
//@          r.pageSize == old(r.pageSize) && r.isValid == old(r.isValid) && r.commit == old(r.commit) && r.sectorSize == old(r.sectorSize)
//@   on call DB.writeDatabasePage assert arg4 == true
//@   ensures   dbWF(db) && db.pageSize == old(db.pageSize) && jrOK(r) && r.pageSize == old(r.pageSize) && r.isValid == old(r.isValid) && r.commit == old(r.commit) && r.sectorSize == old(r.sectorSize)
//@   nopanic

// rollbackJournal: every accepted record is written back through writeDatabasePage; the size is restored
// to the header's page count iff a valid header was read; the database is fsynced before the journal is removed.
//@ func (db *DB) rollbackJournal [C17,C05]
//@   ensures   old(walKeysPositive(db)) ==> walKeysPositive(db)
//@   requires  dbWF(db)
//@   ghost synced bool = false
//@   ghost truncated bool = false
//@   loop 1 invariant dbWF(db) && db.pageSize == old(db.pageSize) && jrOK(r) && r.pageSize == db.pageSize && !synced && !truncated
//@   on call DB.truncateDatabase assert r.isValid && arg2 == r.commit && !synced ; then truncated = true
//@   on call os.File.Sync assert !synced && (r.isValid ==> truncated) ; then synced = (ret0 == nil)
//@   on call OS.Remove op "ROLLBACKJOURNAL" assert synced
//@   ensures   dbWF(db) && db.pageSize == old(db.pageSize)
//@   nopanic

// readWALPageOffsets: frames are read only after the header was accepted; the offsets map only ever
// receives entries at commit frames.
//@ func (db *DB) readWALPageOffsets [C17,C05,C03]
//@   requires  dbWF(db) && f != nil
//@   loop 1 invariant walReaderReady(r) && txOffsets != nil && offsets != nil
//@   nopanic

// ===========================================================================
// db.go — commit protocols (C02, C03, C05, C07, C09, C13, C15)
//
// Protocol automata: ghost variables updated at named calls. `w` records that Writeable() returned
// true (guard dominance, C07); `stage` records the durable-before-visible order (C05); data-flow
// assertions at the calls pin the LTX header, the position set and the checksum (C02, C09).

//@ spec func posOf(db *DB) ltx.Pos = as(aload(db.pos), ltx.Pos)

//@ func field.DB.Now
//@   pure

//@ func (db *DB) Writeable [C07]
//@   requires db != nil && db.store != nil
//@   pure

//@ func (db *DB) isJournalHeaderValid [C02]
//@   requires db != nil && db.os != nil
//@   pure

// invalidateJournal: in each of the three modes the journal is invalidated through the OS layer, the
// directory is fsynced, and only then the dirty page set is replaced by an empty one. Nothing else in memory changes.
//@ func (db *DB) invalidateJournal [C02,C05]
//@   requires  db != nil && db.os != nil
//@   modifies  db.dirtyPageSet
//@   proves    err == nil ==> fresh(db.dirtyPageSet)
//@   ensures   err == nil ==> db.dirtyPageSet != nil && (forall p uint32 :: !has(db.dirtyPageSet, p))
//@   ensures   err != nil ==> db.dirtyPageSet == old(db.dirtyPageSet)
//@   nopanic

//@ func (db *DB) CommitJournal [C02,C05,C07,C09,C13]
//@   requires  dbWF(db) && db.dirtyPageSet != nil
//@   ghost w bool = false
//@   ghost hdrValid bool = false
//@   ghost stage int = 0
//@   ghost post ltx.Checksum = 0
//@   on call DB.Writeable ; then w = ret0
//@   on call DB.isJournalHeaderValid assert w && stage == 0 ; then hdrValid = (ret0 && ret1 == nil)
//@   on call DB.invalidateJournal assert w && ((stage == 0 && (!hdrValid || db.pageSize == 0)) || stage == 9) ; then stage = (stage == 9 && ret0 == nil ? 10 : stage)
//@   on call OS.Create op "COMMITJOURNAL:LTX" assert w && hdrValid && db.pageSize != 0 && stage == 0 ; then stage = 1
//@   on call ltx.Encoder.EncodeHeader assert stage == 1 && arg1.MinTXID == old(posOf(db)).TXID + 1 && arg1.MaxTXID == arg1.MinTXID &&
//@        arg1.PreApplyChecksum == old(posOf(db)).PostApplyChecksum && arg1.PageSize == db.pageSize && arg1.Commit == commit ; then stage = (ret0 == nil ? 2 : stage)
//@   on call ltx.Encoder.EncodePage assert stage == 2
//@   on call DB.checksum assume arg1 <= 0xffffff00
//@   on call DB.checksum assert stage == 2 && arg1 == commit ; then stage = 3, post = ret0
//@   on call ltx.Encoder.SetPostApplyChecksum assert stage == 3 && arg1 == post ; then stage = 4
//@   on call ltx.Encoder.Close assert stage == 4 ; then stage = (ret0 == nil ? 5 : stage)
//@   on call os.File.Sync assert (stage == 5 && arg0 == ltxFile) || (stage == 8 && arg0 == dbFile) ; then stage = (ret0 != nil ? stage : (stage == 5 ? 6 : 9))
//@   on call Client.Commit assert stage == 6
//@   on call OS.Rename op "COMMITJOURNAL:LTX" assert stage == 6 ; then stage = (ret0 == nil ? 7 : stage)
//@   on call internal.Sync assert stage == 7 ; then stage = (ret0 == nil ? 8 : stage)
//@   on call DB.setPos assert stage == 10 && arg1.TXID == old(posOf(db)).TXID + 1 && arg1.PostApplyChecksum == post ; then stage = 11
//@   on call Store.MarkDirty assert stage == 11 ; then stage = 12
//@   loop 1 invariant stage == 0 && w && hdrValid && db.pageSize != 0 && dbWF(db)
//@   loop 2 invariant stage == 2 && w && hdrValid && db.pageSize != 0 && dbWF(db) && enc != nil &&
//@          enc.header.MaxTXID == old(posOf(db)).TXID + 1 && enc.header.Commit == commit
//@   ensures   !w ==> err == ErrReadOnlyReplica && stage == 0
//@   ensures   err == nil ==> stage == 12 || (stage == 0 && (!hdrValid || db.pageSize == 0))

// the closure of CommitJournal that clears the checksums of truncated pages
//@ func litefs.DB.CommitJournal$5
//@   loop 1 invariant dbWF(db) && db.pageSize != 0 && commit <= i

// ===========================================================================
// db.go — aggregate checksum (C04): safety, frame and flag-bit contracts.

// Keys of the WAL checksum overlays are page numbers (never zero).
//@ pred walKeysPositive(db *DB) = forall p uint32 :: has(db.wal.chksums, p) ==> p > 0

//@ func (db *DB) pageChecksum [C04,C03,C02]
//@   requires  db != nil && pgno > 0 && db.pageSize != 0 && len(db.chksums.pages) <= 0xffffffff
//@   modifies
//@   ensures   pgno == ltx.LockPgno(db.pageSize) ==> chksum == 0 && ok
//@   ensures   pgno != ltx.LockPgno(db.pageSize) && pgno > pageN ==> !ok
//@   nopanic

//@ func (db *DB) recomputeBlockChksum [C04,C02]
//@   requires  db != nil && len(db.chksums.pages) <= 0xffffffff && len(db.chksums.blocks) <= 0xffffffff && block < 0xffffff && chkArraysDisjoint(db)
//@   loop 1 invariant i <= 256 && len(db.chksums.blocks) > int(block) && (i > 0 ==> chksum & ltx.ChecksumFlag != 0)
//@   loop 1 decreases 256 - int(i)
//@   modifies  db.chksums.blocks, contents(db.chksums.blocks)
//@   ensures   len(db.chksums.blocks) > int(block) && len(db.chksums.blocks) >= old(len(db.chksums.blocks)) && len(db.chksums.blocks) <= 0xffffffff
//@   ensures   db.chksums.blocks[int(block)] & ltx.ChecksumFlag != 0
//@   ensures   chkArraysDisjoint(db)
//@   nopanic

//@ func (db *DB) blockChksum [C04,C02]
//@   requires  db != nil && len(db.chksums.pages) <= 0xffffffff && len(db.chksums.blocks) <= 0xffffffff && block < 0xffffff && chkArraysDisjoint(db)
//@   modifies  db.chksums.blocks, contents(db.chksums.blocks)
//@   ensures   len(db.chksums.blocks) <= 0xffffffff && chkArraysDisjoint(db)
//@   ensures   result != 0
//@   nopanic

// checksum(pageN, new): never panics for any page count and any overlay keys; only fills the block cache;
// a successful result carries the flag bit; pageN == 0 gives exactly the empty checksum.
//@ func (db *DB) checksum [C04,C03,C02,C15]
//@   requires  dbWF(db) && db.pageSize != 0 && walKeysPositive(db) && (forall p uint32 :: has(newWALChecksums, p) ==> p > 0)
//@   requires  pageN <= 0xffffff00
//@   loop 1 invariant len(ignoredBlocks) == int(blockN)
//@   loop 1 modifies contents(ignoredBlocks)
//@   loop 2 invariant len(ignoredBlocks) == int(blockN)
//@   loop 2 modifies contents(ignoredBlocks)
// Which blocks are summed page by page: EVERY block below blockN that holds a page of the WAL overlay (old or new) --
// including the zero markers of truncated pages beyond pageN in the last block. Stated over the keys the two map ranges
// have produced so far, and, once a range has ended, over all keys of that map.
//@   loop 1 invariant forall p uint32 :: visited(1, p) && (p - 1) / 256 < blockN ==> ignoredBlocks[int((p - 1) / 256)]
//@   loop 2 invariant forall p uint32 :: has(db.wal.chksums, p) && (p - 1) / 256 < blockN ==> ignoredBlocks[int((p - 1) / 256)]
//@   loop 2 invariant forall p uint32 :: visited(2, p) && (p - 1) / 256 < blockN ==> ignoredBlocks[int((p - 1) / 256)]
//@   loop 3 invariant forall p uint32 :: (has(db.wal.chksums, p) || has(newWALChecksums, p)) && (p - 1) / 256 < blockN ==> ignoredBlocks[int((p - 1) / 256)]
//@   loop 3 invariant len(ignoredBlocks) == int(blockN) && dbWF(db) && db.pageSize != 0 && block <= blockN &&
//@          ((block == 0 && chksum == 0) || chksum & ltx.ChecksumFlag != 0)
//@   loop 3 modifies db.chksums.blocks, contents(db.chksums.blocks)
//@   loop 4 invariant i <= 256 && block < blockN && (i > 0 ==> chksum & ltx.ChecksumFlag != 0) &&
//@          ((block == 0 && chksum == 0) || chksum & ltx.ChecksumFlag != 0)
//@   loop 4 modifies
//@   modifies  db.chksums.blocks, contents(db.chksums.blocks)
//@   ensures   dbWF(db)
//@   ensures   pageN == 0 ==> result0 == ltx.ChecksumFlag && err == nil
//@   ensures   err == nil ==> result0 & ltx.ChecksumFlag != 0
//@   nopanic

// ===========================================================================
// db.go — rollback-journal entry points (C02, C07)
// Guard dominance: every state-changing call is dominated by a Writeable() that returned true;
// otherwise the result is ErrReadOnlyReplica and nothing was touched.

//@ func (db *DB) WriteDatabaseAt [C02,C07]
//@   requires  dbWF(db) && db.dirtyPageSet != nil && f != nil
//@   ghost w bool = false
//@   ghost wrote bool = false
//@   on call DB.Writeable ; then w = ret0
//@   on call DB.writeDatabasePage assert w && len(arg3) == int(db.pageSize) && db.pageSize != 0 &&
//@        offset % int64(db.pageSize) == 0 && arg2 == uint32(offset / int64(db.pageSize)) + 1 && arg4 == false &&
//@        (dbModeIs(db, DBModeRollback) ==> has(db.dirtyPageSet, arg2)) ; then wrote = true
//@   ensures   !w ==> err == ErrReadOnlyReplica && !wrote && unchanged(db.pageSize, db.dirtyPageSet)
//@   ensures   err == nil && len(data) != 0 ==> wrote
//@   ensures   !wrote ==> (forall p uint32 :: has(db.dirtyPageSet, p) ==> old(has(db.dirtyPageSet, p)) || (w && p == uint32(offset / int64(db.pageSize)) + 1))
//@   nopanic

//@ func (db *DB) CreateJournal [C02,C07]
//@   requires  dbWF(db)
//@   ghost w bool = false
//@   on call DB.Writeable ; then w = ret0
//@   on call OS.OpenFile assert w
//@   ensures   !w ==> err == ErrReadOnlyReplica
//@   nopanic

// WriteJournalAt: refused on a node without write authority; a write of exactly 28 zero bytes at offset 0
// is the PERSIST-mode commit and goes through CommitJournal before the bytes are passed through.
//@ func (db *DB) WriteJournalAt [C02,C07]
//@   requires  dbWF(db) && db.dirtyPageSet != nil && f != nil
//@   ghost w bool = false
//@   ghost committed bool = false
//@   on call DB.Writeable ; then w = ret0
//@   on call DB.CommitJournal assume db.pageSize <= 65536
//@   on call DB.CommitJournal assert w && offset == 0 && len(data) == 28 && arg2 == JournalModePersist ; then committed = true
//@   on call os.File.WriteAt assert w && arg1 == data && arg2 == offset
//@   ensures   !w ==> err == ErrReadOnlyReplica && unchanged(db.pageSize)
//@   nopanic

// TruncateDatabase: only to the size the database header already states (no image change).
//@ func (db *DB) TruncateDatabase [C02,C07]
//@   requires  dbWF(db)
//@   on call DB.truncateDatabase assert db.pageSize != 0 && size % int64(db.pageSize) == 0 && arg2 == uint32(size / int64(db.pageSize))
//@   nopanic

//@ func (db *DB) TruncateJournal [C02,C07]
//@   requires  dbWF(db) && db.dirtyPageSet != nil
//@   on call DB.CommitJournal assert arg2 == JournalModeTruncate
//@   nopanic

//@ func (db *DB) RemoveJournal [C02,C07]
//@   requires  dbWF(db) && db.dirtyPageSet != nil
//@   on call DB.CommitJournal assert arg2 == JournalModeDelete
//@   nopanic

// readSQLiteDatabaseHeader: on success the page size is a power of two in [512, 65536].
//@ func readSQLiteDatabaseHeader [C02,C16,C05]
//@   requires  r != nil
//@   ensures   err == nil ==> hdr.PageSize >= 512 && hdr.PageSize <= 65536 && hdr.PageSize & (hdr.PageSize - 1) == 0
//@   nopanic

// ===========================================================================
// db.go — blocking write-lock acquisition, startup and recovery (C05, C11, C13)

// recover: the journal is rolled back first, then the WAL is checkpointed; both errors propagate.
//@ func (db *DB) recover [C05,C17,C11,C13]
//@   ensures   old(walKeysPositive(db)) ==> walKeysPositive(db)
//@   requires  dbWF(db)
//@   ghost stage int = 0
//@   on call DB.rollbackJournal assert stage == 0 ; then stage = (ret0 == nil ? 1 : stage)
//@   on call DB.CheckpointNoLock assert stage == 1 ; then stage = (ret0 == nil ? 2 : stage)
//@   ensures   err == nil ==> stage == 2
//@   ensures   dbWF(db)
//@   nopanic

// CheckpointNoLock: pages are copied from the WAL only through writeDatabasePage(…, invalidate=true) with the
// offsets readWALPageOffsets returned; the size is restored to the last commit iff there was one; then the
// WAL is truncated to zero, the in-memory WAL checksums are dropped and the SHM is rewritten.
//@ func (db *DB) CheckpointNoLock [C05,C17,C03]
//@   ensures   old(walKeysPositive(db)) ==> walKeysPositive(db)
//@   requires  dbWF(db)
//@   ghost stage int = 0
//@   ghost nonEmpty bool = false
//@   on call DB.readWALPageOffsets assert stage == 0 ; then stage = (ret2 == nil ? 1 : stage), nonEmpty = len(ret0) > 0
//@   on call DB.writeDatabasePage assert stage == 1 && nonEmpty && arg4 == true
//@   on call DB.truncateDatabase assert stage == 1 && nonEmpty && arg2 == commit ; then stage = (ret0 == nil ? 2 : stage)
//@   on call DB.TruncateWAL assert (stage == 2 || (stage == 1 && !nonEmpty)) && arg2 == 0 ; then stage = (ret0 == nil ? 3 : stage)
//@   on call DB.updateSHM assert stage == 3 ; then stage = (ret0 == nil ? 4 : stage)
//@   loop 1 invariant stage == 1 && nonEmpty && dbWF(db) && db.pageSize != 0 && len(buf) == int(db.pageSize) && walFile != nil && dbFile != nil
//@   ensures   err == nil ==> stage == 4 || stage == 0
//@   ensures   dbWF(db)
//@   nopanic

//@ func (db *DB) TruncateWAL [C05,C03,C16]
//@   requires  db != nil && db.os != nil
//@   modifies  db.wal.frameOffsets, db.wal.chksums
//@   proves    err == nil ==> fresh(db.wal.chksums)
//@   ensures   err == nil ==> size == 0 && db.wal.chksums != nil && db.wal.frameOffsets != nil && (forall p uint32 :: !has(db.wal.chksums, p))
//@   ensures   err != nil ==> unchanged(db.wal.frameOffsets, db.wal.chksums)
//@   nopanic

// syncWALToLTX: the newest LTX file is verified before its WAL fields are used; the WAL is truncated only
// to exactly WALOffset+WALSize and only when its salts match the file's; it is renamed away when they do not.
//@ func (db *DB) syncWALToLTX [C05]
//@   requires  dbWF(db)
//@   ghost verified bool = false
//@   on call ltx.Decoder.Verify ; then verified = (ret0 == nil)
//@   on call os.File.Truncate assert verified && arg1 == dec.header.WALOffset + dec.header.WALSize
//@   on call OS.Rename op "SYNCWAL" assert verified
//@   nopanic

// maxLTXFile: returns the name with the greatest max TXID among the names that parse as LTX files.
//@ func (db *DB) maxLTXFile [C05,C09]
//@   requires  dbWF(db)
//@   loop 1 invariant -1 <= rangeindex && rangeindex < len(ents)
//@   nopanic

//@ func (db *DB) initFromDatabaseHeader [C05]
//@   requires  dbWF(db)
//@   ensures   err == nil ==> dbWF(db)
//@   nopanic

// initDatabaseFile: the per-page checksum slice has one slot per page of the header's page count, slots at and
// beyond the first unreadable page are zero, the lock page's slot is zero, no block aggregate is cached.
//@ func (db *DB) initDatabaseFile [C05,C04]
//@   requires  dbWF(db)
//@   ensures   err == nil ==> dbWF(db)
//@   nopanic

// Open: header → ltx dir → SHM removed → newest LTX chosen → WAL trimmed to it → journal rolled back and WAL
// checkpointed → checksums rebuilt → newest LTX re-applied under the full write lock, which is released on every return.
//@ func (db *DB) Open [C05,C11]
//@   requires  dbWF(db) && locksWF(db) && walKeysPositive(db) && db.store.Exit != nil
//@   ghost stage int = 0
//@   ghost locked bool = false
//@   on call DB.initFromDatabaseHeader assert stage == 0 ; then stage = (ret0 == nil ? 1 : stage)
//@   on call OS.Remove op "OPEN:SHM" assert stage == 1 ; then stage = 2
//@   on call DB.maxLTXFile assert stage == 2 ; then stage = (ret1 == nil ? 3 : stage)
//@   on call DB.syncWALToLTX assert stage == 3 && arg2 == ltxFilename && ltxFilename != ""
//@   on call DB.recover assert stage == 3 ; then stage = (ret0 == nil ? 4 : stage)
//@   on call DB.initDatabaseFile assert stage == 4 ; then stage = (ret0 == nil ? 5 : stage)
//@   on call DB.AcquireWriteLock assert stage == 5 && ltxFilename != "" ; then locked = (ret1 == nil)
//@   on call DB.ApplyLTXNoLock assert stage == 5 && locked && arg1 == ltxFilename && arg2 == false ; then stage = (ret0 == nil ? 6 : stage)
//@   on call GuardSet.Unlock assert locked ; then locked = false
//@   on return assert !locked
//@   proves    err == nil ==> (stage == 5 && ltxFilename == "") || stage == 6
//@   nopanic

// ===========================================================================
// db.go — retention (C09)

//@ func (db *DB) ReadLTXDir [C09,C05]
//@   requires  dbWF(db)
//@   loop 1 invariant 0 <= i && i <= len(ents)
//@   loop 1 invariant forall k int :: 0 <= k && k < len(ents) ==> ents[k] != nil [C09,C05,thorough]
//@   trusts    forall k int :: 0 <= k && k < len(result0) ==> result0[k] != nil
//@   nopanic

// EnforceRetention never removes the newest file, removes only files older than minTime, and — when a backup
// service is configured — only files whose max TXID is below the acknowledged high-water mark.
//@ func (db *DB) EnforceRetention [C09,C14]
//@   requires  dbWF(db)
//@   ghost older bool = false
//@   on call time.Time.Before ; then older = ret0
// (the acknowledged high-water mark and the file's LAST transaction ID are taken from the calls that produce them, not from
// local variable names: a file that merely STARTS below the mark may end above it)
//@   ghost h ltx.TXID = 0
//@   ghost fmax ltx.TXID = 0
//@   on call DB.HWM ; then h = ret0
//@   on call ltx.ParseFilename ; then fmax = ret1
//@   on call OS.Remove op "ENFORCERETENTION" assert older && i != len(ents) - 1 && (db.store.BackupClient != nil ==> fmax < h)
//@   loop 1 invariant -1 <= rangeindex && rangeindex < len(ents)
//@   nopanic

// ===========================================================================
// litefs.go — contextCause: the reason a done context ended; falls back to ctx.Err() when context.Cause has none.
// UNCHECKED (untagged) assumption, listed in the evidence: it is called only right after a receive from ctx.Done(), and a
// done context's Err() is non-nil (the contract of context.Context); the engine does not relate Done() and Err().
// The cause is never litefs's private marker error errHaltLockAlreadyAcquired (only the callback inside AcquireHaltLock
// returns it; nothing passes it to a CancelCauseFunc).
//@ func contextCause
//@   requires  ctx != nil
//@   pure
//@   ensures   result != nil && result != errHaltLockAlreadyAcquired

