//go:build verif

// Contracts for package litefs, checked by /verif (govc). This file contains no
// code: only structured `//@` comments, keyed by function name and loop ordinal.
// It is compiled only under the build tag `verif` and is otherwise invisible.
package litefs

// ===========================================================================
// rwmutex.go — C12 (and C10/C11 through callers)
//
// Abstract view of one RWMutex: the ghost finite set S of guards that hold it
// shared; sharedN is its cardinality; excl is the exclusive holder or nil.
// S is coupled to the guards by a store hook on RWMutexGuard.state, so
// "g in S <=> g.state == Shared" holds by construction for every guard of rw.

//@ ghost field RWMutex.S fset
//@ on store RWMutexGuard.state then self.rw.S = (newval == RWMutexStateShared ? ins(self.rw.S, self) : del(self.rw.S, self))

//@ pred wfMutex(rw *RWMutex) = rw != nil && rw.sharedN == card(rw.S) && rw.sharedN >= 0 &&
//@      (rw.excl != nil ==> rw.sharedN == 0 && rw.excl.rw == rw && rw.excl.state == RWMutexStateExclusive)

//@ pred wfGuard(g *RWMutexGuard) = g != nil && g.rw != nil &&
//@      (g.state == RWMutexStateUnlocked || g.state == RWMutexStateShared || g.state == RWMutexStateExclusive) &&
//@      (g.state == RWMutexStateExclusive <==> g.rw.excl == g) &&
//@      (g.state == RWMutexStateShared <==> mem(g.rw.S, g))

// POSIX byte-range lock rules between distinct owners, over the abstract view:
// an exclusive lock is allowed iff no other owner holds the lock in any mode;
// a shared lock is allowed iff no other owner holds it exclusively.
//@ pred otherHolder(g *RWMutexGuard) = (g.rw.excl != nil && g.rw.excl != g) ||
//@      (exists h *RWMutexGuard :: h != g && mem(g.rw.S, h))
//@ pred otherExclusive(g *RWMutexGuard) = g.rw.excl != nil && g.rw.excl != g

//@ func (g *RWMutexGuard) tryLock [C12,C11,C10]
//@   requires  wfGuard(g) && wfMutex(g.rw)
//@   modifies  g.state, g.rw.sharedN, g.rw.excl, g.rw.S
//@   ensures   result == !old(otherHolder(g))
//@   ensures   result ==> g.state == RWMutexStateExclusive && g.rw.excl == g && g.rw.sharedN == 0
//@   ensures   !result ==> unchanged(g.state, g.rw.sharedN, g.rw.excl, g.rw.S)
//@   ensures   wfGuard(g) && wfMutex(g.rw)
//@   ensures   forall h *RWMutexGuard :: h != g && h.rw == g.rw && old(wfGuard(h)) ==> wfGuard(h)
//@   nopanic

//@ func (g *RWMutexGuard) tryRLock [C12,C11,C10]
//@   requires  wfGuard(g) && wfMutex(g.rw)
//@   modifies  g.state, g.rw.sharedN, g.rw.excl, g.rw.S
//@   ensures   result == !old(otherExclusive(g))
//@   ensures   result ==> g.state == RWMutexStateShared && g.rw.excl == nil && g.rw.sharedN >= 1
//@   ensures   !result ==> unchanged(g.state, g.rw.sharedN, g.rw.excl, g.rw.S)
//@   ensures   wfGuard(g) && wfMutex(g.rw)
//@   ensures   forall h *RWMutexGuard :: h != g && h.rw == g.rw && old(wfGuard(h)) ==> wfGuard(h)
//@   nopanic

//@ func (g *RWMutexGuard) unlock [C12,C11,C10]
//@   requires  wfGuard(g) && wfMutex(g.rw)
//@   modifies  g.state, g.rw.sharedN, g.rw.excl, g.rw.S
//@   ensures   g.state == RWMutexStateUnlocked
//@   ensures   old(g.state) == RWMutexStateUnlocked ==> unchanged(g.rw.sharedN, g.rw.excl, g.rw.S)
//@   ensures   old(g.state) == RWMutexStateExclusive ==> g.rw.excl == nil && g.rw.sharedN == 0
//@   ensures   old(g.state) == RWMutexStateShared ==> g.rw.sharedN == old(g.rw.sharedN) - 1 && g.rw.excl == nil
//@   ensures   wfGuard(g) && wfMutex(g.rw)
//@   ensures   forall h *RWMutexGuard :: h != g && h.rw == g.rw && old(wfGuard(h)) ==> wfGuard(h)
//@   nopanic

//@ func (rw *RWMutex) state [C12]
//@   requires  rw != nil
//@   pure
//@   ensures   (rw.excl != nil ==> result == RWMutexStateExclusive) &&
//@             (rw.excl == nil && rw.sharedN > 0 ==> result == RWMutexStateShared) &&
//@             (rw.excl == nil && rw.sharedN <= 0 ==> result == RWMutexStateUnlocked)
//@   nopanic

// The state-change callback is assumed not to touch lock state (A-CB). No
// non-test code in the repository sets it.
//@ func field.RWMutex.OnLockStateChange
//@   pure

//@ func (g *RWMutexGuard) TryLock [C12,C11,C10]
//@   requires  wfGuard(g) && wfMutex(g.rw)
//@   ghost held bool = false
//@   on call sync.Mutex.Lock assert !held ; then held = true
//@   on call sync.Mutex.Unlock assert held ; then held = false
//@   on call RWMutexGuard.tryLock assert held
//@   on call RWMutex.state assert held
//@   on call field.RWMutex.OnLockStateChange assert !held && arg0 != arg1
//@   modifies  g.state, g.rw.sharedN, g.rw.excl, g.rw.S
//@   ensures   result == !old(otherHolder(g))
//@   ensures   result ==> g.state == RWMutexStateExclusive && g.rw.excl == g && g.rw.sharedN == 0
//@   ensures   !result ==> unchanged(g.state, g.rw.sharedN, g.rw.excl, g.rw.S)
//@   ensures   wfGuard(g) && wfMutex(g.rw) && !held
//@   ensures   forall h *RWMutexGuard :: h != g && h.rw == g.rw && old(wfGuard(h)) ==> wfGuard(h)
//@   nopanic

//@ func (g *RWMutexGuard) TryRLock [C12,C11,C10]
//@   requires  wfGuard(g) && wfMutex(g.rw)
//@   ghost held bool = false
//@   on call sync.Mutex.Lock assert !held ; then held = true
//@   on call sync.Mutex.Unlock assert held ; then held = false
//@   on call RWMutexGuard.tryRLock assert held
//@   on call RWMutex.state assert held
//@   on call field.RWMutex.OnLockStateChange assert !held && arg0 != arg1
//@   modifies  g.state, g.rw.sharedN, g.rw.excl, g.rw.S
//@   ensures   result == !old(otherExclusive(g))
//@   ensures   result ==> g.state == RWMutexStateShared && g.rw.excl == nil && g.rw.sharedN >= 1
//@   ensures   !result ==> unchanged(g.state, g.rw.sharedN, g.rw.excl, g.rw.S)
//@   ensures   wfGuard(g) && wfMutex(g.rw) && !held
//@   ensures   forall h *RWMutexGuard :: h != g && h.rw == g.rw && old(wfGuard(h)) ==> wfGuard(h)
//@   nopanic

//@ func (g *RWMutexGuard) Unlock [C12,C11,C10]
//@   requires  wfGuard(g) && wfMutex(g.rw)
//@   ghost held bool = false
//@   on call sync.Mutex.Lock assert !held ; then held = true
//@   on call sync.Mutex.Unlock assert held ; then held = false
//@   on call RWMutexGuard.unlock assert held
//@   on call RWMutex.state assert held
//@   on call field.RWMutex.OnLockStateChange assert !held && arg0 != arg1
//@   modifies  g.state, g.rw.sharedN, g.rw.excl, g.rw.S
//@   ensures   g.state == RWMutexStateUnlocked
//@   ensures   old(g.state) == RWMutexStateUnlocked ==> unchanged(g.rw.sharedN, g.rw.excl, g.rw.S)
//@   ensures   old(g.state) == RWMutexStateExclusive ==> g.rw.excl == nil && g.rw.sharedN == 0
//@   ensures   old(g.state) == RWMutexStateShared ==> g.rw.sharedN == old(g.rw.sharedN) - 1 && g.rw.excl == nil
//@   ensures   wfGuard(g) && wfMutex(g.rw) && !held
//@   ensures   forall h *RWMutexGuard :: h != g && h.rw == g.rw && old(wfGuard(h)) ==> wfGuard(h)
//@   nopanic

// Queries answer exactly what the corresponding attempt would, and change nothing.
//@ func (g *RWMutexGuard) CanLock [C12,C11]
//@   requires  wfGuard(g) && wfMutex(g.rw)
//@   ghost held bool = false
//@   on call sync.Mutex.Lock assert !held ; then held = true
//@   on call sync.Mutex.Unlock assert held ; then held = false
//@   on call RWMutex.state assert held
//@   modifies
//@   ensures   canLock == !otherHolder(g)
//@   ensures   (g.rw.excl != nil ==> mutexState == RWMutexStateExclusive) &&
//@             (g.rw.excl == nil && g.rw.sharedN > 0 ==> mutexState == RWMutexStateShared) &&
//@             (g.rw.excl == nil && g.rw.sharedN == 0 ==> mutexState == RWMutexStateUnlocked)
//@   ensures   !held
//@   nopanic

//@ func (g *RWMutexGuard) CanRLock [C12,C11]
//@   requires  wfGuard(g) && wfMutex(g.rw)
//@   ghost held bool = false
//@   on call sync.Mutex.Lock assert !held ; then held = true
//@   on call sync.Mutex.Unlock assert held ; then held = false
//@   modifies
//@   ensures   result == !otherExclusive(g)
//@   ensures   !held
//@   nopanic

//@ func (g *RWMutexGuard) State [C12]
//@   requires  g != nil && g.rw != nil
//@   modifies
//@   ensures   result == g.state
//@   nopanic

//@ func (rw *RWMutex) State [C12]
//@   requires  rw != nil
//@   modifies
//@   ensures   (rw.excl != nil ==> result == RWMutexStateExclusive) &&
//@             (rw.excl == nil && rw.sharedN > 0 ==> result == RWMutexStateShared) &&
//@             (rw.excl == nil && rw.sharedN <= 0 ==> result == RWMutexStateUnlocked)
//@   nopanic

//@ func (rw *RWMutex) Guard [C12,C11]
//@   modifies
//@   ensures   result.rw == rw && result.state == RWMutexStateUnlocked
//@   nopanic

// Blocking variants (partial correctness): nil is returned only after an
// attempt succeeded; every failed attempt leaves the lock state unchanged.
//@ func (g *RWMutexGuard) Lock [C12]
//@   requires  wfGuard(g) && wfMutex(g.rw) && ctx != nil
//@   loop 1 invariant wfGuard(g) && wfMutex(g.rw) && unchanged(g.state, g.rw.sharedN, g.rw.excl, g.rw.S)
//@   ensures   err == nil ==> g.state == RWMutexStateExclusive && g.rw.excl == g
//@   ensures   err != nil ==> unchanged(g.state, g.rw.sharedN, g.rw.excl, g.rw.S)
//@   ensures   wfGuard(g) && wfMutex(g.rw)
//@   nopanic

//@ func (g *RWMutexGuard) RLock [C12]
//@   requires  wfGuard(g) && wfMutex(g.rw) && ctx != nil
//@   loop 1 invariant wfGuard(g) && wfMutex(g.rw) && unchanged(g.state, g.rw.sharedN, g.rw.excl, g.rw.S)
//@   ensures   err == nil ==> g.state == RWMutexStateShared
//@   ensures   err != nil ==> unchanged(g.state, g.rw.sharedN, g.rw.excl, g.rw.S)
//@   ensures   wfGuard(g) && wfMutex(g.rw)
//@   nopanic
