//go:build verif

// Contracts for the application proxy (http/proxy_server.go), property C19. Comment-only.
package http

//@ spec func reMatch(re *regexp.Regexp, s string) bool

//@ pred anyMatch(res []*regexp.Regexp, p string) = exists i int :: 0 <= i && i < len(res) && reMatch(res[i], p)
//@ pred allNonNil(res []*regexp.Regexp) = forall i int :: 0 <= i && i < len(res) ==> res[i] != nil
//@ pred reqWF(r *http.Request) = r != nil && r.URL != nil
// The response writers handed out by net/http's server (http1 *response, http2 *responseWriter) implement
// http.Flusher; copyAndFlush panics otherwise ("dst must implement http.Flusher or else it will panic").
//@ pred respWF(w http.ResponseWriter) = implements(w, http.Flusher)

//@ func (s *ProxyServer) isWriteRequest [C19]
//@   requires  s != nil && r != nil
//@   modifies
//@   ensures   result == (r.Method != "GET" && r.Method != "HEAD")
//@   nopanic

//@ func (s *ProxyServer) isPassthrough [C19]
//@   requires  s != nil && reqWF(r) && allNonNil(s.Passthroughs)
//@   loop 1 invariant -1 <= rangeindex && rangeindex < len(s.Passthroughs) && (forall j int :: 0 <= j && j <= rangeindex ==> !reMatch(s.Passthroughs[j], r.URL.Path))
//@   modifies
//@   ensures   result == anyMatch(s.Passthroughs, r.URL.Path)
//@   nopanic

//@ func (s *ProxyServer) isAlwaysForwarded [C19]
//@   requires  s != nil && reqWF(r) && allNonNil(s.AlwaysForward)
//@   loop 1 invariant -1 <= rangeindex && rangeindex < len(s.AlwaysForward) && (forall j int :: 0 <= j && j <= rangeindex ==> !reMatch(s.AlwaysForward[j], r.URL.Path))
//@   modifies
//@   ensures   result == anyMatch(s.AlwaysForward, r.URL.Path)
//@   nopanic

// The tracked database, if registered in the store, carries a position (NewDB stores ltx.Pos{} before the DB is
// published in Store.dbs; map values are never nil). Stated for the one key the proxy looks up (no quantifier).
//@ pred trackedDBWF(st *litefs.Store, name string) = st != nil &&
//@      (has(st.dbs, name) ==> st.dbs[name] != nil && typeis(aload(st.dbs[name].pos), ltx.Pos))
// What NewProxyServer + configuration establish: a store, a transport, compiled (non-nil) path expressions.
// (PollTXIDInterval is set to 1ms by NewProxyServer and is not configurable; time.NewTicker panics on d <= 0.)
//@ pred proxyCoreWF(s *ProxyServer) = s != nil && s.HTTPTransport != nil && trackedDBWF(s.store, s.DBName) && s.PollTXIDInterval > 0
//@ pred proxyWF(s *ProxyServer) = proxyCoreWF(s) && allNonNil(s.Passthroughs) && allNonNil(s.AlwaysForward)
//@ pred isReadMethod(r *http.Request) = r.Method == "GET" || r.Method == "HEAD"

// serveGetHealth: 503 exactly when a positive MaxLag is configured and the store's lag exceeds it, else 200;
// it never touches the application.
//@ func (s *ProxyServer) serveGetHealth [C19]
//@   requires  proxyCoreWF(s) && reqWF(r) && respWF(w)
//@   ghost asked bool = false
//@   ghost lagv time.Duration = 0
//@   ghost answered int = 0
//@   on call Store.Lag assert !asked && arg0 == s.store ; then asked = true, lagv = ret0
//@   on call nethttp.Error assert asked && answered == 0 && arg2 == 503 && s.MaxLag > 0 && lagv > s.MaxLag ; then answered = 503
//@   on call nethttp.ResponseWriter.WriteHeader assert asked && answered == 0 && arg0 == 200 && !(s.MaxLag > 0 && lagv > s.MaxLag) ; then answered = 200
//@   on call nethttp.Transport.RoundTrip assert false
//@   on call ProxyServer.proxyToTarget assert false
//@   ensures   asked && (answered == 503 || answered == 200)
//@   ensures   answered == 503 <==> (s.MaxLag > 0 && lagv > s.MaxLag)
//@   nopanic

// logf only prints.
//@ func (s *ProxyServer) logf [C19]
//@   requires  s != nil
//@   modifies
//@   nopanic

// copyAndFlush: "dst must implement http.Flusher or else it will panic" - made a precondition. It only writes to its
// own buffer and to the two external streams. (Kept modular so that the three inlined copies of proxyToTarget in
// serveRead stay small.)
//@ func copyAndFlush [C19]
//@   requires  implements(dst, http.Flusher) && src != nil
//@   ghost wfail bool = false
//@   on call io.Writer.Write assert !wfail ; then wfail = (ret1 != nil)
//@   loop 1 invariant len(buf) == 32768 && !wfail
//@   loop 1 modifies contents(buf)
//@   modifies
// FINDING F-C19-2 (incidental, fails on the unchanged code, kept on purpose): a failed write to the client must be
// reported. The code returns `err` (the result of the preceding Read, nil for a normal chunk) instead of the write
// error `e`, so a broken client connection ends the copy with a nil error.
//@   ensures   wfail ==> err != nil
//@   nopanic

// proxyToTarget: the one place where a request reaches the local application (Transport.RoundTrip).
//@ func (s *ProxyServer) proxyToTarget [C19]
//@   inline
//@   requires  proxyCoreWF(s) && reqWF(r) && respWF(w)
//@   ghost stage int = 0
//@   ghost dbr *litefs.DB = nil
//@   ghost ptx ltx.TXID = 0
//@   ghost cookies int = 0
//@   on call nethttp.Transport.RoundTrip assert stage == 0 && arg0 == s.HTTPTransport && arg1 == r && r.URL.Scheme == "http" && r.URL.Host == s.Target ; then stage = (ret1 == nil ? 1 : -1)
//@   on call nethttp.Error assert stage == -1 && arg2 == 502
//@   on call Store.DB assert stage == 1 && arg0 == s.store && arg1 == s.DBName ; then stage = 2, dbr = ret0
//@   on call DB.Pos assert stage == 2 && arg0 == dbr ; then stage = 3, ptx = ret0.TXID
//@   on call nethttp.SetCookie assert stage == 3 && cookies == 0 && !passthrough && !isReadMethod(r) && arg1.Name == "__txid" && arg1.Value == txidStr(ptx) && arg1.Path == "/" && arg1.HttpOnly ; then cookies = 1
//@   on call nethttp.ResponseWriter.WriteHeader assert stage >= 1 && arg0 == resp.StatusCode
//@   loop 1 invariant resp != nil
//@   loop 2 invariant -1 <= rangeindex && rangeindex < len(values)
//@   ensures   stage != 0
//@   ensures   cookies == 1 <==> (stage == 3)
//@   ensures   stage >= 1 && !passthrough && !isReadMethod(r) ==> stage >= 2 && (dbr != nil ==> cookies == 1)
//@   ensures   passthrough || isReadMethod(r) ==> stage <= 1
//@   nopanic

// serveNonRead: the application is reached only on the primary; a replica answers with a fly-replay redirect
// (primary known) or 503 (no primary known) and never calls the transport.
//@ func (s *ProxyServer) serveNonRead [C19]
//@   requires  proxyCoreWF(s) && reqWF(r) && respWF(w)
//@   ghost asked bool = false
//@   ghost prim bool = false
//@   ghost pinfo *litefs.PrimaryInfo = nil
//@   ghost outcome int = 0
//@   ghost rt int = 0
//@   on call Store.PrimaryInfoWithContext assert !asked && outcome == 0 && arg0 == s.store ; then asked = true, prim = ret0, pinfo = ret1
//@   on call ProxyServer.proxyToTarget assert asked && prim && outcome == 0 && rt == 0 && arg0 == s && arg1 == w && arg2 == r && !arg3 ; then outcome = 1
//@   on call nethttp.Transport.RoundTrip assert asked && prim && outcome == 0 && rt == 0 ; then rt = rt + 1
//@   on call nethttp.Error op "Proxy error: no primary available" assert asked && !prim && pinfo == nil && outcome == 0 && arg2 == 503 ; then outcome = 2
//@   on call nethttp.Header.Set op "fly-replay" assert asked && !prim && pinfo != nil && outcome == 0 && arg1 == "fly-replay" && arg2 == "instance=" + pinfo.Hostname ; then outcome = 3
//@   ghost rtOK bool = false
//@   ghost cookie bool = false
//@   on call nethttp.Transport.RoundTrip ; then rtOK = (ret1 == nil)
//@   on call nethttp.SetCookie assert rtOK ; then cookie = true
//@   ensures   asked && outcome != 0
//@   ensures   prim <==> outcome == 1
//@   ensures   prim <==> rt == 1
//@   ensures   !prim ==> rt == 0 && (pinfo == nil <==> outcome == 2) && (pinfo != nil <==> outcome == 3)
//@   ensures   cookie ==> prim && rtOK && !isReadMethod(r)
//@   ensures   prim && rtOK && has(s.store.dbs, s.DBName) && !isReadMethod(r) ==> cookie
// FINDING F-C19-1 (fails on the unchanged code, kept on purpose): every request that serveNonRead lets the application
// execute on the primary is a (potential) write, so the response should carry the TXID cookie whenever the tracked
// database exists. It does not for GET/HEAD requests that were routed here by an always-forward pattern:
// proxyToTarget decides with isWriteRequest (method only) and skips the cookie.
//@   ensures   prim && rtOK && has(s.store.dbs, s.DBName) ==> cookie
//@   nopanic

// serveRead: with a usable TXID cookie (want != 0) and an existing tracked database, the application is reached
// only after a position read returned TXID >= want; the time-out arm answers 504 and never calls the transport.
//@ func (s *ProxyServer) serveRead [C19]
//@   requires  proxyCoreWF(s) && reqWF(r) && respWF(w) && isReadMethod(r)
//@   ghost looked bool = false
//@   ghost ck *http.Cookie = nil
//@   ghost want ltx.TXID = 0
//@   ghost dbLooked bool = false
//@   ghost dbr *litefs.DB = nil
//@   ghost read bool = false
//@   ghost last ltx.TXID = 0
//@   ghost fwd int = 0
//@   ghost rt int = 0
//@   ghost timedout bool = false
//@   on call time.NewTicker assert arg0 > 0
//@   on call nethttp.Request.Cookie assert !looked && arg0 == r && arg1 == "__txid" ; then looked = true, ck = ret0
//@   on call ltx.ParseTXID assert looked && ck != nil && arg0 == ck.Value && want == 0 ; then want = ret0
//@   on call Store.DB assert looked && want != 0 && !dbLooked && arg0 == s.store && arg1 == s.DBName ; then dbLooked = true, dbr = ret0
//@   on call DB.Pos assert dbLooked && dbr != nil && arg0 == dbr && fwd == 0 && !timedout ; then read = true, last = ret0.TXID
//@   on call ProxyServer.proxyToTarget assert fwd == 0 && rt == 0 && !timedout && looked && (want == 0 || (dbLooked && dbr == nil) || (read && last >= want)) && arg0 == s && arg1 == w && arg2 == r && !arg3 ; then fwd = 1
//@   on call nethttp.Transport.RoundTrip assert fwd == 0 && rt == 0 && !timedout && looked && (want == 0 || (dbLooked && dbr == nil) || (read && last >= want)) ; then rt = 1
//@   on call nethttp.Error op "Proxy timeout" assert fwd == 0 && !timedout && arg2 == 504 && want != 0 && dbr != nil && read && last < want ; then timedout = true
//@   on call nethttp.SetCookie assert false
//@   loop 1 invariant looked && want != 0 && want == txid && dbLooked && dbr != nil && dbr == db && fwd == 0 && rt == 0 && !timedout
//@   mergeexits
//@   ensures   (fwd == 1) != timedout
//@   ensures   fwd == rt
//@   ensures   timedout ==> rt == 0
//@   nopanic

// serveHTTP: classification. Exactly one handler runs; which one is a function of the request at entry:
//   passthrough pattern matches                          -> straight to the application, no TXID tracking (arg passthrough = true)
//   else GET /litefs/health                              -> health check
//   else GET/HEAD and no always-forward pattern matches  -> serveRead
//   else                                                 -> serveNonRead
// The transport is called directly only in the passthrough case.
//@ pred isHealth(r *http.Request) = r.Method == "GET" && r.URL.Path == "/litefs/health"
//@ func (s *ProxyServer) serveHTTP [C19]
//@   requires  proxyWF(s) && reqWF(r) && respWF(w)
//@   ghost ptKnown bool = false
//@   ghost pt bool = false
//@   ghost afKnown bool = false
//@   ghost af bool = false
//@   ghost routed int = 0
//@   ghost rt int = 0
//@   on call ProxyServer.isPassthrough assert !ptKnown && routed == 0 && arg0 == s && arg1 == r ; then ptKnown = true, pt = ret0
//@   on call ProxyServer.isAlwaysForwarded assert ptKnown && !pt && !afKnown && routed == 0 && isReadMethod(r) && !isHealth(r) && arg0 == s && arg1 == r ; then afKnown = true, af = ret0
//@   on call ProxyServer.proxyToTarget assert routed == 0 && ptKnown && pt && arg0 == s && arg1 == w && arg2 == r && arg3 ; then routed = 1
//@   on call nethttp.Transport.RoundTrip assert routed == 0 && rt == 0 && ptKnown && pt ; then rt = 1
//@   on call nethttp.SetCookie assert false
//@   on call ProxyServer.serveGetHealth assert routed == 0 && ptKnown && !pt && isHealth(r) && arg0 == s && arg1 == w && arg2 == r ; then routed = 2
//@   on call ProxyServer.serveRead assert routed == 0 && ptKnown && !pt && !isHealth(r) && isReadMethod(r) && afKnown && !af && arg0 == s && arg1 == w && arg2 == r ; then routed = 3
//@   on call ProxyServer.serveNonRead assert routed == 0 && ptKnown && !pt && !isHealth(r) && (!isReadMethod(r) || (afKnown && af)) && arg0 == s && arg1 == w && arg2 == r ; then routed = 4
//@   ensures   routed != 0 && ptKnown
//@   ensures   routed == 1 <==> old(anyMatch(s.Passthroughs, r.URL.Path))
//@   ensures   routed == 2 <==> old(!anyMatch(s.Passthroughs, r.URL.Path) && isHealth(r))
//@   ensures   routed == 3 <==> old(!anyMatch(s.Passthroughs, r.URL.Path) && !isHealth(r) && isReadMethod(r) && !anyMatch(s.AlwaysForward, r.URL.Path))
//@   ensures   routed == 4 <==> old(!anyMatch(s.Passthroughs, r.URL.Path) && !isHealth(r) && (!isReadMethod(r) || anyMatch(s.AlwaysForward, r.URL.Path)))
//@   ensures   rt == 1 <==> routed == 1
//@   nopanic
