//go:build verif

// Contracts for the position-map codec of http.go (property C18), checked by govc. Comment-only.

package http

// Every fixed-size field on the wire is big endian: the byte-order argument of each binary.Read /
// binary.Write is binary.BigEndian (asserted at every call; reader and writer therefore agree).
//@ pred be(o binary.ByteOrder) = typeis(o, binary.bigEndian)

// Largest database name / number of map entries a decoder should be willing to allocate for before
// having seen the bytes (generous; NAME_MAX is 255).
//@ spec func maxWireName() int = 65536

// Wire format: uint32 count, then count times (uint32 nameN, nameN bytes, uint64 TXID, uint64 checksum).
// s is the position inside the format: -1 before the count, 0 at an entry boundary, 1..3 inside an entry.
//   * every read happens in format order with the stated width, only after all earlier reads succeeded;
//   * the name buffer handed to io.ReadFull has exactly the announced length;
//   * the first failing read's error is returned unchanged and the result is nil (no partial map);
//   * success returns a non-nil map with at most `cnt` entries;
//   * the entry loop terminates (i strictly increases towards the count read from the wire).
//@ func ReadPosMapFrom [C18]
//@   requires  r != nil
//@   ghost e error = nil
//@   ghost s int = -1
//@   ghost cnt uint32 = 0
//@   ghost vLen uint32 = 0
//@   on call binary.Read #1 assert be(arg1) && s == -1 && typeis(arg2, *uint32) ; then e = ret0, s = 0, cnt = *as(arg2, *uint32)
//@   on call binary.Read #2 assert be(arg1) && s == 0 && e == nil && typeis(arg2, *uint32) ; then e = ret0, s = 1, vLen = *as(arg2, *uint32)
//@   on call io.ReadFull assert s == 1 && e == nil && len(arg1) == int(vLen) ; then e = ret1, s = 2
//@   on call binary.Read #3 assert be(arg1) && s == 2 && e == nil && typeis(arg2, *ltx.TXID) ; then e = ret0, s = 3
//@   on call binary.Read #4 assert be(arg1) && s == 3 && e == nil && typeis(arg2, *ltx.Checksum) ; then e = ret0, s = (ret0 == nil ? 0 : 4)
//@   on call binary.Read #5 assert false
//@   loop 1 invariant s == 0 && e == nil && n == cnt && i <= n && m != nil && len(m) <= int(i)
//@   loop 1 decreases n - i
//@   alloc bound size <= 0xffffffff
// FAILS on the unchanged code, twice (genuine finding C18-A): make(map, n) with n = the entry count from the
// wire, and make([]byte, nameN) with nameN = the name length from the wire, both unchecked (`size` is the
// number of map entries resp. bytes requested).
//@   alloc bound size <= maxWireName()
//@   ensures   err == e || (e == nil && err != nil && vLen > litefs.MaxStreamNameSize)
//@   ensures   err == nil <==> result0 != nil
//@   ensures   err == nil ==> s == 0 && len(result0) <= int(cnt)
//@   nopanic

// Writer side. s: -1 before the count, 0 at an entry boundary, 1..3 inside an entry; ent = entries completed.
//   * the count is written first and is len(m) (callers have fewer than 2^32 databases: precondition);
//   * every entry is written as uint32 len(name), the bytes of name, m[name].TXID, m[name].PostApplyChecksum,
//     in this order, each only after all earlier writes succeeded, all to w;
//   * the announced length is the true length (names longer than MaxInt32 are refused before anything of
//     the entry is written);
//   * every name written is a key of m (needs sort.Strings to be a permutation: assumed, sort.gvc);
//   * the first failing write's error is returned; nil is returned only after all len(names) entries
//     were written completely.
// NOT proved: len(names) == len(m), i.e. that the number of entries equals the count written first. That
// is Go's map-range semantics (every key exactly once); the engine models `range m` as an arbitrary
// number of iterations each yielding some present key.
//@ func WritePosMapTo [C18]
//@   requires  w != nil && len(m) <= 0xffffffff
//@   ghost e error = nil
//@   ghost s int = -1
//@   ghost ent int = 0
//@   on call binary.Write #1 assert be(arg1) && s == -1 && arg0 == w && typeis(arg2, uint32) && int(as(arg2, uint32)) == len(m) ; then e = ret0, s = 0
//@   on call binary.Write #2 assert be(arg1) && s == 0 && e == nil && arg0 == w && typeis(arg2, uint32) && int(as(arg2, uint32)) == len(name) && has(m, name) ; then e = ret0, s = 1
//@   on call io.Writer.Write assert s == 1 && e == nil && recv == w && len(arg0) == len(name) && (forall j int :: 0 <= j && j < len(arg0) ==> arg0[j] == name[j]) ; then e = ret1, s = 2
//@   on call binary.Write #3 assert be(arg1) && s == 2 && e == nil && arg0 == w && typeis(arg2, ltx.TXID) && as(arg2, ltx.TXID) == m[name].TXID ; then e = ret0, s = 3
//@   on call binary.Write #4 assert be(arg1) && s == 3 && e == nil && arg0 == w && typeis(arg2, ltx.Checksum) && as(arg2, ltx.Checksum) == m[name].PostApplyChecksum ; then e = ret0, s = (ret0 == nil ? 0 : 4), ent = (ret0 == nil ? ent + 1 : ent)
//@   on call binary.Write #5 assert false
//@   loop 1 invariant s == -1 && e == nil && ent == 0 && fresh(names) && (forall j int :: 0 <= j && j < len(names) ==> has(m, names[j]))
//@   loop 1 modifies contents(names)
//@   loop 2 invariant s == 0 && fresh(names) && e == nil && ent == rangeindex + 1 && -1 <= rangeindex && rangeindex < len(names) && (forall j int :: 0 <= j && j < len(names) ==> has(m, names[j]))
//@   loop 2 modifies
//@   modifies
//@   ensures   e != nil ==> result0 == e
//@   ensures   result0 == nil ==> e == nil && s == 0 && ent == len(names)
//@   nopanic
