//go:build verif

// Contracts for the HTTP API handlers of http/server.go: property C20 ("every API request gets a
// response; invalid requests change nothing") and the handler halves of C13 (halt lock / write
// forwarding), C07 (write authority) and C16 (import / export). Checked by govc. This file
// contains no code: only structured `//@` comments.
//
// Reading guide
//   - apiReqWF(w, r) is what net/http guarantees to a handler; serverWF(s) is what NewServer and
//     NewStore establish. Nothing else is assumed about a request: path, method, query,
//     headers and body are arbitrary.
//   - `nopanic` on every handler turns every nil dereference, type assertion and index in the
//     handler (and in the small store getters it inlines) into an obligation.
//   - Reject-before-mutate is a protocol automaton per handler: ghost variables record what was
//     parsed and checked (`on call ... ; then`), and every state-changing callee carries asserts
//     that the request was validated, the role is right and no error response was sent yet.
//     One assert per concern, so that each finding has its own obligation.
//   - "Every path responds": `nerr` counts Error responses; a handler returns either after
//     exactly one Error response or after completing all of its steps (net/http then sends the
//     implicit 200), and nothing is called after an Error response.
package http

// What net/http guarantees to every handler: non-nil writer, request, URL and body.
//@ pred apiReqWF(w http.ResponseWriter, r *http.Request) = w != nil && r != nil && r.URL != nil && r.Body != nil

// What NewServer/NewStore and package initialisation establish: a store whose cluster-id cell holds a string, a
// metrics handler, the stream gauge (promauto.NewGauge), (lease.go) a lease is only ever obtained from the
// configured Leaser, and the subscriber set holds no nil key (only SubscribeChangeSet inserts, fresh objects).
//@ pred serverWF(s *Server) = s != nil && s.store != nil && storeWF(s.store) && s.store.Exit != nil && s.promHandler != nil && s.ctx != nil &&
//@      typeis(aload(s.store.clusterID), string) && (s.store.lease != nil ==> s.store.Leaser != nil) &&
//@      serverStreamCountMetric != nil && litefs.storeDBCountMetric != nil && !has(s.store.changeSetSubscribers, nil)

// The node is the primary right now (store.go: isPrimary).
//@ pred nodeIsPrimary(s *Server) = s.store.lease != nil

// Some halt lock is currently held on db (db.go: haltLockAndGuard holds the lock and the guard set that owns the write lock).
//@ pred haltLockHeld(db *litefs.DB) = typeis(aload(db.haltLockAndGuard), *litefs.haltLockAndGuard) &&
//@      as(aload(db.haltLockAndGuard), *litefs.haltLockAndGuard) != nil

// ---------------------------------------------------------------------------
// Interface assumptions: lease managers do not touch Store/DB objects.
//@ func litefs.Leaser.*
//@   pure
//@ func litefs.Lease.*
//@   pure

// ---------------------------------------------------------------------------
// The state-changing callees (DB.Import, DB.Export, DB.AcquireHaltLock, DB.ReleaseHaltLock, DB.WriteLTXFileAt,
// DB.ApplyLTXNoLock, Client.Handoff, Server.streamDB, Store.DBs, EventSubscriber.Stop, ChangeSetSubscriber.Close)
// have thin *assumed* contracts in verif/contracts/assumed/litefs.gvc and http.gvc: a non-nil receiver as
// precondition (an obligation for the handler) and otherwise the havoc of everything the callee may write.
// They only make the call modular; their own bodies belong to C13/C16/C07.

// CreateDBIfNotExists: assumed contract in verif/contracts/assumed/litefs.gvc (success comes with a well-formed database
// object of this store; the lock numbering ghost cannot be established by a constructor, so it stays trusted).

// SubscribeChangeSet / SubscribeEvents return a subscriber (checked).
//@ func (s *litefs.Store) SubscribeChangeSet [C20,C14]
//@   requires  s != nil
//@   ensures   result != nil && result.dirtySet != nil && result.store == s && result.nodeID == nodeID
//@ func (s *litefs.Store) SubscribeEvents [C20]
//@   requires  s != nil
//@   ensures   result != nil

// Store.Handoff: refused unless this node holds the lease and the target is a connected subscriber;
// only then is the lease manager asked to hand off, to exactly the requested node.
// (The subscriber set never holds a nil key: SubscribeChangeSet only inserts fresh subscribers.)
//@ func (s *litefs.Store) Handoff [C20]
//@   requires  s != nil && !has(s.changeSetSubscribers, nil)
//@   ghost found bool = false
//@   on call Store.changeSetSubscriberByNodeID assert arg1 == nodeID ; then found = (ret0 != nil)
//@   on call litefs.Lease.Handoff assert old(s.lease) != nil && recv == old(s.lease) && found && arg1 == nodeID
//@   ensures   old(s.lease) == nil ==> err != nil
//@   ensures   !found ==> err != nil
//@   nopanic

// ---------------------------------------------------------------------------
// Error: logs and answers with the given status.
//@ func Error [C20]
//@   requires  w != nil && r != nil && r.URL != nil && err != nil
//@   ghost sent int = 0
//@   on call nethttp.Error assert arg0 == w && arg2 == code ; then sent = sent + 1
//@   ensures   sent == 1
//@   modifies
//@   nopanic

// ---------------------------------------------------------------------------
// GET /info: answers on every path, changes nothing.
//@ func (s *Server) handleGetInfo [C20]
//@   requires  serverWF(s) && apiReqWF(w, r)
//@   ghost nerr int = 0
//@   ghost nw int = 0
//@   on call http.Error assert nerr == 0 ; then nerr = nerr + 1
//@   on call nethttp.ResponseWriter.Write assert nerr == 0 ; then nw = nw + 1
//@   on return assert nerr == 1 || nw == 2
//@   modifies
//@   nopanic

// ---------------------------------------------------------------------------
// POST /halt?name=N&id=L  (C13: grant the halt lock of N to a remote node)
//@ func (s *Server) handlePostHalt [C20,C13]
//@   requires  serverWF(s) && apiReqWF(w, r)
//@   ghost nerr int = 0
//@   ghost idOK bool = false
//@   ghost idv int64 = 0
//@   ghost hid uint64 = 0
//@   ghost hok bool = false
//@   ghost dbp *litefs.DB = nil
//@   ghost stage int = 0
//@   on call strconv.ParseInt ; then idOK = (ret1 == nil), idv = ret0
//@   on call litefs.ParseNodeID ; then hid = ret0, hok = (ret1 == nil)
//@   on call http.Error assert nerr == 0 ; then nerr = nerr + 1
//@   on call Store.CreateDBIfNotExists assert nerr == 0 && stage == 0 && idOK && hid != s.store.id ; then stage = (ret1 == nil ? 1 : stage), dbp = ret0
//@   on call Store.CreateDBIfNotExists assert arg1 != ""
//@   on call Store.CreateDBIfNotExists assert nodeIsPrimary(s)
//@   on call DB.AcquireHaltLock assert nerr == 0 && stage == 1 && arg0 == dbp && arg2 == idv ; then stage = (ret1 == nil ? 2 : stage)
//@   on call json.Encoder.Encode assert nerr == 0 && stage == 2 ; then stage = (ret0 == nil ? 3 : stage)
//@   on return assert (nerr == 1 && stage < 3) || (nerr == 0 && stage == 3)
//@   nopanic

// DELETE /halt?name=N&id=L  (C13: release)
//@ func (s *Server) handleDeleteHalt [C20,C13]
//@   requires  serverWF(s) && apiReqWF(w, r)
//@   ghost nerr int = 0
//@   ghost idOK bool = false
//@   ghost idv int64 = 0
//@   ghost hid uint64 = 0
//@   ghost hok bool = false
//@   ghost dbp *litefs.DB = nil
//@   ghost released bool = false
//@   on call strconv.ParseInt ; then idOK = (ret1 == nil), idv = ret0
//@   on call litefs.ParseNodeID ; then hid = ret0, hok = (ret1 == nil)
//@   on call litefs.Store.DB ; then dbp = ret0
//@   on call http.Error assert nerr == 0 && !released ; then nerr = nerr + 1
//@   on call DB.ReleaseHaltLock assert nerr == 0 && idOK && hid != s.store.id && arg0 == dbp && arg2 == idv ; then released = true
//@   on call DB.ReleaseHaltLock assert nodeIsPrimary(s)
//@   on return assert (nerr == 1 && !released) || (nerr == 0 && released)
//@   nopanic

// POST /tx?name=N  (C13/C07: apply a forwarded transaction)
//@ func (s *Server) handlePostTx [C20,C13,C07]
//@   requires  serverWF(s) && apiReqWF(w, r)
//@   ghost nerr int = 0
//@   ghost hid uint64 = 0
//@   ghost hok bool = false
//@   ghost dbp *litefs.DB = nil
//@   ghost path string = ""
//@   ghost stage int = 0
//@   on call litefs.ParseNodeID ; then hid = ret0, hok = (ret1 == nil)
//@   on call litefs.Store.DB ; then dbp = ret0
//@   on call http.Error assert nerr == 0 ; then nerr = nerr + 1
//@   on call DB.WriteLTXFileAt assert nerr == 0 && stage == 0 && hid != s.store.id && arg0 == dbp && dbp != nil && arg2 == r.Body ; then stage = (ret1 == nil ? 1 : stage), path = ret0
//@   on call DB.WriteLTXFileAt assert nodeIsPrimary(s)
//@   on call DB.WriteLTXFileAt assert haltLockHeld(dbp)
//@   on call DB.ApplyLTXNoLock assert nerr == 0 && stage == 1 && arg0 == dbp && arg1 == path && arg2 ; then stage = (ret0 == nil ? 2 : stage)
//@   on call DB.ApplyLTXNoLock assert haltLockHeld(dbp)
//@   on return assert (nerr == 1 && stage < 2) || (nerr == 0 && stage == 2)
//@   nopanic

// ---------------------------------------------------------------------------
// POST /import?name=N  (C16/C07: only a node that passed the primary-context check may create or replace a database)
//
// The role check of this endpoint goes through a context: Store.PrimaryCtx wraps the request context so that
// Err() is non-nil once the node is not primary (store.go primaryCtx.Err: ErrLeaseExpired when primaryCh is
// closed; setLease keeps "primaryCh closed <=> no lease"). Channel state is not modelled by the verifier, so
// the automaton checks the dominance: every mutation happens after Err() == nil was observed on the context of
// the request that WithContext built from exactly the context PrimaryCtx of this server's store returned
// (r2 = r.WithContext(pctx); r2.Context().Err() == nil), and Import runs under that same context.
//@ func (s *Server) handlePostImport [C20,C16,C07]
//@   requires  serverWF(s) && apiReqWF(w, r)
//@   ghost nerr int = 0
//@   ghost nm string = ""
//@   ghost pctx context.Context = nil
//@   ghost r2 *http.Request = nil
//@   ghost cfrom *http.Request = nil
//@   ghost cval context.Context = nil
//@   ghost roleOK bool = false
//@   ghost dbp *litefs.DB = nil
//@   ghost stage int = 0
//@   on call url.Values.Get op "name" ; then nm = ret0
//@   on call litefs.Store.PrimaryCtx assert arg0 == s.store ; then pctx = ret0
//@   on call nethttp.Request.WithContext ; then r2 = (pctx != nil && arg1 == pctx ? ret0 : r2)
//@   on call nethttp.Request.Context ; then cfrom = arg0, cval = ret0
//@   on call context.Context.Err ; then roleOK = (r2 != nil && cfrom == r2 && recv == cval && ret0 == nil)
//@   on call http.Error assert nerr == 0 ; then nerr = nerr + 1
//@   on call Store.CreateDBIfNotExists assert nerr == 0 && stage == 0 && roleOK && arg1 == nm && nm != "" ; then stage = (ret1 == nil ? 1 : stage), dbp = ret0
//@   on call DB.Import assert nerr == 0 && stage == 1 && roleOK && arg0 == dbp && cfrom == r2 && arg1 == cval && arg2 == r.Body ; then stage = (ret0 == nil ? 2 : stage)
//@   on return assert (nerr == 1 && stage < 2) || (nerr == 0 && stage == 2)
//@   nopanic

// GET /export?name=N  (C16: only an existing database is exported, to this response)
//@ func (s *Server) handleGetExport [C20,C16]
//@   requires  serverWF(s) && apiReqWF(w, r)
//@   ghost nerr int = 0
//@   ghost nm string = ""
//@   ghost dbp *litefs.DB = nil
//@   ghost stage int = 0
//@   on call url.Values.Get op "name" ; then nm = ret0
//@   on call litefs.Store.DB assert arg1 == nm ; then dbp = ret0
//@   on call http.Error assert nerr == 0 && stage == 0 ; then nerr = nerr + 1
//@   on call DB.Export assert nerr == 0 && stage == 0 && nm != "" && arg0 == dbp && dbp != nil && arg2 == w ; then stage = (ret1 == nil ? 1 : stage)
//@   on return assert (nerr == 1 && stage == 0) || (nerr == 0 && stage == 1)
//@   nopanic

// POST /handoff?nodeID=X  (the role and connectivity checks are in Store.Handoff, verified above)
//@ func (s *Server) handlePostHandoff [C20]
//@   requires  serverWF(s) && apiReqWF(w, r)
//@   ghost nerr int = 0
//@   ghost nid uint64 = 0
//@   ghost nidOK bool = false
//@   ghost stage int = 0
//@   on call litefs.ParseNodeID ; then nid = ret0, nidOK = (ret1 == nil)
//@   on call http.Error assert nerr == 0 && stage == 0 ; then nerr = nerr + 1
//@   on call Store.Handoff assert nerr == 0 && stage == 0 && nidOK && arg0 == s.store && arg2 == nid ; then stage = (ret0 == nil ? 1 : stage)
//@   on return assert (nerr == 1 && stage == 0) || (nerr == 0 && stage == 1)
//@   nopanic

// POST /promote: only a candidate that is not primary and knows the primary asks that primary to hand off to this node.
//@ func (s *Server) handlePostPromote [C20]
//@   requires  serverWF(s) && apiReqWF(w, r)
//@   ghost nerr int = 0
//@   ghost asked bool = false
//@   ghost isP bool = false
//@   ghost inf *litefs.PrimaryInfo = nil
//@   ghost stage int = 0
//@   on call litefs.Store.PrimaryInfo ; then asked = true, isP = ret0, inf = ret1
//@   on call http.Error assert nerr == 0 && stage == 0 ; then nerr = nerr + 1
//@   on call nethttp.ResponseWriter.WriteHeader assert nerr == 0 && stage == 0 && asked && isP && arg0 == 200 ; then stage = 2
//@   on call Client.Handoff assert nerr == 0 && stage == 0 && s.store.candidate && asked && !isP && inf != nil && arg2 == inf.AdvertiseURL && arg3 == s.store.id ; then stage = (ret0 == nil ? 1 : stage)
//@   on return assert (nerr == 1 && stage == 0) || (nerr == 0 && stage != 0)
//@   nopanic

// ---------------------------------------------------------------------------
// GET /events: subscribes, answers 200, streams; the subscription is stopped on every return.
//@ func (s *Server) handleGetEvents [C20]
//@   requires  serverWF(s) && apiReqWF(w, r) && implements(w, http.Flusher)
//@   ghost sub *litefs.EventSubscriber = nil
//@   ghost stopped bool = false
//@   ghost hdr bool = false
//@   on call litefs.Store.SubscribeEvents assert sub == nil ; then sub = ret0
//@   on call nethttp.ResponseWriter.WriteHeader assert sub != nil && !hdr && arg0 == 200 ; then hdr = true
//@   on call json.Encoder.Encode assert hdr && !stopped
//@   on call litefs.EventSubscriber.Stop assert sub != nil && arg0 == sub && !stopped ; then stopped = true
//@   on return assert stopped && hdr
//@   loop 1 invariant sub != nil && subscription == sub && hdr && !stopped && enc != nil
//@   nopanic

// ---------------------------------------------------------------------------
// POST /stream (validation prefix, then the streaming loop)
//
// Before anything is subscribed or streamed: HTTP/2 is required, the caller is not this node, and the
// primary-context check passed (see handlePostImport for how the role check is modelled). The position
// map is read after subscribing; a position map that cannot be read is answered with one Error response
// and nothing is streamed. Streaming starts only after the 200 header. The subscription is closed on
// every return.
//@ func (s *Server) handlePostStream [C20]
//@   requires  serverWF(s) && apiReqWF(w, r) && implements(w, http.Flusher) && noNilDBs(s.store)
//@   ghost nerr int = 0
//@   ghost hid uint64 = 0
//@   ghost hok bool = false
//@   ghost pctx context.Context = nil
//@   ghost r2 *http.Request = nil
//@   ghost cfrom *http.Request = nil
//@   ghost cval context.Context = nil
//@   ghost roleOK bool = false
//@   ghost sub *litefs.ChangeSetSubscriber = nil
//@   ghost closed bool = false
//@   ghost pmRead bool = false
//@   ghost pmOK bool = false
//@   ghost hdr bool = false
//@   on call nethttp.Error assert r.ProtoMajor < 2 && sub == nil && nerr == 0 ; then nerr = nerr + 1
//@   on call litefs.ParseNodeID assert r.ProtoMajor >= 2 && nerr == 0 ; then hid = ret0, hok = (ret1 == nil)
//@   on call litefs.Store.PrimaryCtx assert arg0 == s.store ; then pctx = ret0
//@   on call nethttp.Request.WithContext ; then r2 = (pctx != nil && arg1 == pctx ? ret0 : r2)
//@   on call nethttp.Request.Context ; then cfrom = arg0, cval = ret0
//@   on call context.Context.Err ; then roleOK = (r2 != nil && cfrom == r2 && recv == cval && ret0 == nil)
//@   on call http.Error assert nerr == 0 ; then nerr = nerr + 1
//@   on call Store.SubscribeChangeSet assert nerr == 0 && sub == nil && r.ProtoMajor >= 2 && hid != s.store.id && roleOK && arg1 == hid ; then sub = ret0
//@   on call http.ReadPosMapFrom assert nerr == 0 && sub != nil && !pmRead && arg0 == r.Body ; then pmRead = true, pmOK = (ret1 == nil)
//@   on call nethttp.ResponseWriter.WriteHeader assert nerr == 0 && pmOK && !hdr && arg0 == 200 ; then hdr = true
//@   on call Server.streamDB assert hdr && !closed && nerr == 0
//@   on call litefs.WriteStreamFrame assert hdr && !closed
//@   on call litefs.ChangeSetSubscriber.Close assert sub != nil && arg0 == sub && !closed ; then closed = true
//@   on return assert sub != nil ==> closed
//@   on return assert !hdr ==> nerr == 1
//@   on return assert nerr <= 1
// (the quantified store invariant that streamDB requires is not re-established across the streaming loop: no frame for
// streamDB/streamLTX over the database map; deferred to the thorough tier, where it stays undecided — listed in DESIGN I.7)
//@   thorough  handlePostStream/call/http.Server.streamDB/pre#1.5
//@   loop 1 invariant sub != nil && subscription == sub && !closed && pmRead && pmOK && !hdr && nerr == 0
//@   loop 2 invariant sub != nil && subscription == sub && !closed && pmRead && pmOK && !hdr && nerr == 0 && -1 <= rangeindex && rangeindex < len(dbs)
//@   loop 2 invariant forall i int :: 0 <= i && i < len(dbs) ==> dbs[i] != nil
//@   loop 3 invariant sub != nil && subscription == sub && !closed && pmRead && pmOK && !hdr && nerr == 0 && -1 <= rangeindex && rangeindex < 0x1000000000000
//@   loop 4 invariant sub != nil && subscription == sub && !closed && pmRead && pmOK && hdr && nerr == 0
//@   loop 5 invariant sub != nil && subscription == sub && !closed && pmRead && pmOK && hdr && nerr == 0
//@   loop 6 invariant sub != nil && subscription == sub && !closed && pmRead && pmOK && hdr && nerr == 0
//@   nopanic

// ReadPosMapFrom: a position map that is returned without error is a map (never nil), and every byte sequence
// is either decoded or rejected without panicking. The allocation bound is the C20 "oversized body" case:
// the entry count and every name length are attacker-chosen 32-bit numbers.
//@ func ReadPosMapFrom [C20]
//@   requires  r != nil
//@   ensures   err == nil ==> result != nil
//@   alloc bound size <= 65536
//@   loop 1 invariant m != nil
//@   nopanic

// ---------------------------------------------------------------------------
// /debug/rand writes pseudo-random bytes until the client goes away or a minute passed: no program state.
//@ func (s *Server) handleDebugRand [C20]
//@   requires  apiReqWF(w, r)
//@   loop 1 invariant ctx != nil
//@   loop 1 modifies contents(buf)
//@   modifies
//@   nopanic

// ---------------------------------------------------------------------------
// Routing: every request is dispatched exactly once; an API handler runs only for its own path and method,
// after the identification headers were set; a known path with another method gets 405, an unknown path 404.
//@ pred apiPath(p string) = p == "/export" || p == "/halt" || p == "/handoff" || p == "/import" || p == "/info" ||
//@      p == "/promote" || p == "/stream" || p == "/tx" || p == "/events"

//@ func (s *Server) serveHTTP [C20]
//@   requires  serverWF(s) && apiReqWF(w, r) && implements(w, http.Flusher) && noNilDBs(s.store)
//@   ghost n int = 0
//@   ghost hdrs bool = false
//@   on call nethttp.Header.Set op "Litefs-Id" assert n == 0 ; then hdrs = true
//@   on call pprof.Cmdline assert n == 0 && !hdrs ; then n = n + 1
//@   on call pprof.Profile assert n == 0 && !hdrs ; then n = n + 1
//@   on call pprof.Symbol assert n == 0 && !hdrs ; then n = n + 1
//@   on call pprof.Trace assert n == 0 && !hdrs ; then n = n + 1
//@   on call pprof.Index assert n == 0 && !hdrs ; then n = n + 1
//@   on call nethttp.Handler.ServeHTTP assert n == 0 && !hdrs && (r.URL.Path == "/debug/vars" || r.URL.Path == "/metrics") ; then n = n + 1
//@   on call Server.handleDebugRand assert n == 0 && !hdrs && r.URL.Path == "/debug/rand" ; then n = n + 1
//@   on call Server.handleGetExport assert n == 0 && hdrs && r.URL.Path == "/export" && r.Method == "GET" ; then n = n + 1
//@   on call Server.handlePostHalt assert n == 0 && hdrs && r.URL.Path == "/halt" && r.Method == "POST" ; then n = n + 1
//@   on call Server.handleDeleteHalt assert n == 0 && hdrs && r.URL.Path == "/halt" && r.Method == "DELETE" ; then n = n + 1
//@   on call Server.handlePostHandoff assert n == 0 && hdrs && r.URL.Path == "/handoff" && r.Method == "POST" ; then n = n + 1
//@   on call Server.handlePostImport assert n == 0 && hdrs && r.URL.Path == "/import" && r.Method == "POST" ; then n = n + 1
//@   on call Server.handleGetInfo assert n == 0 && hdrs && r.URL.Path == "/info" && r.Method == "GET" ; then n = n + 1
//@   on call Server.handlePostPromote assert n == 0 && hdrs && r.URL.Path == "/promote" && r.Method == "POST" ; then n = n + 1
//@   on call Server.handlePostStream assert n == 0 && hdrs && r.URL.Path == "/stream" && r.Method == "POST" ; then n = n + 1
//@   on call Server.handlePostTx assert n == 0 && hdrs && r.URL.Path == "/tx" && r.Method == "POST" ; then n = n + 1
//@   on call Server.handleGetEvents assert n == 0 && hdrs && r.URL.Path == "/events" && r.Method == "GET" ; then n = n + 1
//@   on call http.Error assert n == 0 && hdrs && apiPath(r.URL.Path) && arg3 == 405 ; then n = n + 1
//@   on call nethttp.NotFound assert n == 0 && hdrs && !apiPath(r.URL.Path) ; then n = n + 1
//@   on return assert n == 1
//@   nopanic
