package vc

import (
	"fmt"
	"go/token"
	"go/types"
	"strings"

	"golang.org/x/tools/go/ssa"
)

// Built-in models of functions outside /repo whose behaviour cannot be expressed as a GVC contract
// (byte-level semantics, uninterpreted hashing, allocation of errors, atomic cells).
// Every model used is recorded in vc.UsedAssumed.

func (fr *Frame) bytesAt(st *State, sl Val, i int64) T {
	vc := fr.vc
	h := vc.heapGet(st, vc.classSlice(types.Typ[types.Byte], ""), SortArr(SortRef, SortArr(SortBV(64), SortBV(8))))
	return Sel(Sel(h, sl.Ts[0]), app("bvadd", sl.Ts[1], BV(i, 64)))
}

func (fr *Frame) beValue(st *State, sl Val, n int, little bool) T {
	var parts []T
	for i := 0; i < n; i++ {
		parts = append(parts, fr.bytesAt(st, sl, int64(i)))
	}
	if little {
		for i, j := 0, len(parts)-1; i < j; i, j = i+1, j-1 {
			parts[i], parts[j] = parts[j], parts[i]
		}
	}
	return app("concat", parts...)
}

func (fr *Frame) putBytes(st *State, sl Val, v T, n int, little bool) {
	vc := fr.vc
	cl := vc.classSlice(types.Typ[types.Byte], "")
	srt := SortArr(SortRef, SortArr(SortBV(64), SortBV(8)))
	h := vc.heapGet(st, cl, srt)
	arr := Sel(h, sl.Ts[0])
	for i := 0; i < n; i++ {
		var hi int
		if little {
			hi = 8*i + 7
		} else {
			hi = 8*(n-1-i) + 7
		}
		b := app(fmt.Sprintf("(_ extract %d %d)", hi, hi-7), v)
		arr = Sto(arr, app("bvadd", sl.Ts[1], BV(int64(i), 64)), b)
	}
	vc.heapSet(st, cl, srt, Sto(h, sl.Ts[0], arr))
}

func (fr *Frame) lenAtLeast(sl Val, n int, pc T, pos token.Pos, what string) {
	if !fr.nopanic {
		fr.vc.assume(pc, app("bvsge", sl.Ts[2], BV(int64(n), 64)))
		return
	}
	goal := app("bvsge", sl.Ts[2], BV(int64(n), 64))
	fr.vc.oblige("bounds", FuncKey(fr.fn)+"/bounds/"+what, fr.tags, pc, goal, pos, what+": slice too short")
	fr.vc.assume(pc, goal)
}

func byteOrderOp(name string) (op string, n int, ok bool) {
	for _, k := range []struct {
		s string
		n int
	}{{"Uint16", 2}, {"Uint32", 4}, {"Uint64", 8}} {
		if name == k.s {
			return "get", k.n, true
		}
		if name == "Put"+k.s {
			return "put", k.n, true
		}
	}
	return "", 0, false
}

func (vc *VC) crcFun() {
	vc.declareFun("gv_crc64", []string{SortBV(32), SortArr(SortBV(64), SortBV(8)), SortBV(64), SortBV(64)}, SortBV(64))
}

func (fr *Frame) checksumPage(st *State, pgno T, data Val) T {
	vc := fr.vc
	vc.crcFun()
	h := vc.heapGet(st, vc.classSlice(types.Typ[types.Byte], ""), SortArr(SortRef, SortArr(SortBV(64), SortBV(8))))
	raw := app("gv_crc64", pgno, Sel(h, data.Ts[0]), data.Ts[1], data.Ts[2])
	return app("bvor", raw, BVu(1<<63, 64))
}

func (fr *Frame) newError(st *State, pc T, kind string) Val {
	_ = fr.vc
	ref := fr.alloc(st, pc, types.Typ[types.Int], "err", false)
	tag := BVBig(hashBig("errtype:"+kind), 64)
	return Val{Typ: types.Universe.Lookup("error").Type(), Ts: []T{tag, ref}}
}

func (fr *Frame) modelExternal(callee *ssa.Function, full string, c *ssa.CallCommon, args []Val, st *State, pc T, pos token.Pos, rt types.Type) (Val, T, bool) {
	vc := fr.vc
	switch {
	case strings.HasPrefix(full, "(encoding/binary.bigEndian).") || strings.HasPrefix(full, "(encoding/binary.littleEndian)."):
		little := strings.Contains(full, "littleEndian")
		m := full[strings.LastIndex(full, ".")+1:]
		op, n, ok := byteOrderOp(m)
		if !ok {
			return Val{}, pc, false
		}
		vc.UsedAssumed["encoding/binary byte order (built-in model)"] = true
		if op == "get" {
			sl := args[1]
			fr.lenAtLeast(sl, n, pc, pos, "binary."+m)
			return Val{Typ: rt, Ts: []T{fr.beValue(st, sl, n, little)}}, pc, true
		}
		sl := args[1]
		fr.lenAtLeast(sl, n, pc, pos, "binary."+m)
		fr.putBytes(st, sl, args[2].Ts[0], n, little)
		return Val{}, pc, true
	case full == "github.com/superfly/ltx.LockPgno":
		vc.UsedAssumed["ltx.LockPgno (built-in model: 0x40000000/pageSize + 1)"] = true
		ps := args[0].Ts[0]
		if fr.nopanic {
			goal := Not(Eq(ps, BV(0, 32)))
			vc.oblige("div", FuncKey(fr.fn)+"/div/ltx.LockPgno", fr.tags, pc, goal, pos, "ltx.LockPgno(0) divides by zero")
			vc.assume(pc, goal)
		}
		return Val{Typ: rt, Ts: []T{lockPgnoTerm(ps)}}, pc, true
	case full == "github.com/superfly/ltx.ChecksumPage":
		vc.UsedAssumed["ltx.ChecksumPage (uninterpreted CRC64 with the flag bit set)"] = true
		return Val{Typ: rt, Ts: []T{fr.checksumPage(st, args[0].Ts[0], args[1])}}, pc, true
	case full == "errors.New" || full == "fmt.Errorf":
		vc.UsedAssumed["errors.New/fmt.Errorf return a fresh non-nil error"] = true
		return fr.newError(st, pc, full), pc, true
	case full == "(*sync/atomic.Value).Load":
		vc.UsedAssumed["sync/atomic.Value as a plain cell (A-SEQ)"] = true
		v := vc.loadAddr(st, &Addr{Kind: aCell, Typ: emptyIface, Ref: vc.materialize(args[0])})
		v.Typ = rt
		return v, pc, true
	case full == "(*sync/atomic.Value).Store":
		vc.UsedAssumed["sync/atomic.Value as a plain cell (A-SEQ)"] = true
		vc.storeAddr(st, &Addr{Kind: aCell, Typ: emptyIface, Ref: vc.materialize(args[0])}, Val{Typ: emptyIface, Ts: args[1].Ts})
		return Val{}, pc, true
	case full == "(*sync/atomic.Value).CompareAndSwap":
		// plain cell (A-SEQ): the swap happens iff the cell holds exactly `old` (same dynamic type and value)
		vc.UsedAssumed["sync/atomic.Value as a plain cell (A-SEQ)"] = true
		a := &Addr{Kind: aCell, Typ: emptyIface, Ref: vc.materialize(args[0])}
		cur := vc.loadAddr(st, a)
		same := True
		for i := range cur.Ts {
			if i < len(args[1].Ts) {
				same = And(same, Eq(cur.Ts[i], args[1].Ts[i]))
			}
		}
		ok := vc.define("cas_ok", SortBool, same)
		nv := make([]T, len(cur.Ts))
		for i := range cur.Ts {
			nv[i] = Ite(ok, args[2].Ts[i], cur.Ts[i])
		}
		vc.storeAddr(st, a, Val{Typ: emptyIface, Ts: nv})
		return Val{Typ: rt, Ts: []T{ok}}, pc, true
	case strings.HasPrefix(full, "(*sync/atomic.") && (strings.HasSuffix(full, ").Load") || strings.HasSuffix(full, ").Store")):
		// atomic.Int64, Uint32, Bool ... as plain cells keyed by the receiver reference
		recvT := callee.Signature.Recv().Type().(*types.Pointer).Elem()
		var elem types.Type
		if strings.HasSuffix(full, ").Load") {
			elem = rt
		} else {
			elem = callee.Signature.Params().At(0).Type()
		}
		vc.UsedAssumed["sync/atomic typed values as plain cells (A-SEQ)"] = true
		a := &Addr{Kind: aCell, Typ: elem, Ref: vc.materialize(args[0])}
		_ = recvT
		// store under a class distinct from ordinary cells of that type
		a.Typ = types.NewNamed(types.NewTypeName(token.NoPos, nil, "atomic_"+vc.E.typeStr(elem), nil), elem.Underlying(), nil)
		if strings.HasSuffix(full, ").Load") {
			v := vc.loadAddr(st, a)
			v.Typ = rt
			return v, pc, true
		}
		vc.storeAddr(st, a, Val{Typ: a.Typ, Ts: args[1].Ts})
		return Val{}, pc, true
	case full == "sort.Slice" || full == "sort.SliceStable":
		// sort.Slice(x, less) permutes the elements of x in place. Model for slices of pointers: nothing outside the
		// slice's window changes, and if no element of the window was nil before, none is afterwards (a consequence
		// of "permutation" that needs no exists-quantifier; the full forall-exists form made every later query slow).
		mi, ok := c.Args[0].(*ssa.MakeInterface)
		if !ok {
			return Val{}, pc, false
		}
		sl, ok := mi.X.Type().Underlying().(*types.Slice)
		if !ok {
			return Val{}, pc, false
		}
		if _, isPtr := sl.Elem().Underlying().(*types.Pointer); !isPtr {
			return Val{}, pc, false
		}
		vc.UsedAssumed["sort.Slice permutes the slice: nil-freeness is preserved (built-in model)"] = true
		x := fr.get(mi.X)
		// the comparison closure runs: its (read-mostly) effects
		for _, a := range c.Args {
			if mc, ok := a.(*ssa.MakeClosure); ok {
				fr.havocCaptured(&ssa.CallCommon{Value: mc}, st)
				vc.havocClasses(st, vc.E.ModSet(mc.Fn.(*ssa.Function)))
			}
		}
		cl := vc.classSlice(sl.Elem(), "")
		srt := SortArr(SortRef, SortArr(SortBV(64), SortRef))
		h := vc.heapGet(st, cl, srt)
		oldArr := Sel(h, x.Ts[0])
		na := vc.fresh("sorted", SortArr(SortBV(64), SortRef))
		off, ln := x.Ts[1], x.Ts[2]
		inI := And(app("bvsle", BV(0, 64), "i"), app("bvslt", "i", ln))
		at := func(arr T) T { return Sel(arr, bvAdd(off, "i")) }
		noNil := func(arr T, pat bool) T {
			body := Imp(inI, Not(Eq(at(arr), BV(0, 64))))
			if pat {
				return "(forall ((i (_ BitVec 64))) (! " + body + " :pattern (" + at(arr) + ")))"
			}
			return "(forall ((i (_ BitVec 64))) " + body + ")"
		}
		vc.assume(pc, Imp(noNil(oldArr, false), noNil(na, true)))
		outside := Not(app("bvult", app("bvsub", "k", off), ln))
		vc.assume(pc, "(forall ((k (_ BitVec 64))) (! "+Imp(outside, Eq(Sel(na, "k"), Sel(oldArr, "k")))+" :pattern ((select "+na+" k))))")
		vc.heapSet(st, cl, srt, Sto(h, x.Ts[0], na))
		return Val{}, pc, true
	case full == "errors.As" && len(c.Args) == 2:
		// errors.As(err, &target) with a statically known target type T (target is a *T boxed in `any`):
		// the answer and the value found are fixed (uninterpreted) functions of the error value and T, so that
		// repeated queries agree and contracts can state them (errorsAs(err, T)). A nil error has no chain; an error whose
		// dynamic type is T is found at once. Assumed: error chains hold no typed-nil pointers (the value found is non-nil).
		mi, ok := c.Args[1].(*ssa.MakeInterface)
		if !ok {
			return Val{}, pc, false
		}
		pt, ok := mi.X.Type().Underlying().(*types.Pointer)
		if !ok {
			return Val{}, pc, false
		}
		tt := pt.Elem()
		vc.UsedAssumed["errors.As (built-in model: deterministic in (error value, target type); found value non-nil)"] = true
		okT, found := vc.errorsAsTerms(args[0], tt)
		tgt := fr.get(mi.X)
		addr := vc.addrOfPointer(tgt, tt)
		oldv := vc.loadAddr(st, addr)
		var nv Val
		if isPointerLike(tt) {
			nv = Val{Typ: tt, Ts: []T{found}}
		} else {
			nv = vc.freshVal("errors_as_val", tt)
		}
		out := make([]T, len(nv.Ts))
		for i := range nv.Ts {
			out[i] = Ite(okT, nv.Ts[i], oldv.Ts[i])
		}
		vc.storeAddr(st, addr, Val{Typ: tt, Ts: out})
		return Val{Typ: rt, Ts: []T{okT}}, pc, true
	case full == "bytes.Equal":
		// equality of lengths is implied; contents compared abstractly
		r := vc.fresh("bytes_eq", SortBool)
		vc.assume(pc, Imp(r, Eq(args[0].Ts[2], args[1].Ts[2])))
		return Val{Typ: rt, Ts: []T{r}}, pc, true
	}
	return Val{}, pc, false
}

var emptyIface = types.NewInterfaceType(nil, nil)

func lockPgnoTerm(ps32 T) T {
	// uint32(0x40000000 / int64(pageSize)) + 1
	q := app("bvsdiv", BV(0x40000000, 64), app("(_ zero_extend 32)", ps32))
	return app("bvadd", app("(_ extract 31 0)", q), BV(1, 32))
}

func (fr *Frame) modelInvoke(c *ssa.CallCommon, name string, recv Val, args []Val, st *State, pc T, pos token.Pos, rt types.Type) (Val, T, bool) {
	vc := fr.vc
	if name == "binary.ByteOrder."+c.Method.Name() || name == "binary.AppendByteOrder."+c.Method.Name() {
		op, n, ok := byteOrderOp(c.Method.Name())
		if !ok {
			return Val{}, pc, false
		}
		vc.UsedAssumed["encoding/binary byte order (built-in model)"] = true
		beTag := vc.E.TypeID(vc.E.namedType("encoding/binary", "bigEndian"))
		leTag := vc.E.TypeID(vc.E.namedType("encoding/binary", "littleEndian"))
		isBE := Eq(recv.Ts[0], beTag)
		isLE := Eq(recv.Ts[0], leTag)
		sl := args[0]
		fr.lenAtLeast(sl, n, pc, pos, "binary."+c.Method.Name())
		if op == "get" {
			other := vc.fresh("bo_other", SortBV(8*n))
			return Val{Typ: rt, Ts: []T{Ite(isBE, fr.beValue(st, sl, n, false), Ite(isLE, fr.beValue(st, sl, n, true), other))}}, pc, true
		}
		st1 := st.clone()
		st2 := st.clone()
		st3 := st.clone()
		fr.putBytes(st1, sl, args[1].Ts[0], n, false)
		fr.putBytes(st2, sl, args[1].Ts[0], n, true)
		vc.havocClasses(st3, map[string]bool{"S|" + vc.E.typeStr(types.Typ[types.Byte]): true})
		m := vc.mergeStates([]T{isBE, And(Not(isBE), isLE), And(Not(isBE), Not(isLE))}, []*State{st1, st2, st3})
		*st = *m
		return Val{}, pc, true
	}
	return Val{}, pc, false
}

func (e *Engine) namedType(pkgPath, name string) types.Type {
	if p := e.allPkgs[pkgPath]; p != nil {
		if o := p.Scope().Lookup(name); o != nil {
			return o.Type()
		}
	}
	return types.Typ[types.Invalid]
}

// externalResultFacts adds facts about results of unmodelled externals that hold by their documented signature only where trivial.
func (fr *Frame) externalResultFacts(full string, res Val, args []Val, st *State, pc T) {
}

// pureModel evaluates Go functions usable inside contracts.
func (vc *VC) pureModel(name string, argv []Val, env *Env) (Val, bool) {
	switch name {
	case "ltx.LockPgno":
		a := env.coerce(argv[0], types.Typ[types.Uint32])
		return Val{Typ: types.Typ[types.Uint32], Ts: []T{lockPgnoTerm(a.Ts[0])}}, true
	case "ltx.ChecksumPage":
		vc.crcFun()
		a := env.coerce(argv[0], types.Typ[types.Uint32])
		data := argv[1]
		h := vc.heapGet(env.st, vc.classSlice(types.Typ[types.Byte], ""), SortArr(SortRef, SortArr(SortBV(64), SortBV(8))))
		raw := app("gv_crc64", a.Ts[0], Sel(h, data.Ts[0]), data.Ts[1], data.Ts[2])
		ct := vc.E.namedType("github.com/superfly/ltx", "Checksum")
		return Val{Typ: ct, Ts: []T{app("bvor", raw, BVu(1<<63, 64))}}, true
	}
	// module functions with a `pure` contract or small bodies could be supported by inlining; not needed so far
	return Val{}, false
}

// errorsAsTerms: (errors.As(err, *T) succeeds, the value it finds) as uninterpreted functions of the error value and T.
func (vc *VC) errorsAsTerms(errv Val, tt types.Type) (T, T) {
	vc.declareFun("gv_errors_as", []string{SortBV(64), SortRef, SortBV(64)}, SortBool)
	vc.declareFun("gv_errors_as_val", []string{SortBV(64), SortRef, SortBV(64)}, SortRef)
	id := vc.E.TypeID(tt)
	okT := app("gv_errors_as", errv.Ts[0], errv.Ts[1], id)
	found := app("gv_errors_as_val", errv.Ts[0], errv.Ts[1], id)
	key := okT
	if !vc.subSeen[key] {
		vc.subSeen[key] = true
		parts := []T{
			Imp(Eq(errv.Ts[0], BV(0, 64)), Not(okT)),
			Imp(okT, Not(Eq(found, BV(0, 64)))),
		}
		if isPointerLike(tt) {
			parts = append(parts, Imp(And(Eq(errv.Ts[0], id), Not(Eq(errv.Ts[1], BV(0, 64)))), And(okT, Eq(found, errv.Ts[1]))))
		} else {
			parts = append(parts, Imp(Eq(errv.Ts[0], id), okT))
		}
		vc.assume(True, And(parts...))
	}
	return okT, found
}
