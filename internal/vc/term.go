package vc

import (
	"fmt"
	"math/big"
	"strings"
)

// T is an SMT-LIB2 term in concrete syntax.
type T = string

const (
	True  T = "true"
	False T = "false"
)

const SortBool = "Bool"

func SortBV(n int) string { return fmt.Sprintf("(_ BitVec %d)", n) }

var SortRef = SortBV(64)

func SortArr(k, v string) string { return "(Array " + k + " " + v + ")" }

// bvWidth returns the width of a (_ BitVec n) sort or 0.
func bvWidth(sort string) int {
	var n int
	if _, err := fmt.Sscanf(sort, "(_ BitVec %d)", &n); err == nil {
		return n
	}
	return 0
}

func BV(v int64, w int) T {
	return BVBig(big.NewInt(v), w)
}

func BVu(v uint64, w int) T {
	return BVBig(new(big.Int).SetUint64(v), w)
}

func BVBig(v *big.Int, w int) T {
	m := new(big.Int).Lsh(big.NewInt(1), uint(w))
	x := new(big.Int).Mod(v, m)
	if x.Sign() < 0 {
		x.Add(x, m)
	}
	return fmt.Sprintf("(_ bv%s %d)", x.String(), w)
}

func app(op string, args ...T) T {
	return "(" + op + " " + strings.Join(args, " ") + ")"
}

func Not(a T) T {
	switch a {
	case True:
		return False
	case False:
		return True
	}
	if strings.HasPrefix(a, "(not ") && balancedTail(a[5:len(a)-1]) {
		return a[5 : len(a)-1]
	}
	return "(not " + a + ")"
}

// balancedTail reports whether s is one complete term (so that "(not s)" was the whole of a).
func balancedTail(s string) bool {
	depth := 0
	for i := 0; i < len(s); i++ {
		switch s[i] {
		case '(':
			depth++
		case ')':
			depth--
			if depth == 0 && i != len(s)-1 {
				return false
			}
			if depth < 0 {
				return false
			}
		case ' ':
			if depth == 0 {
				return false
			}
		case '|':
			// quoted symbol: skip
			j := strings.IndexByte(s[i+1:], '|')
			if j < 0 {
				return false
			}
			i += j + 1
		}
	}
	return depth == 0
}

func And(as ...T) T {
	var out []T
	seen := map[T]bool{}
	for _, a := range as {
		if a == True || a == "" {
			continue
		}
		if a == False {
			return False
		}
		if seen[a] {
			continue
		}
		seen[a] = true
		out = append(out, a)
	}
	switch len(out) {
	case 0:
		return True
	case 1:
		return out[0]
	}
	return app("and", out...)
}

func Or(as ...T) T {
	var out []T
	seen := map[T]bool{}
	for _, a := range as {
		if a == False || a == "" {
			continue
		}
		if a == True {
			return True
		}
		if seen[a] {
			continue
		}
		seen[a] = true
		out = append(out, a)
	}
	switch len(out) {
	case 0:
		return False
	case 1:
		return out[0]
	}
	return app("or", out...)
}

func Imp(a, b T) T {
	if a == True {
		return b
	}
	if a == False || b == True {
		return True
	}
	if b == False {
		return Not(a)
	}
	return app("=>", a, b)
}

func Eq(a, b T) T {
	if a == b {
		return True
	}
	if isConstTerm(a) && isConstTerm(b) {
		return False
	}
	return app("=", a, b)
}

func isConstTerm(a T) bool {
	return strings.HasPrefix(a, "(_ bv") || a == True || a == False
}

func Ite(c, a, b T) T {
	if c == True {
		return a
	}
	if c == False {
		return b
	}
	if a == b {
		return a
	}
	if a == True && b == False {
		return c
	}
	if a == False && b == True {
		return Not(c)
	}
	return app("ite", c, a, b)
}

func Sel(a, i T) T    { return app("select", a, i) }
func Sto(a, i, v T) T { return app("store", a, i, v) }

// smtName makes an identifier safe as an SMT-LIB simple symbol.
func smtName(s string) string {
	var b strings.Builder
	for _, r := range s {
		switch {
		case r >= 'a' && r <= 'z', r >= 'A' && r <= 'Z', r >= '0' && r <= '9', r == '_', r == '.', r == '$':
			b.WriteRune(r)
		case r == '*':
			b.WriteString("P")
		case r == '[':
			b.WriteString("L")
		case r == ']':
			b.WriteString("R")
		case r == '/':
			b.WriteString("_")
		default:
			b.WriteString("_")
		}
	}
	return b.String()
}
