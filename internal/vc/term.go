package vc

import (
	"fmt"
	"math/big"
	"strings"
)

// T is an SMT-LIB2 term in concrete syntax.
type T = string

const (
	True  T = "true"
	False T = "false"
)

const SortBool = "Bool"

func SortBV(n int) string { return fmt.Sprintf("(_ BitVec %d)", n) }

var SortRef = SortBV(64)

func SortArr(k, v string) string { return "(Array " + k + " " + v + ")" }

// bvWidth returns the width of a (_ BitVec n) sort or 0.
func bvWidth(sort string) int {
	var n int
	if _, err := fmt.Sscanf(sort, "(_ BitVec %d)", &n); err == nil {
		return n
	}
	return 0
}

func BV(v int64, w int) T {
	return BVBig(big.NewInt(v), w)
}

func BVu(v uint64, w int) T {
	return BVBig(new(big.Int).SetUint64(v), w)
}

func BVBig(v *big.Int, w int) T {
	m := new(big.Int).Lsh(big.NewInt(1), uint(w))
	x := new(big.Int).Mod(v, m)
	if x.Sign() < 0 {
		x.Add(x, m)
	}
	return fmt.Sprintf("(_ bv%s %d)", x.String(), w)
}

func app(op string, args ...T) T {
	return "(" + op + " " + strings.Join(args, " ") + ")"
}

func Not(a T) T {
	switch a {
	case True:
		return False
	case False:
		return True
	}
	if strings.HasPrefix(a, "(not ") && balancedTail(a[5:len(a)-1]) {
		return a[5 : len(a)-1]
	}
	return "(not " + a + ")"
}

// balancedTail reports whether s is one complete term (so that "(not s)" was the whole of a).
func balancedTail(s string) bool {
	depth := 0
	for i := 0; i < len(s); i++ {
		switch s[i] {
		case '(':
			depth++
		case ')':
			depth--
			if depth == 0 && i != len(s)-1 {
				return false
			}
			if depth < 0 {
				return false
			}
		case ' ':
			if depth == 0 {
				return false
			}
		case '|':
			// quoted symbol: skip
			j := strings.IndexByte(s[i+1:], '|')
			if j < 0 {
				return false
			}
			i += j + 1
		}
	}
	return depth == 0
}

func And(as ...T) T {
	var out []T
	seen := map[T]bool{}
	for _, a := range as {
		if a == True || a == "" {
			continue
		}
		if a == False {
			return False
		}
		if seen[a] {
			continue
		}
		seen[a] = true
		out = append(out, a)
	}
	switch len(out) {
	case 0:
		return True
	case 1:
		return out[0]
	}
	return app("and", out...)
}

func Or(as ...T) T {
	var out []T
	seen := map[T]bool{}
	for _, a := range as {
		if a == False || a == "" {
			continue
		}
		if a == True {
			return True
		}
		if seen[a] {
			continue
		}
		seen[a] = true
		out = append(out, a)
	}
	switch len(out) {
	case 0:
		return False
	case 1:
		return out[0]
	}
	return app("or", out...)
}

func Imp(a, b T) T {
	if a == True {
		return b
	}
	if a == False || b == True {
		return True
	}
	if b == False {
		return Not(a)
	}
	return app("=>", a, b)
}

func Eq(a, b T) T {
	if a == b {
		return True
	}
	if isConstTerm(a) && isConstTerm(b) {
		return False
	}
	if (isFreshAlloc(a) || isFreshAlloc(b) || strings.HasPrefix(a, "(gv_sub_") || strings.HasPrefix(b, "(gv_sub_")) && distinctTerms(a, b) {
		return False
	}
	return app("=", a, b)
}

func isConstTerm(a T) bool {
	return strings.HasPrefix(a, "(_ bv") || a == True || a == False
}

func Ite(c, a, b T) T {
	if c == True {
		return a
	}
	if c == False {
		return b
	}
	if a == b {
		return a
	}
	if a == True && b == False {
		return c
	}
	if a == False && b == True {
		return Not(c)
	}
	return app("ite", c, a, b)
}

// curDefs maps names introduced by VC.define to their defining terms (set per VC; generation is single-threaded).
var curDefs map[string]string

// Sel builds (select a i), resolving reads over syntactically known store chains.
func Sel(a, i T) T {
	cur := a
	for depth := 0; depth < 200; depth++ {
		t := cur
		if d, ok := curDefs[cur]; ok {
			t = d
		}
		if !strings.HasPrefix(t, "(store ") {
			break
		}
		args := splitArgs(t)
		if len(args) != 3 {
			break
		}
		if args[1] == i {
			return args[2]
		}
		if distinctTerms(args[1], i) {
			cur = args[0]
			continue
		}
		break
	}
	return app("select", cur, i)
}

// splitArgs returns the arguments of an application "(f a b c)".
func splitArgs(t string) []string {
	if len(t) < 2 || t[0] != '(' {
		return nil
	}
	s := t[1 : len(t)-1]
	var parts []string
	depth := 0
	start := -1
	for i := 0; i < len(s); i++ {
		c := s[i]
		switch c {
		case '(':
			if depth == 0 && start < 0 {
				start = i
			}
			depth++
		case ')':
			depth--
			if depth == 0 {
				parts = append(parts, s[start:i+1])
				start = -1
			}
		case ' ':
			if depth == 0 && start >= 0 {
				parts = append(parts, s[start:i])
				start = -1
			}
		default:
			if depth == 0 && start < 0 {
				start = i
			}
		}
	}
	if start >= 0 {
		parts = append(parts, s[start:])
	}
	if len(parts) == 0 {
		return nil
	}
	return parts[1:]
}

func isLiteral(t string) bool { return strings.HasPrefix(t, "(_ bv") }

func isFreshAlloc(t string) bool { return strings.HasPrefix(t, "a!") }

// distinctTerms reports whether two reference/index terms are different in every model that satisfies
// the facts the engine always emits (fresh allocations are non-nil and were not alive before; by-value
// nested fields get injective, tagged derived references).
func distinctTerms(x, y string) bool {
	if x == y {
		return false
	}
	if isLiteral(x) && isLiteral(y) {
		return true
	}
	if isFreshAlloc(x) && isFreshAlloc(y) {
		return true
	}
	if (isFreshAlloc(x) && (isLiteral(y) || strings.HasPrefix(y, "p_"))) || (isFreshAlloc(y) && (isLiteral(x) || strings.HasPrefix(x, "p_"))) {
		return true
	}
	// a reference read from the initial heap denotes an object that existed at entry (or nil): never a fresh allocation
	// nor a by-value part of one
	if isInitialLoad(x) && (isFreshAlloc(y) || (strings.HasPrefix(y, "(gv_sub_") && isFreshAlloc(subRoot(y)))) {
		return true
	}
	if isInitialLoad(y) && (isFreshAlloc(x) || (strings.HasPrefix(x, "(gv_sub_") && isFreshAlloc(subRoot(x)))) {
		return true
	}
	// a by-value part of an object that exists (parameter) or was allocated here is never a later/other fresh allocation
	if isFreshAlloc(x) && strings.HasPrefix(y, "(gv_sub_") {
		if r := subRoot(y); isFreshAlloc(r) || strings.HasPrefix(r, "p_") {
			return true
		}
	}
	if isFreshAlloc(y) && strings.HasPrefix(x, "(gv_sub_") {
		if r := subRoot(x); isFreshAlloc(r) || strings.HasPrefix(r, "p_") {
			return true
		}
	}
	if strings.HasPrefix(x, "(gv_sub_") && strings.HasPrefix(y, "(gv_sub_") {
		fx, fy := x[1:strings.IndexByte(x, ' ')], y[1:strings.IndexByte(y, ' ')]
		if fx != fy {
			return true
		}
		ax, ay := splitArgs(x), splitArgs(y)
		if len(ax) == 1 && len(ay) == 1 {
			return distinctTerms(ax[0], ay[0])
		}
		return false
	}
	// X + c1 vs X + c2, X vs X + c
	bx, cx := splitAddConst(x)
	by, cy := splitAddConst(y)
	if bx == by && cx != cy {
		return true
	}
	return false
}

func isInitialLoad(t string) bool { return strings.HasPrefix(t, "(select H0_") }

func subRoot(t string) string {
	for strings.HasPrefix(t, "(gv_sub_") {
		a := splitArgs(t)
		if len(a) != 1 {
			return t
		}
		t = a[0]
	}
	return t
}

// splitAddConst decomposes "(bvadd X (_ bvC w))" into (X, C); other terms give (t, "0").
func splitAddConst(t string) (string, string) {
	if strings.HasPrefix(t, "(bvadd ") {
		args := splitArgs(t)
		if len(args) == 2 {
			if isLiteral(args[1]) {
				return args[0], litValue(args[1])
			}
			if isLiteral(args[0]) {
				return args[1], litValue(args[0])
			}
		}
	}
	if isLiteral(t) {
		return "", litValue(t)
	}
	return t, "0"
}

func litValue(t string) string {
	// "(_ bvN w)" -> N
	s := strings.TrimPrefix(t, "(_ bv")
	if k := strings.IndexByte(s, ' '); k >= 0 {
		return s[:k]
	}
	return s
}
func Sto(a, i, v T) T { return app("store", a, i, v) }

// smtName makes an identifier safe as an SMT-LIB simple symbol.
func smtName(s string) string {
	var b strings.Builder
	for _, r := range s {
		switch {
		case r >= 'a' && r <= 'z', r >= 'A' && r <= 'Z', r >= '0' && r <= '9', r == '_', r == '.', r == '$':
			b.WriteRune(r)
		case r == '*':
			b.WriteString("P")
		case r == '[':
			b.WriteString("L")
		case r == ']':
			b.WriteString("R")
		case r == '/':
			b.WriteString("_")
		default:
			b.WriteString("_")
		}
	}
	return b.String()
}
