package vc

import (
	"fmt"
	"go/token"
	"go/types"
	"os"
	"sort"
	"strings"

	"golang.org/x/tools/go/ssa"
)

// VerifyFunction generates all obligations of one function under its contract.
func (e *Engine) VerifyFunction(fn *ssa.Function, fc *FuncContract) (vc *VC) {
	vc = NewVC(e, fn)
	curDefs = vc.defs
	vc.RootFC = fc
	defer func() {
		if r := recover(); r != nil {
			if os.Getenv("GOVC_PANIC") != "" {
				panic(r)
			}
			vc.Fatal = fmt.Sprintf("engine panic in %s: %v", FuncKey(fn), r)
		}
	}()
	if fn.Blocks == nil {
		vc.Fatal = "function has no body"
		return vc
	}
	fr := vc.newFrame(fn, nil)
	fr.isRoot = true
	fr.fc = fc
	vc.rootFrame = fr
	fr.nopanic = fc.Has("nopanic")
	vc.NoPanic = fr.nopanic
	fr.tags = fc.Tags
	key := FuncKey(fn)

	st := vc.newState()
	var watch []WatchTerm
	for _, p := range fn.Params {
		v := vc.freshVal("p_"+p.Name(), p.Type())
		fr.regs[p] = v
		fr.assumeAlive(st, True, v)
		for i, t := range v.Ts {
			ls := e.leavesOf(p.Type())
			watch = append(watch, WatchTerm{p.Name() + ls[i].Path, t})
		}
	}
	for _, fv := range fn.FreeVars {
		v := vc.freshVal("fv_"+fv.Name(), fv.Type())
		// a captured variable is a live cell: its address is never nil, and contract names denote its content
		if pt, ok := fv.Type().Underlying().(*types.Pointer); ok && len(v.Ts) == 1 {
			vc.assume(True, Not(Eq(v.Ts[0], BV(0, 64))))
			fr.assumeAlive(st, True, v)
			v.Addr = &Addr{Kind: aCell, Typ: pt.Elem(), Ref: v.Ts[0]}
		}
		fr.bindings = append(fr.bindings, v)
	}
	// ghost locals
	for _, c := range fc.Of("ghost") {
		t, err := e.resolveType(fnPkgName(fn), c.GhostType)
		if err != nil {
			vc.contractError(c, err)
			continue
		}
		vc.ghostTypes[c.GhostName] = t
		if c.GhostInit != nil {
			env := fr.contractEnv(st, True)
			v, err := env.eval(c.GhostInit)
			if err != nil {
				vc.contractError(c, err)
				st.ghost[c.GhostName] = vc.freshVal("g_"+c.GhostName, t).Ts
				continue
			}
			v = env.coerce(v, t)
			st.ghost[c.GhostName] = v.Ts
		} else {
			st.ghost[c.GhostName] = vc.freshVal("g_"+c.GhostName, t).Ts
		}
	}
	fr.entry = st.clone()
	// preconditions
	var reqs []T
	for _, c := range fc.Of("requires") {
		env := fr.contractEnv(st, True)
		g, err := env.evalBool(c.Expr)
		if err != nil {
			vc.contractError(c, err)
			continue
		}
		vc.assume(True, g)
		reqs = append(reqs, g)
	}
	for _, c := range fc.Of("assume") {
		env := fr.contractEnv(st, True)
		g, err := env.evalBool(c.Expr)
		if err != nil {
			vc.contractError(c, err)
			continue
		}
		vc.assume(True, g)
		vc.UsedAssumed["assume clause in "+key+": "+c.Text] = true
	}
	if len(reqs) > 0 {
		o := vc.oblige("cover", key+"/cover/requires", fc.Tags, True, True, fn.Pos(), "the precondition is satisfiable")
		o.Cover = true
	}
	fr.run(st, True)
	if vc.Fatal != "" {
		return vc
	}
	// every `on call` clause must match at least one call site (a hook that never fires silently proves nothing)
	for _, c := range fc.Clauses {
		if b, isLit := c.Expr.(*EBool); isLit && !b.Val {
			continue // `assert false` = "never called": matching nothing is the point
		}
		if c.Kind == "oncall" && !vc.hookMatched[c] {
			vc.contractError(c, fmt.Errorf("`on call %s` matches no call reached in %s (renamed callee? use -dump KEY -calls)", c.Callee, key))
		}
	}
	// postconditions at every return
	ensures := append(fc.Of("ensures"), fc.Of("proves")...)
	onret := fc.Of("onreturn")
	sig := fn.Signature
	var exitPCs []T
	if fc.Has("mergeexits") {
		fr.mergeExits()
	}
	for k, ex := range fr.exits {
		exitPCs = append(exitPCs, ex.pc)
		if len(fr.exits) > 1 && len(fr.exits) <= 80 {
			ec := vc.oblige("cover", fmt.Sprintf("%s/cover/exit", key), fc.Tags, ex.pc, True, ex.pos, fmt.Sprintf("return #%d is reachable", k+1))
			ec.Cover = true
			ec.ExitCover = true
		}
		env := fr.contractEnv(ex.st, ex.pc)
		var res Val
		var rt types.Type
		switch sig.Results().Len() {
		case 0:
		case 1:
			res = ex.rets[0]
			rt = sig.Results().At(0).Type()
		default:
			res = Val{Typ: sig.Results(), Tuple: ex.rets}
			rt = sig.Results()
		}
		env.bindResults(fn, rt, res)
		for i, c := range ensures {
			gs, err := env.evalConjuncts(c.Expr)
			if err != nil {
				vc.contractError(c, err)
				continue
			}
			for j, g := range gs {
				name := fmt.Sprintf("%s/ensures#%d", key, i+1)
				if len(gs) > 1 {
					name = fmt.Sprintf("%s/ensures#%d.%d", key, i+1, j+1)
				}
				o := vc.oblige("ensures", name, c.Tags, ex.pc, g, ex.pos, c.Text)
				o.Watch = watch
			}
		}
		for _, c := range onret {
			if c.Expr == nil {
				continue
			}
			g, err := env.evalBool(c.Expr)
			if err != nil {
				vc.contractError(c, err)
				continue
			}
			vc.oblige("protocol", fmt.Sprintf("%s/return/assert", key), c.Tags, ex.pc, g, ex.pos, c.Text)
		}
		if fc.Has("modifies") {
			fr.frameCheck(fc, ex, env)
		}
	}
	if len(exitPCs) > 0 {
		o := vc.oblige("cover", key+"/cover/return", fc.Tags, Or(exitPCs...), True, fn.Pos(), "some return is reachable under the precondition")
		o.Cover = true
		if len(o.Splits) == 0 && len(exitPCs) > 1 {
			o.Splits = exitPCs
		}
		// vacuity guard: `false` must not be provable at the returns (all facts, axioms included)
		mf := vc.oblige("mustfail", key+"/vacuity/false", fc.Tags, Or(exitPCs...), False, fn.Pos(), "`false` must not be provable under the precondition and assumed contracts")
		mf.MustFail = true
	}
	for _, o := range vc.Obls {
		if o.Watch == nil {
			o.Watch = watch
		}
	}
	return vc
}

func fnPkgName(fn *ssa.Function) string {
	if p := fnPackage(fn); p != nil {
		return p.Name()
	}
	return "litefs"
}

// frameCheck: nothing outside the `modifies` locations (and outside objects allocated by the call) changed.
func (fr *Frame) frameCheck(fc *FuncContract, ex exitPoint, env *Env) {
	fr.frameObligations(fc.Of("modifies"), fr.entry, ex.st, ex.pc, FuncKey(fr.fn)+"/frame", ex.pos)
}

// frameObligations: between initSt and finalSt nothing outside the locations of the clauses (evaluated in initSt)
// and outside objects allocated since function entry changed.
func (fr *Frame) frameObligations(clauses []*Clause, initSt, finalSt *State, pc T, prefix string, pos token.Pos) {
	vc := fr.vc
	entryEnv := fr.contractEnv(initSt, True)
	type locInfo struct {
		class string
		ref   T
		whole bool // whole backing array / map
	}
	var locs []locInfo
	everything := false
	var tags []string
	for _, cl := range clauses {
		tags = unionTags(tags, cl.Tags)
		for _, loc := range cl.Locs {
			if c, ok := loc.(*ECall); ok {
				if id, ok := c.Fun.(*EIdent); ok {
					switch id.Name {
					case "everything":
						everything = true
						continue
					case "contents":
						v, err := entryEnv.eval(c.Args[0])
						if err != nil {
							vc.contractError(cl, err)
							continue
						}
						switch t := v.Typ.Underlying().(type) {
						case *types.Slice:
							locs = append(locs, locInfo{"S|" + vc.E.typeStr(t.Elem()), v.Ts[0], true})
						case *types.Map:
							locs = append(locs, locInfo{"M|" + vc.E.typeStr(v.Typ), v.Ts[0], true})
						}
						continue
					case "fields":
						v, err := entryEnv.eval(c.Args[0])
						if err != nil {
							vc.contractError(cl, err)
							continue
						}
						pt := v.Typ.Underlying().(*types.Pointer)
						locs = append(locs, locInfo{"F|" + vc.E.typeStr(pt.Elem()) + "|*", v.Ts[0], false})
						continue
					case "class":
						if s, ok := c.Args[0].(*EString); ok {
							locs = append(locs, locInfo{s.Val, "", true})
						}
						continue
					case "closed":
						v, err := entryEnv.eval(c.Args[0])
						if err != nil {
							vc.contractError(cl, err)
							continue
						}
						locs = append(locs, locInfo{vc.E.classChanClosed(v.Typ), v.Ts[0], false})
						continue
					}
				}
			}
			if id, ok := loc.(*EIdent); ok {
				if _, isGhost := initSt.ghost[id.Name]; isGhost {
					continue
				}
			}
			a, err := entryEnv.evalLoc(loc)
			if err != nil {
				vc.contractError(cl, err)
				continue
			}
			switch a.Kind {
			case aField:
				sty, _ := structOf(a.Struct)
				f := sty.Field(a.Idx)
				switch f.Type().Underlying().(type) {
				case *types.Struct:
					locs = append(locs, locInfo{"F|" + vc.E.typeStr(f.Type()) + "|*", vc.subRef(a.Struct, f.Name(), a.Ref), false})
				default:
					if vc.E.addrTaken[structKey(vc.E, a.Struct)+"|"+f.Name()] {
						locs = append(locs, locInfo{"C|" + vc.E.typeStr(f.Type()), vc.subRef(a.Struct, f.Name(), a.Ref), false})
					} else {
						locs = append(locs, locInfo{"F|" + vc.E.typeStr(a.Struct) + "|" + f.Name(), a.Ref, false})
					}
				}
			case aCell:
				if _, ok := structOf(a.Typ); ok {
					locs = append(locs, locInfo{"F|" + vc.E.typeStr(a.Typ) + "|*", a.Ref, false})
				} else {
					locs = append(locs, locInfo{"C|" + vc.E.typeStr(a.Typ), a.Ref, false})
				}
			case aElem:
				locs = append(locs, locInfo{"S|" + vc.E.typeStr(a.Typ), a.Base, true})
			case aGhost:
				locs = append(locs, locInfo{"G|" + a.GhostKey, a.Ref, false})
			}
		}
	}
	if everything {
		return
	}
	var classes []string
	for c := range vc.classSort {
		classes = append(classes, c)
	}
	sort.Strings(classes)
	r := vc.fresh("frame_r", SortRef)
	for _, class := range classes {
		srt := vc.classSort[class]
		final := vc.heapGet(finalSt, class, srt)
		init := vc.heapGet(initSt, class, srt)
		if final == init {
			continue
		}
		var allowed []T
		skip := false
		for _, l := range locs {
			if matchClass(l.class, class) {
				if l.ref == "" {
					skip = true
					break
				}
				allowed = append(allowed, Eq(r, l.ref))
			}
		}
		if skip {
			continue
		}
		// objects allocated during the call may be written freely
		allowed = append(allowed, Not(Sel("alive0", r)))
		goal := Or(append(allowed, Eq(Sel(final, r), Sel(init, r)))...)
		vc.oblige("frame", fmt.Sprintf("%s/%s", prefix, className(class)), tags, pc, goal, pos, "only the locations in `modifies` change: "+class)
	}
}

func className(class string) string {
	return strings.ReplaceAll(class, "|", ":")
}

// VerifyLemma emits the proof obligation of a (non-trusted) lemma.
func (e *Engine) VerifyLemma(ld *LemmaDef) *VC {
	var anyFn *ssa.Function
	for _, f := range e.funcByKey {
		if f.Blocks != nil && e.fnInModule(f) {
			anyFn = f
			break
		}
	}
	vc := NewVC(e, anyFn)
	curDefs = vc.defs
	vc.RootKey = "lemma." + ld.Pkg + "." + ld.Name
	st := vc.newState()
	env := &Env{vc: vc, st: st, old: st, pc: True, vars: map[string]Val{}, pkg: ld.Pkg}
	for _, p := range ld.Params {
		t, err := e.resolveType(ld.Pkg, p.Type)
		if err != nil {
			vc.Fatal = err.Error()
			return vc
		}
		ls := vc.leavesOfGhost(t)
		ts := make([]T, len(ls))
		for i, l := range ls {
			ts[i] = vc.fresh("l_"+p.Name+l.Path, l.Sort)
		}
		env.vars[p.Name] = Val{Typ: t, Ts: ts}
	}
	g, err := env.evalBool(ld.Body)
	if err != nil {
		vc.Fatal = fmt.Sprintf("lemma %s: %v", ld.Name, err)
		return vc
	}
	vc.oblige("lemma", vc.RootKey, ld.Tags, True, g, token.NoPos, "lemma "+ld.Name)
	return vc
}

// mergeExits joins all returns into one exit (postconditions are then checked once on the merged state).
func (fr *Frame) mergeExits() {
	vc := fr.vc
	if len(fr.exits) <= 1 {
		return
	}
	var conds []T
	var sts []*State
	for _, ex := range fr.exits {
		conds = append(conds, ex.pc)
		sts = append(sts, ex.st)
	}
	merged := vc.mergeStates(conds, sts)
	pc := vc.define("pc_exit", SortBool, Or(conds...))
	if vc.pcSplits == nil {
		vc.pcSplits = map[string][]T{}
	}
	vc.pcSplits[pc] = conds
	n := len(fr.exits[0].rets)
	rets := make([]Val, n)
	for i := 0; i < n; i++ {
		t := fr.exits[0].rets[i].Typ
		ls := vc.E.leavesOf(t)
		out := make([]T, len(ls))
		for li := range ls {
			tm := fr.exits[len(fr.exits)-1].rets[i].Ts[li]
			for k := len(fr.exits) - 2; k >= 0; k-- {
				tm = Ite(fr.exits[k].pc, fr.exits[k].rets[i].Ts[li], tm)
			}
			out[li] = vc.define("ret", ls[li].Sort, tm)
		}
		rets[i] = Val{Typ: t, Ts: out}
	}
	fr.exits = []exitPoint{{pc: pc, st: merged, rets: rets, pos: fr.exits[0].pos}}
}
