package vc

import (
	"fmt"
	"go/token"
	"go/types"
	"os"
	"sort"
	"strings"

	"golang.org/x/tools/go/ssa"
)

// ---------------------------------------------------------------------------
// Mod-sets: which heap classes a piece of code may write.
//
// Entries: "*" (anything) | "F|T|f" (field f of struct T, every leaf) | "F|T|*" | "S|T" | "C|T" | "M|T".

func matchClass(entry, class string) bool {
	if entry == "*" {
		return true
	}
	if strings.HasSuffix(entry, "|*") {
		return strings.HasPrefix(class, entry[:len(entry)-1])
	}
	return class == entry || strings.HasPrefix(class, entry+".") || strings.HasPrefix(class, entry+"|")
}

func (e *Engine) addStructAll(ms map[string]bool, t types.Type, depth int) {
	sty, ok := structOf(t)
	if !ok || depth > 6 {
		return
	}
	ms["F|"+e.typeStr(t)+"|*"] = true
	for i := 0; i < sty.NumFields(); i++ {
		ft := sty.Field(i).Type()
		e.addTypeCells(ms, ft, depth+1)
	}
}

// addTypeCells adds the classes written when a whole value of type t stored in a cell/field is overwritten.
func (e *Engine) addTypeCells(ms map[string]bool, t types.Type, depth int) {
	switch u := t.Underlying().(type) {
	case *types.Struct:
		e.addStructAll(ms, t, depth)
	case *types.Array:
		ms["S|"+e.typeStr(u.Elem())] = true
		e.addTypeCells(ms, u.Elem(), depth+1)
	}
}

// addStoreTarget records the classes written by a store through pointer value addr.
func (e *Engine) addStoreTarget(ms map[string]bool, addr ssa.Value, locals map[*ssa.Alloc]bool) {
	switch a := addr.(type) {
	case *ssa.FieldAddr:
		// local root?
		if root := allocRoot(a); root != nil && locals != nil && locals[root] {
			return
		}
		pt := a.X.Type().Underlying().(*types.Pointer)
		sty, _ := structOf(pt.Elem())
		f := sty.Field(a.Field)
		switch f.Type().Underlying().(type) {
		case *types.Struct, *types.Array:
			e.addTypeCells(ms, f.Type(), 0)
			return
		}
		if e.addrTaken[structKey(e, pt.Elem())+"|"+f.Name()] {
			ms["C|"+e.typeStr(f.Type())] = true
			return
		}
		ms["F|"+e.typeStr(pt.Elem())+"|"+f.Name()] = true
	case *ssa.IndexAddr:
		if root := allocRoot(a); root != nil && locals != nil && locals[root] {
			return
		}
		var et types.Type
		switch xt := a.X.Type().Underlying().(type) {
		case *types.Slice:
			et = xt.Elem()
		case *types.Pointer:
			et = xt.Elem().Underlying().(*types.Array).Elem()
		}
		if et != nil {
			if _, ok := structOf(et); ok {
				e.addStructAll(ms, et, 0)
			} else {
				ms["S|"+e.typeStr(et)] = true
			}
		}
	default:
		if al, ok := addr.(*ssa.Alloc); ok && locals != nil && locals[al] {
			return
		}
		pt, ok := addr.Type().Underlying().(*types.Pointer)
		if !ok {
			ms["*"] = true
			return
		}
		t := pt.Elem()
		switch t.Underlying().(type) {
		case *types.Struct, *types.Array:
			e.addTypeCells(ms, t, 0)
		default:
			ms["C|"+e.typeStr(t)] = true
		}
	}
}

func allocRoot(v ssa.Value) *ssa.Alloc {
	for i := 0; i < 10; i++ {
		switch x := v.(type) {
		case *ssa.Alloc:
			return x
		case *ssa.FieldAddr:
			v = x.X
		case *ssa.IndexAddr:
			v = x.X
		default:
			return nil
		}
	}
	return nil
}

// pointeeEffects: classes an unknown external callee may write through an argument of type t.
func (e *Engine) pointeeEffects(ms map[string]bool, t types.Type) {
	switch u := t.Underlying().(type) {
	case *types.Pointer:
		el := u.Elem()
		switch el.Underlying().(type) {
		case *types.Struct, *types.Array:
			e.addTypeCells(ms, el, 0)
		default:
			ms["C|"+e.typeStr(el)] = true
		}
	case *types.Slice:
		if _, ok := structOf(u.Elem()); ok {
			e.addStructAll(ms, u.Elem(), 0)
		} else {
			ms["S|"+e.typeStr(u.Elem())] = true
		}
	case *types.Map:
		ms["M|"+e.typeStr(t)] = true
	}
}

// ModSet computes (and caches) the classes fn may write, transitively.
func (e *Engine) ModSet(fn *ssa.Function) map[string]bool {
	if ms, ok := e.modsets[fn]; ok {
		return ms
	}
	if e.modsetBusy[fn] {
		return map[string]bool{} // recursion: fixpoint approximated by the outer computation
	}
	e.modsetBusy[fn] = true
	ms := map[string]bool{}
	if fn.Blocks == nil {
		// external without body: effects only through arguments
		sig := fn.Signature
		if sig.Recv() != nil {
			e.pointeeEffects(ms, sig.Recv().Type())
		}
		for i := 0; i < sig.Params().Len(); i++ {
			e.pointeeEffects(ms, sig.Params().At(i).Type())
		}
	} else if !e.fnInModule(fn) {
		// external with body (dependency): assume effects only through arguments (A-DEP)
		sig := fn.Signature
		if sig.Recv() != nil {
			e.pointeeEffects(ms, sig.Recv().Type())
		}
		for i := 0; i < sig.Params().Len(); i++ {
			e.pointeeEffects(ms, sig.Params().At(i).Type())
		}
	} else {
		// stores into objects this function allocates itself (its own escaping variables included) write fresh
		// memory: they cannot change any location that exists in the caller's state
		own := map[*ssa.Alloc]bool{}
		for _, b := range fn.Blocks {
			for _, ins := range b.Instrs {
				if a, ok := ins.(*ssa.Alloc); ok {
					own[a] = true
				}
			}
		}
		e.instrsModSet(ms, fn, fn.Blocks, own)
	}
	delete(e.modsetBusy, fn)
	e.modsets[fn] = ms
	return ms
}

func isNoEffectExternal(name string) bool {
	for _, p := range []string{"log.", "(*log.Logger).", "fmt.", "strings.", "strconv.", "errors.", "path/filepath.", "path.", "time.", "(time.", "(*time.", "math.", "math/", "(*sync.", "sync.", "context.", "(context.", "(*context.", "log/slog.", "(*log/slog.", "os.IsNotExist", "os.IsExist", "bytes.Equal", "bytes.Compare", "bytes.HasPrefix",
		"(*github.com/prometheus", "(github.com/prometheus", "github.com/prometheus", "(encoding/binary.bigEndian).Uint", "(encoding/binary.littleEndian).Uint", "github.com/superfly/ltx.Format", "github.com/superfly/ltx.Parse", "github.com/superfly/ltx.LockPgno", "github.com/superfly/ltx.ChecksumPage", "github.com/superfly/ltx.NewPos", "(github.com/superfly/ltx.", "sort.Search", "net/url.", "(*net/url.", "regexp.", "(*regexp.", "unicode", "os.Getenv", "expvar.", "(*expvar.", "(*sync/atomic."} {
		if strings.HasPrefix(name, p) {
			return true
		}
	}
	return false
}

func (e *Engine) instrsModSet(ms map[string]bool, fn *ssa.Function, blocks []*ssa.BasicBlock, locals map[*ssa.Alloc]bool) {
	for _, b := range blocks {
		for _, ins := range b.Instrs {
			e.instrsModSetOne(ms, fn, ins, locals)
		}
	}
}

func (e *Engine) instrsModSetOne(ms map[string]bool, fn *ssa.Function, ins ssa.Instruction, locals map[*ssa.Alloc]bool) {
	{
		{
			switch in := ins.(type) {
			case *ssa.Store:
				e.addStoreTarget(ms, in.Addr, locals)
			case *ssa.MapUpdate:
				ms["M|"+e.typeStr(in.Map.Type())] = true
			case *ssa.Call:
				e.callModSet(ms, &in.Call, locals)
			case *ssa.Defer:
				e.callModSet(ms, &in.Call, locals)
			case *ssa.Go:
				// concurrent context: not part of the sequential effect
			case *ssa.MakeClosure:
				// closure created here may run here (defer / direct call handled at the call), or later; include its effects
				cfn := in.Fn.(*ssa.Function)
				ownFV := map[*ssa.FreeVar]bool{}
				for i, b := range in.Bindings {
					if a, ok := b.(*ssa.Alloc); ok && locals[a] && i < len(cfn.FreeVars) {
						ownFV[cfn.FreeVars[i]] = true
					}
				}
				if len(ownFV) == 0 {
					for k := range e.ModSet(cfn) {
						ms[k] = true
					}
					break
				}
				// atomic operations of the closure on captured variables that are this function's own allocations
				// (`var v atomic.Value`) write fresh memory, like direct stores into own allocations
				cown := map[*ssa.Alloc]bool{}
				for _, b := range cfn.Blocks {
					for _, ci := range b.Instrs {
						if a, ok := ci.(*ssa.Alloc); ok {
							cown[a] = true
						}
					}
				}
				for _, b := range cfn.Blocks {
					for _, ci := range b.Instrs {
						if cc, ok := ci.(*ssa.Call); ok {
							if cal := cc.Call.StaticCallee(); cal != nil && strings.HasPrefix(cal.String(), "(*sync/atomic.") && len(cc.Call.Args) > 0 {
								if fv := freeVarRoot(cc.Call.Args[0]); fv != nil && ownFV[fv] {
									continue
								}
							}
						}
						e.instrsModSetOne(ms, cfn, ci, cown)
					}
				}
			}
		}
	}
}

func (e *Engine) callModSet(ms map[string]bool, c *ssa.CallCommon, locals map[*ssa.Alloc]bool) {
	if b, ok := c.Value.(*ssa.Builtin); ok {
		switch b.Name() {
		case "copy", "append":
			if len(c.Args) > 0 {
				if sl, ok := c.Args[0].Type().Underlying().(*types.Slice); ok {
					if _, isS := structOf(sl.Elem()); isS {
						e.addStructAll(ms, sl.Elem(), 0)
					} else {
						ms["S|"+e.typeStr(sl.Elem())] = true
					}
				}
			}
		case "delete", "clear":
			if len(c.Args) > 0 {
				e.pointeeEffects(ms, c.Args[0].Type())
			}
		case "close":
			if len(c.Args) > 0 {
				ms[e.classChanClosed(c.Args[0].Type())] = true
			}
		}
		return
	}
	if callee := c.StaticCallee(); callee != nil {
		if fc := e.Contracts[FuncKey(callee)]; fc != nil && fc.Has("pure") {
			return
		}
		if full := callee.String(); strings.HasPrefix(full, "(*sync/atomic.") && !strings.HasSuffix(full, ").Load") {
			// atomic cells are modelled as plain cells (externals.go): a Store/Swap/Add/CompareAndSwap writes that class
			// (not when the cell is a variable this function allocated itself: fresh memory)
			if len(c.Args) > 0 {
				if a := allocRoot(c.Args[0]); a != nil && locals[a] {
					return
				}
			}
			if strings.HasPrefix(full, "(*sync/atomic.Value).") {
				ms["C|"+e.typeStr(emptyIface)] = true
			} else if sig := callee.Signature; sig.Params().Len() > 0 {
				ms["C|atomic_"+e.typeStr(sig.Params().At(sig.Params().Len()-1).Type())] = true
			}
			return
		}
		if !e.fnInModule(callee) && isNoEffectExternal(callee.String()) {
			return
		}
		for k := range e.ModSet(callee) {
			ms[k] = true
		}
		if e.fnInModule(callee) {
			// function values passed to a module callee may be called by it (see the Parameter case below)
			e.funcArgEffects(ms, c)
		}
		if !e.fnInModule(callee) {
			// closures passed to external code may be run by it
			for _, a := range c.Args {
				if mc, ok := a.(*ssa.MakeClosure); ok {
					for k := range e.ModSet(mc.Fn.(*ssa.Function)) {
						ms[k] = true
					}
				}
			}
		}
		return
	}
	if c.IsInvoke() {
		if nm := (*Frame)(nil).callName(c, nil); strings.HasPrefix(nm, "binary.ByteOrder.Uint") || strings.HasPrefix(nm, "binary.ByteOrder.String") {
			return // built-in model: reads only
		}
		// an interface method with a `pure` contract (litefs.OS.*, Invalidator.*, Client.*) has no heap effect, as at call sites
		if fc := e.contractFor((*Frame)(nil).callName(c, nil)); fc != nil && fc.Has("pure") {
			return
		}
		impls := e.implementers(c.Value.Type(), c.Method)
		for _, f := range impls {
			for k := range e.ModSet(f) {
				ms[k] = true
			}
		}
		// arguments may be written by an external implementation
		for _, a := range c.Args {
			e.pointeeEffects(ms, a.Type())
		}
		return
	}
	// dynamic function value
	if mc, ok := c.Value.(*ssa.MakeClosure); ok {
		for k := range e.ModSet(mc.Fn.(*ssa.Function)) {
			ms[k] = true
		}
		return
	}
	// a function-valued struct field with a `pure` contract (e.g. field.DB.Now) has no effect, as at call sites
	if fc := e.contractFor((*Frame)(nil).callName(c, nil)); fc != nil && fc.Has("pure") {
		return
	}
	if p := c.Value.Parent(); p != nil {
		if fc := e.Contracts[FuncKey(p)]; fc != nil {
			for _, cl := range fc.Clauses {
				if cl.Kind == "calleepure" && nameMatches(cl.Callee, (*Frame)(nil).callName(c, nil)) {
					return
				}
			}
		}
	}
	// process exit through a function-valued field (Store.Exit): does not return, as at call sites
	if strings.HasSuffix((*Frame)(nil).callName(c, nil), ".Exit") {
		return
	}
	// a context.CancelFunc only cancels its context
	if n, ok := c.Value.Type().(*types.Named); ok && n.Obj().Pkg() != nil && n.Obj().Pkg().Path() == "context" && n.Obj().Name() == "CancelFunc" {
		return
	}
	if os.Getenv("GOVC_DEBUG_MODSET") != "" {
		fmt.Fprintf(os.Stderr, "modset *: dynamic call %s in %s\n", c.Value, c.Value.Parent())
	}
	// mirror the executor (doCallWith): contracts on function-valued fields, process exit, context cancel functions
	name := (*Frame)(nil).callName(c, nil)
	if fc := e.contractFor(name); fc != nil && fc.Has("pure") {
		return
	}
	if strings.HasSuffix(name, ".Exit") || isContextCancel(c.Value) {
		return
	}
	// a function-typed parameter: its effects are accounted for where the function value is passed (funcArgEffects)
	if _, ok := c.Value.(*ssa.Parameter); ok {
		return
	}
	if os.Getenv("GOVC_DUMP_MODSET") != "" {
		fmt.Fprintf(os.Stderr, "modset *: dynamic call %s at %s\n", c.Value.String(), e.Fset.Position(c.Pos()))
	}
	ms["*"] = true
}

// funcArgEffects adds the effects of the function-typed arguments of a call to a module function: the callee may
// call them. Closures and named functions contribute their mod-set, nil nothing, a parameter of the enclosing
// function is accounted for at that function's own call sites; anything else is unknown code.
func (e *Engine) funcArgEffects(ms map[string]bool, c *ssa.CallCommon) {
	for _, a := range c.Args {
		if _, ok := a.Type().Underlying().(*types.Signature); !ok {
			continue
		}
		switch v := a.(type) {
		case *ssa.MakeClosure:
			for k := range e.ModSet(v.Fn.(*ssa.Function)) {
				ms[k] = true
			}
		case *ssa.Function:
			for k := range e.ModSet(v) {
				ms[k] = true
			}
		case *ssa.Const, *ssa.Parameter:
		default:
			ms["*"] = true
		}
	}
}

// isContextCancel: the value is the cancel function returned by context.WithCancel/WithTimeout/WithDeadline(+Cause):
// calling it touches only the context package's own state.
func isContextCancel(v ssa.Value) bool {
	ex, ok := v.(*ssa.Extract)
	if !ok {
		return false
	}
	call, ok := ex.Tuple.(*ssa.Call)
	if !ok {
		return false
	}
	cal := call.Call.StaticCallee()
	return cal != nil && cal.Pkg != nil && cal.Pkg.Pkg.Path() == "context" && strings.HasPrefix(cal.Name(), "With")
}

// havocFuncArgs: executor side of funcArgEffects, for calls that are not inlined.
func (fr *Frame) havocFuncArgs(c *ssa.CallCommon, st *State) {
	ms := map[string]bool{}
	fr.vc.E.funcArgEffects(ms, c)
	for _, a := range c.Args {
		if mc, ok := a.(*ssa.MakeClosure); ok {
			fr.havocCaptured(&ssa.CallCommon{Value: mc}, st)
		}
	}
	fr.vc.havocClasses(st, ms)
}

// implementers lists module methods that implement the interface method (class-hierarchy analysis).
func (e *Engine) implementers(ifaceT types.Type, m *types.Func) []*ssa.Function {
	key := e.typeStr(ifaceT) + "." + m.Name()
	if r, ok := e.implCache[key]; ok {
		return r
	}
	var out []*ssa.Function
	iface, ok := ifaceT.Underlying().(*types.Interface)
	if ok {
		for _, p := range e.sortedModulePkgs() {
			scope := p.Types.Scope()
			for _, name := range scope.Names() {
				tn, ok := scope.Lookup(name).(*types.TypeName)
				if !ok {
					continue
				}
				for _, t := range []types.Type{tn.Type(), types.NewPointer(tn.Type())} {
					if _, isI := t.Underlying().(*types.Interface); isI {
						continue
					}
					if types.Implements(t, iface) {
						sel := e.Prog.MethodSets.MethodSet(t).Lookup(m.Pkg(), m.Name())
						if sel != nil {
							if f := e.Prog.MethodValue(sel); f != nil {
								out = append(out, f)
							}
						}
					}
				}
			}
		}
	}
	e.implCache[key] = out
	return out
}

// ---------------------------------------------------------------------------
// Havoc by mod-set

func (vc *VC) havocClasses(st *State, ms map[string]bool) {
	if len(ms) == 0 {
		return
	}
	if ms["*"] {
		vc.havocAll(st)
		return
	}
	var entries []string
	for k := range ms {
		entries = append(entries, k)
	}
	sort.Strings(entries)
	nb := vc.newEpoch()
	nb.parent = st.base
	nb.prefixes = entries
	st.base = nb
	for k := range st.heap {
		for _, en := range entries {
			if matchClass(en, k) {
				delete(st.heap, k)
				break
			}
		}
	}
}

// ---------------------------------------------------------------------------
// Loops

func (fr *Frame) loopBlocks(li *loopInfo) []*ssa.BasicBlock {
	var bs []*ssa.BasicBlock
	for b := range li.body {
		bs = append(bs, b)
	}
	sort.Slice(bs, func(i, j int) bool { return bs[i].Index < bs[j].Index })
	return bs
}

func (fr *Frame) localAllocSet() map[*ssa.Alloc]bool {
	m := map[*ssa.Alloc]bool{}
	for a := range fr.locals {
		m[a] = true
	}
	// allocs not yet executed (inside the loop) are local too if they qualify
	for _, b := range fr.fn.Blocks {
		for _, ins := range b.Instrs {
			if a, ok := ins.(*ssa.Alloc); ok && fr.vc.isLocalAlloc(a) {
				m[a] = true
			}
		}
	}
	return m
}

func (fr *Frame) enterLoop(li *loopInfo, b *ssa.BasicBlock, ins []edge, cur *State, pc T) *State {
	fr.curLoop = b
	defer func() { fr.curLoop = nil }()
	vc := fr.vc
	key := FuncKey(fr.fn)
	// 1. phi values on entry
	var phis []*ssa.Phi
	for _, instr := range b.Instrs {
		phi, ok := instr.(*ssa.Phi)
		if !ok {
			break
		}
		phis = append(phis, phi)
	}
	for _, phi := range phis {
		fr.regs[phi] = fr.evalPhi(phi, b, ins)
	}
	// 2. invariants hold on entry
	for i, c := range li.invs {
		env := fr.contractEnv(cur, pc)
		gs, err := env.evalConjuncts(c.Expr)
		if err != nil {
			vc.contractError(c, err)
			continue
		}
		for j, g := range gs {
			vc.oblige("loopinit", fmt.Sprintf("%s/loop%d/init#%d.%d", key, li.num, i+1, j+1), fr.loopTags(c.Tags), pc, g, b.Instrs[0].Pos(), c.Text)
		}
	}
	// 3. havoc everything the body may change
	blocks := fr.loopBlocks(li)
	locals := fr.localAllocSet()
	ms := map[string]bool{}
	vc.E.instrsModSet(ms, fr.fn, blocks, locals)
	// calls through a function-valued parameter that is bound to a statically known closure (inlined callee that
	// was passed a callback): the callback's effects belong to the loop body
	for _, blk := range blocks {
		for _, instr := range blk.Instrs {
			var cc *ssa.CallCommon
			switch in := instr.(type) {
			case *ssa.Call:
				cc = &in.Call
			case *ssa.Defer:
				cc = &in.Call
			}
			if cc == nil {
				continue
			}
			if p, ok := cc.Value.(*ssa.Parameter); ok {
				if v, ok := fr.regs[p]; ok && v.Clo != nil && v.Clo.Fn != nil {
					for k := range vc.E.ModSet(v.Clo.Fn) {
						ms[k] = true
					}
				}
			}
		}
	}
	st := cur.clone()
	if len(li.mods) > 0 {
		// user-supplied loop frame: only these locations change (checked at every back edge)
		env := fr.contractEnv(cur, pc)
		for _, c := range li.mods {
			for _, loc := range c.Locs {
				if err := env.havocLoc(loc, st); err != nil {
					vc.contractError(c, err)
				}
			}
		}
	} else {
		vc.havocClasses(st, ms)
	}
	// local cells stored in the body (directly or by closures created/called anywhere in the function that capture them and run in the body)
	for _, blk := range blocks {
		for _, instr := range blk.Instrs {
			switch in := instr.(type) {
			case *ssa.Store:
				if root := allocRoot(in.Addr); root != nil {
					if c := fr.locals[root]; c != nil {
						st.cells[c] = vc.freshVal("c_"+c.Name, c.Typ).Ts
					}
				}
			case *ssa.Call:
				fr.havocCaptured(&in.Call, st)
			case *ssa.Defer:
				fr.havocCaptured(&in.Call, st)
			}
		}
	}
	// ghost variables updated by on-call hooks inside the body: havoc all ghosts assigned by any hook (conservative)
	{
		for _, g := range fr.ghostAssignedIn(blocks) {
			if _, ok := st.ghost[g]; ok {
				st.ghost[g] = vc.freshLeavesGhostNamed("g_"+g, vc.ghostTypes[g])
			}
		}
		// the "keys produced so far" sets of map ranges iterated inside the body
		for _, blk := range blocks {
			for _, ins := range blk.Instrs {
				if nx, ok := ins.(*ssa.Next); ok && !nx.IsString {
					if rg, ok := nx.Iter.(*ssa.Range); ok {
						if g := vc.rangeGhost[rg]; g != "" {
							if _, has := st.ghost[g]; has {
								st.ghost[g] = vc.freshLeavesGhostNamed("g_"+g, fsetType)
							}
						}
					}
				}
			}
		}
	}
	for _, phi := range phis {
		fr.regs[phi] = vc.freshVal("phi_"+phi.Comment, phi.Type())
		fr.assumeAlive(st, pc, fr.regs[phi])
	}
	// 4. assume the invariants
	// A source name without a phi at the header that is (re)bound to a value computed inside the loop
	// (debug info) denotes, at the header, a value of some earlier iteration: it is unknown here, not the
	// value bound before the loop.
	fr.staleDbg = map[string]Val{}
	for _, blk := range blocks {
		for _, instr := range blk.Instrs {
			d, ok := instr.(*ssa.DebugRef)
			if !ok || d.IsAddr {
				continue
			}
			obj, ok := d.Object().(*types.Var)
			if !ok {
				continue
			}
			if di, ok := d.X.(ssa.Instruction); ok && di.Block() != nil && li.body[di.Block()] {
				if _, done := fr.staleDbg[obj.Name()]; !done {
					fr.staleDbg[obj.Name()] = vc.freshVal("stale_"+obj.Name(), d.X.Type())
				}
			}
		}
	}
	defer func() { fr.staleDbg = nil }()
	for _, c := range li.invs {
		env := fr.contractEnv(st, pc)
		g, err := env.evalBool(c.Expr)
		if err != nil {
			continue
		}
		vc.assume(pc, g)
	}
	if len(li.invs) == 0 && fr.isRoot {
		vc.imprecise("loop %d of %s has no invariant (treated as 'true')", li.num, key)
	}
	// 5. variants
	li.decVals = nil
	for _, c := range li.decs {
		env := fr.contractEnv(st, pc)
		v, err := env.eval(c.Expr)
		if err != nil || len(v.Ts) != 1 {
			vc.contractError(c, fmt.Errorf("bad variant: %v", err))
			li.decVals = append(li.decVals, "")
			continue
		}
		li.decVals = append(li.decVals, vc.define("variant", SortBV(intWidthOr64(v.Typ)), v.Ts[0]))
	}
	li.env0 = st
	return st
}

func intWidthOr64(t types.Type) int {
	if t == nil {
		return 64
	}
	if w := intWidth(t); w > 0 {
		return w
	}
	return 64
}

func (fr *Frame) havocCaptured(c *ssa.CallCommon, st *State) {
	vc := fr.vc
	var fn *ssa.Function
	var binds []ssa.Value
	if mc, ok := c.Value.(*ssa.MakeClosure); ok {
		fn = mc.Fn.(*ssa.Function)
		binds = mc.Bindings
	}
	if fn == nil {
		return
	}
	_ = fn
	for _, b := range binds {
		if root := allocRoot(b); root != nil {
			if cell := fr.locals[root]; cell != nil {
				st.cells[cell] = vc.freshVal("c_"+cell.Name, cell.Typ).Ts
			}
		}
	}
}

// freeVarRoot: the captured variable an address is derived from (nil if none).
func freeVarRoot(v ssa.Value) *ssa.FreeVar {
	for i := 0; i < 10; i++ {
		switch x := v.(type) {
		case *ssa.FreeVar:
			return x
		case *ssa.FieldAddr:
			v = x.X
		case *ssa.IndexAddr:
			v = x.X
		default:
			return nil
		}
	}
	return nil
}

// havocGo: a `go` statement starts a body that is not executed here. Its effects may become visible at any
// later point; they are over-approximated at the statement: every captured variable the body assigns (directly
// or through sync/atomic.Value.Store) and every heap class in the body's mod-set becomes arbitrary.
func (fr *Frame) havocGo(c *ssa.CallCommon, st *State) {
	vc := fr.vc
	mc, ok := c.Value.(*ssa.MakeClosure)
	if !ok {
		return
	}
	fn := mc.Fn.(*ssa.Function)
	// a goroutine body with its own contract (`//@ func pkg.F$N`) and a `modifies` frame: exactly those locations
	// become arbitrary (the frame is an obligation of the body's own verification). Names in the frame denote the
	// captured variables' values at the `go` statement.
	if fc := vc.E.Contracts[FuncKey(fn)]; fc != nil && len(fc.Of("modifies")) > 0 {
		env := fr.contractEnv(st, True)
		ok := true
		for i, b := range mc.Bindings {
			if i >= len(fn.FreeVars) {
				break
			}
			fv := fn.FreeVars[i]
			v := fr.get(b)
			if pt, isPtr := fv.Type().Underlying().(*types.Pointer); isPtr && !types.Identical(fv.Type(), b.Type()) {
				_ = pt
				ok = false // unexpected shape
			} else if _, isAlloc := b.(*ssa.Alloc); isAlloc {
				// captured by reference: the name denotes the variable's current content
				if pt, isPtr := b.Type().Underlying().(*types.Pointer); isPtr {
					v = vc.loadAddr(st, vc.addrOfPointer(v, pt.Elem()))
				}
			}
			env.vars[fv.Name()] = v
		}
		if ok {
			failed := false
			for _, cl := range fc.Of("modifies") {
				for _, loc := range cl.Locs {
					if err := env.havocLoc(loc, st); err != nil {
						vc.contractError(cl, err)
						failed = true
					}
				}
			}
			if !failed {
				vc.UsedAssumed["go statement: effects of "+FuncKey(fn)+" limited to its contract's `modifies` frame (checked with the body; interleavings not modelled, A-SEQ)"] = true
				return
			}
		}
	}
	pre := st.clone()
	written := map[*ssa.FreeVar]bool{}
	atomicW := map[*ssa.FreeVar]bool{}
	atomicT := map[*ssa.FreeVar][]types.Type{} // concrete types stored into a captured atomic.Value (nil entry: unknown)
	for _, b := range fn.Blocks {
		for _, ins := range b.Instrs {
			switch in := ins.(type) {
			case *ssa.Store:
				if fv := freeVarRoot(in.Addr); fv != nil {
					written[fv] = true
				}
			case *ssa.Call:
				if cal := in.Call.StaticCallee(); cal != nil && strings.HasPrefix(cal.String(), "(*sync/atomic.") && len(in.Call.Args) > 0 {
					if fv := freeVarRoot(in.Call.Args[0]); fv != nil {
						atomicW[fv] = true
						var ct types.Type
						if cal.String() == "(*sync/atomic.Value).Store" && len(in.Call.Args) == 2 {
							if mi, ok := in.Call.Args[1].(*ssa.MakeInterface); ok && !types.IsInterface(mi.X.Type()) {
								ct = mi.X.Type()
							}
						}
						atomicT[fv] = append(atomicT[fv], ct)
					}
				}
			}
		}
	}
	// what the goroutine body may write, except atomic operations on captured variables themselves
	// (`var v atomic.Value` of the spawning function): those are modelled individually below
	ms := map[string]bool{}
	{
		own := map[*ssa.Alloc]bool{}
		for _, b := range fn.Blocks {
			for _, ins := range b.Instrs {
				if a, ok := ins.(*ssa.Alloc); ok {
					own[a] = true
				}
			}
		}
		for _, b := range fn.Blocks {
			for _, ins := range b.Instrs {
				if in, ok := ins.(*ssa.Call); ok {
					if cal := in.Call.StaticCallee(); cal != nil && strings.HasPrefix(cal.String(), "(*sync/atomic.") && len(in.Call.Args) > 0 && freeVarRoot(in.Call.Args[0]) != nil {
						continue
					}
				}
				vc.E.instrsModSetOne(ms, fn, ins, own)
			}
		}
	}
	var later []goStore
	for i, b := range mc.Bindings {
		if i >= len(fn.FreeVars) {
			break
		}
		fv := fn.FreeVars[i]
		if !written[fv] && !atomicW[fv] {
			continue
		}
		if root := allocRoot(b); root != nil {
			if cell := fr.locals[root]; cell != nil {
				st.cells[cell] = vc.freshVal("go_"+cell.Name, cell.Typ).Ts
				continue
			}
		}
		if ts := atomicT[fv]; atomicW[fv] && !written[fv] && len(ts) == 1 && ts[0] != nil && types.Identical(fv.Type(), b.Type()) {
			if pt, ok := b.Type().Underlying().(*types.Pointer); ok && isAtomicValue(pt.Elem()) {
				// one atomic.Value.Store(x) with x of concrete type T: afterwards the cell holds its old content or some T
				ref := vc.materialize(fr.get(b))
				later = append(later, goStore{ref, ts[0], vc.loadAddr(st, &Addr{Kind: aCell, Typ: emptyIface, Ref: ref})})
				continue
			}
		}
		vc.E.pointeeEffects(ms, b.Type())
		if atomicW[fv] {
			ms["C|"+vc.E.typeStr(emptyIface)] = true
		}
	}
	vc.havocClasses(st, ms)
	for _, g := range later {
		a := &Addr{Kind: aCell, Typ: emptyIface, Ref: g.ref}
		oldv := g.old // the cell is reachable only through the captured variable: the mod-set havoc above does not concern it
		nv := vc.makeInterface(vc.freshVal("go_atomic", g.typ), g.typ, emptyIface)
		pick := vc.fresh("go_ran", SortBool)
		out := make([]T, len(nv.Ts))
		for i := range nv.Ts {
			out[i] = Ite(pick, nv.Ts[i], oldv.Ts[i])
		}
		vc.storeAddr(st, a, Val{Typ: emptyIface, Ts: out})
	}
	// guarantee conditions: the `ensures` clauses of the goroutine body's contract (two-state, old = the state at the
	// `go` statement) are assumed for the havocked state. Tagged clauses are obligations of the body's own
	// verification; untagged ones are listed as unchecked assumptions. (Intermediate states are not modelled: A-SEQ.)
	if fc := vc.E.Contracts[FuncKey(fn)]; fc != nil && len(fc.Of("ensures")) > 0 && pre != nil {
		env := fr.contractEnv(st, True)
		env.old = pre
		for i, b := range mc.Bindings {
			if i >= len(fn.FreeVars) {
				break
			}
			v := fr.get(b)
			if _, isAlloc := b.(*ssa.Alloc); isAlloc {
				if pt, isPtr := b.Type().Underlying().(*types.Pointer); isPtr {
					v = vc.loadAddr(st, vc.addrOfPointer(v, pt.Elem()))
				}
			}
			env.vars[fn.FreeVars[i].Name()] = v
		}
		for _, cl := range fc.Of("ensures") {
			g, err := env.evalBool(cl.Expr)
			if err != nil {
				vc.contractError(cl, err)
				continue
			}
			vc.assume(True, g)
			if len(cl.Tags) == 0 {
				vc.UsedAssumed["unchecked (untagged) guarantee of goroutine "+FuncKey(fn)+": "+cl.Expr.String()] = true
			}
		}
	}
}

type goStore struct {
	ref T
	typ types.Type
	old Val
}

func (fr *Frame) backEdge(from, to *ssa.BasicBlock, cond T, st *State) {
	fr.curLoop = to
	defer func() { fr.curLoop = nil }()
	vc := fr.vc
	li := fr.loops[to]
	if li == nil {
		return
	}
	key := FuncKey(fr.fn)
	// bind phis to the back-edge operands
	saved := map[*ssa.Phi]Val{}
	idx := -1
	for i, p := range to.Preds {
		if p == from {
			idx = i
		}
	}
	var phis []*ssa.Phi
	for _, instr := range to.Instrs {
		phi, ok := instr.(*ssa.Phi)
		if !ok {
			break
		}
		phis = append(phis, phi)
	}
	savedBlock := fr.curBlock
	fr.curBlock = to
	defer func() { fr.curBlock = savedBlock }()
	newVals := map[*ssa.Phi]Val{}
	for _, phi := range phis {
		v := fr.get(phi.Edges[idx])
		if v.Addr != nil {
			v = Val{Typ: phi.Type(), Ts: []T{vc.materialize(v)}}
		}
		newVals[phi] = v
	}
	for _, phi := range phis {
		saved[phi] = fr.regs[phi]
		fr.regs[phi] = newVals[phi]
	}
	pos := token.NoPos
	if len(from.Instrs) > 0 {
		pos = from.Instrs[len(from.Instrs)-1].Pos()
	}
	if !pos.IsValid() && len(to.Instrs) > 0 {
		pos = to.Instrs[0].Pos()
	}
	for i, c := range li.invs {
		env := fr.contractEnv(st, cond)
		gs, err := env.evalConjuncts(c.Expr)
		if err != nil {
			vc.contractError(c, err)
			continue
		}
		for j, g := range gs {
			vc.oblige("loopstep", fmt.Sprintf("%s/loop%d/step#%d.%d", key, li.num, i+1, j+1), fr.loopTags(c.Tags), cond, g, pos, c.Text)
		}
	}
	for i, c := range li.decs {
		if i >= len(li.decVals) || li.decVals[i] == "" {
			continue
		}
		env := fr.contractEnv(st, cond)
		v, err := env.eval(c.Expr)
		if err != nil {
			continue
		}
		w := intWidthOr64(v.Typ)
		old := li.decVals[i]
		// variant is bounded below by 0 and strictly decreases
		goal := And(app("bvsge", old, BV(0, w)), app("bvslt", v.Ts[0], old))
		if v.Typ != nil && isUnsigned(v.Typ) {
			goal = app("bvult", v.Ts[0], old)
		}
		vc.oblige("decreases", fmt.Sprintf("%s/loop%d/decreases#%d", key, li.num, i+1), fr.loopTags(c.Tags), cond, goal, pos, c.Text)
	}
	if len(li.mods) > 0 && li.env0 != nil {
		fr.frameObligations(li.mods, li.env0, st, cond, fmt.Sprintf("%s/loop%d/frame", key, li.num), pos)
	}
	for _, phi := range phis {
		fr.regs[phi] = saved[phi]
	}
}

// loopTags: obligations of loops inside inlined functions/closures count for the properties of the root
// function too (their own contract block may carry no tags, and would otherwise never be selected).
func (fr *Frame) loopTags(tags []string) []string {
	if fr.isRoot || fr.vc.RootFC == nil {
		return tags
	}
	return unionTags(tags, fr.vc.RootFC.Tags)
}

func (vc *VC) contractError(c *Clause, err error) {
	msg := fmt.Sprintf("contract error at %s (line %d): %v", c.Text, c.Line, err)
	for _, x := range vc.Dropped {
		if x == msg {
			return
		}
	}
	vc.Dropped = append(vc.Dropped, msg)
	vc.ContractErrors = append(vc.ContractErrors, msg)
}

// ghostAssignedIn: ghost variables updated by `on call` hooks that match a call inside the given blocks
// (transitively through inlinable module callees, conservatively by callee name).
func (fr *Frame) ghostAssignedIn(blocks []*ssa.BasicBlock) []string {
	vc := fr.vc
	if vc.RootFC == nil {
		return nil
	}
	names := map[string]bool{}
	seenFn := map[*ssa.Function]bool{}
	var scan func(bs []*ssa.BasicBlock, depth int)
	scan = func(bs []*ssa.BasicBlock, depth int) {
		for _, b := range bs {
			for _, ins := range b.Instrs {
				var c *ssa.CallCommon
				switch in := ins.(type) {
				case *ssa.Call:
					c = &in.Call
				case *ssa.Defer:
					c = &in.Call
				case *ssa.Go:
					c = &in.Call
				}
				if c == nil {
					continue
				}
				callee := c.StaticCallee()
				names[fr.callName(c, callee)+"\x00"+opConst(c)] = true
				if callee == nil {
					if mc, ok := c.Value.(*ssa.MakeClosure); ok {
						callee = mc.Fn.(*ssa.Function)
					}
				}
				if callee != nil && callee.Blocks != nil && vc.E.fnInModule(callee) && !seenFn[callee] && depth < 5 {
					seenFn[callee] = true
					scan(callee.Blocks, depth+1)
				}
			}
		}
	}
	scan(blocks, 0)
	seen := map[string]bool{}
	var out []string
	for _, cl := range vc.RootFC.Clauses {
		if cl.Kind != "oncall" || len(cl.Then) == 0 {
			continue
		}
		hit := false
		for nm := range names {
			k := strings.IndexByte(nm, 0)
			if nameMatches(cl.Callee, nm[:k]) && (cl.Op == "" || cl.Op == nm[k+1:]) {
				hit = true
				break
			}
		}
		if !hit {
			continue
		}
		for _, u := range cl.Then {
			if !seen[u.Name] {
				seen[u.Name] = true
				out = append(out, u.Name)
			}
		}
	}
	sort.Strings(out)
	return out
}

func (vc *VC) ghostAssigned() []string {
	var out []string
	if vc.RootFC == nil {
		return nil
	}
	seen := map[string]bool{}
	for _, c := range vc.RootFC.Clauses {
		for _, u := range c.Then {
			if !seen[u.Name] {
				seen[u.Name] = true
				out = append(out, u.Name)
			}
		}
	}
	sort.Strings(out)
	return out
}

func isAtomicValue(t types.Type) bool {
	n, ok := t.(*types.Named)
	return ok && n.Obj().Pkg() != nil && n.Obj().Pkg().Path() == "sync/atomic" && n.Obj().Name() == "Value"
}
