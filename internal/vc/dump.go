package vc

import (
	"fmt"
	"io"
	"sort"

	"golang.org/x/tools/go/ssa"
)

// DumpLoops prints the loop numbering of fn (the numbers `loop N` clauses refer to).
func DumpLoops(e *Engine, fn *ssa.Function, w io.Writer) {
	loops := findLoops(fn)
	var ls []*loopInfo
	for _, l := range loops {
		ls = append(ls, l)
	}
	sort.Slice(ls, func(i, j int) bool { return ls[i].num < ls[j].num })
	for _, l := range ls {
		pos := ""
		for _, in := range l.header.Instrs {
			if in.Pos().IsValid() {
				pos = e.Fset.Position(in.Pos()).String()
				break
			}
		}
		var phis []string
		for _, in := range l.header.Instrs {
			if p, ok := in.(*ssa.Phi); ok {
				phis = append(phis, p.Comment)
			}
		}
		fmt.Fprintf(w, "  loop %d: header block %d (%s) %s phis=%v blocks=%d\n", l.num, l.header.Index, l.header.Comment, pos, phis, len(l.body))
	}
}
