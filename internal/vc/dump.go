package vc

import (
	"fmt"
	"io"
	"os"
	"sort"

	"golang.org/x/tools/go/ssa"
)

// DumpLoops prints the loop numbering of fn (the numbers `loop N` clauses refer to).
func DumpLoops(e *Engine, fn *ssa.Function, w io.Writer) {
	loops := findLoops(fn)
	var ls []*loopInfo
	for _, l := range loops {
		ls = append(ls, l)
	}
	sort.Slice(ls, func(i, j int) bool { return ls[i].num < ls[j].num })
	for _, l := range ls {
		pos := ""
		for _, in := range l.header.Instrs {
			if in.Pos().IsValid() {
				pos = e.Fset.Position(in.Pos()).String()
				break
			}
		}
		var phis []string
		for _, in := range l.header.Instrs {
			if p, ok := in.(*ssa.Phi); ok {
				phis = append(phis, p.Comment)
			}
		}
		fmt.Fprintf(w, "  loop %d: header block %d (%s) %s phis=%v blocks=%d\n", l.num, l.header.Index, l.header.Comment, pos, phis, len(l.body))
	}
}

// DumpCalls prints every call site of fn with the name `on call` clauses match against.
func DumpCalls(e *Engine, fn *ssa.Function, w io.Writer) {
	{
		var ms []string
		for k := range e.ModSet(fn) {
			ms = append(ms, k)
		}
		sort.Strings(ms)
		fmt.Fprintf(w, "  modset: %v\n", ms)
	}
	vc := NewVC(e, fn)
	fr := vc.newFrame(fn, nil)
	for _, b := range fn.Blocks {
		for _, ins := range b.Instrs {
			var c *ssa.CallCommon
			kind := "call"
			switch in := ins.(type) {
			case *ssa.Call:
				c = &in.Call
			case *ssa.Defer:
				c = &in.Call
				kind = "defer"
			case *ssa.Go:
				c = &in.Call
				kind = "go"
			}
			if c == nil {
				continue
			}
			callee := c.StaticCallee()
			name := fr.callName(c, callee)
			op := opConst(c)
			how := "external/unmodelled"
			switch {
			case callee != nil && e.Contracts[FuncKey(callee)] != nil:
				how = "contract"
			case callee != nil && e.fnInModule(callee) && callee.Blocks != nil:
				how = "module (inline or mod-set havoc)"
			case e.contractFor(name) != nil:
				how = "contract"
			case callee != nil && isNoEffectExternal(callee.String()):
				how = "external, no effect"
			}
			if op != "" {
				op = " op=" + op
			}
			fmt.Fprintf(w, "  %-6s %-50s%s  [%s]  %s\n", kind, name, op, how, e.Fset.Position(ins.Pos()))
			if os.Getenv("GOVC_DUMP_MODSET") != "" && callee != nil && e.fnInModule(callee) {
				var ks []string
				for k := range e.ModSet(callee) {
					ks = append(ks, k)
				}
				sort.Strings(ks)
				fmt.Fprintf(w, "         modset(%d): %v\n", len(ks), ks)
			}
		}
	}
}
