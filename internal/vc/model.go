package vc

import (
	"fmt"
	"go/types"
	"strings"
)

// ModelScript renders the obligation as a model query: optional removal of quantified facts (a `sat`
// answer is then only a candidate counterexample) and `get-value` for the given terms.
func (vc *VC) ModelScript(o *Obligation, terms []string, dropQuant bool) string {
	var b strings.Builder
	b.WriteString("(set-option :produce-models true)\n(set-logic ALL)\n")
	for _, d := range vc.decls[:o.NDecl] {
		b.WriteString(d)
		b.WriteByte('\n')
	}
	seen := map[string]bool{}
	for _, f := range vc.facts[:o.NFact] {
		if dropQuant && (strings.Contains(f, "(forall ") || strings.Contains(f, "(exists ")) {
			continue
		}
		if seen[f] {
			continue
		}
		seen[f] = true
		b.WriteString(f)
		b.WriteByte('\n')
	}
	b.WriteString("(assert (not " + Imp(o.PC, o.Goal) + "))\n(check-sat)\n")
	for _, t := range terms {
		b.WriteString("(get-value (" + t + "))\n")
	}
	return b.String()
}

// EntryFieldTerm: the term of leaf `leaf` of field fname of the struct at ref, in the entry heap.
func (vc *VC) EntryFieldTerm(st types.Type, fname, leaf string, ref T) T {
	class := vc.classField(st, fname, leaf)
	return "(select H0_" + smtName(class) + " " + ref + ")"
}

func (vc *VC) EntryCellTerm(t types.Type, leaf string, ref T) T {
	return "(select H0_" + smtName(vc.classCell(t, leaf)) + " " + ref + ")"
}

// EntrySliceElemTerm: element idx (absolute) of the backing array base, entry heap.
func (vc *VC) EntrySliceElemTerm(elem types.Type, leaf string, base, idx T) T {
	return "(select (select H0_" + smtName(vc.classSlice(elem, leaf)) + " " + base + ") " + idx + ")"
}

func (vc *VC) SubRefTerm(st types.Type, fname string, ref T) T {
	return "(gv_sub_" + smtName(vc.E.typeStr(st)) + "_" + smtName(fname) + " " + ref + ")"
}

func (vc *VC) Declared(name string) bool { _, ok := vc.declSet[name]; return ok }

func (vc *VC) HeapConstName(class string) string { return "H0_" + smtName(class) }

func (vc *VC) ClassField(st types.Type, fname, leaf string) string {
	return vc.classField(st, fname, leaf)
}
func (vc *VC) ClassSlice(t types.Type, leaf string) string { return vc.classSlice(t, leaf) }

func (e *Engine) TypeStr(t types.Type) string  { return e.typeStr(t) }
func (e *Engine) LeavesOf(t types.Type) []Leaf { return e.leavesOf(t) }
func (e *Engine) AddrTaken(st types.Type, fname string) bool {
	return e.addrTaken[structKey(e, st)+"|"+fname]
}

// ParseBV parses "#x.." / "#b.." / "(_ bvN w)" model values into a decimal string (unsigned).
func ParseBV(s string) (string, bool) {
	s = strings.TrimSpace(s)
	switch {
	case strings.HasPrefix(s, "#x"):
		var v uint64
		if _, err := fmt.Sscanf(s[2:], "%x", &v); err == nil && len(s) <= 18 {
			return fmt.Sprint(v), true
		}
	case strings.HasPrefix(s, "#b"):
		var v uint64
		for _, c := range s[2:] {
			v = v<<1 | uint64(c-'0')
		}
		return fmt.Sprint(v), true
	case strings.HasPrefix(s, "(_ bv"):
		return litValue(s), true
	case s == "true":
		return "1", true
	case s == "false":
		return "0", true
	}
	return "", false
}
