package vc

import (
	"bytes"
	"context"
	"fmt"
	"os"
	"os/exec"
	"path/filepath"
	"strings"
	"sync"
	"time"
)

type SolverSpec struct {
	Name string
	Args func(timeoutS int, file string) []string
}

var Solvers = []SolverSpec{
	{"z3-new", func(t int, f string) []string { return []string{"z3-new", fmt.Sprintf("-T:%d", t), f} }},
	{"cvc5", func(t int, f string) []string {
		return []string{"cvc5", fmt.Sprintf("--tlimit=%d", t*1000), "--lang=smt2", f}
	}},
	{"z3", func(t int, f string) []string { return []string{"z3", fmt.Sprintf("-T:%d", t), f} }},
}

type Result struct {
	VC        *VC
	Obl       *Obligation
	Status    string // discharged | failed | undecided | cover-ok | cover-failed
	Raw       string // unsat sat unknown timeout error
	Solver    string
	TimeS     float64
	Output    string
	Script    string
	PerSolver map[string]string
	Model     []string
}

type SolveOpts struct {
	Dir        string // scratch directory for scripts
	Timeout1   int    // first-stage timeout (z3-new alone)
	Timeout2   int    // second stage (race of all)
	NoConj     bool   // do not try the conjunction of grouped goals first
	Quick      bool
	Workers    int
	Batch      bool // send obligations with a common prefix to one incremental run first
	CrossCheck bool // run every solver to completion and report disagreement
	Verbose    bool
}

func runSolver(s SolverSpec, timeoutS int, file string) (string, string, float64) {
	args := s.Args(timeoutS, file)
	ctx, cancel := context.WithTimeout(context.Background(), time.Duration(timeoutS+2)*time.Second)
	defer cancel()
	cmd := exec.CommandContext(ctx, args[0], args[1:]...)
	var out bytes.Buffer
	cmd.Stdout = &out
	cmd.Stderr = &out
	t0 := time.Now()
	_ = cmd.Run()
	dt := time.Since(t0).Seconds()
	text := out.String()
	first := strings.TrimSpace(strings.SplitN(text, "\n", 2)[0])
	switch first {
	case "unsat", "sat", "unknown":
		return first, text, dt
	case "timeout":
		return "timeout", text, dt
	}
	if ctx.Err() != nil {
		return "timeout", text, dt
	}
	if strings.Contains(text, "interrupted") || strings.Contains(text, "timeout") {
		return "timeout", text, dt
	}
	return "error", text, dt
}

func raceSolvers(specs []SolverSpec, timeoutS int, file string) (string, string, string, float64, map[string]string) {
	type ans struct {
		name, raw, out string
		dt             float64
	}
	ctx, cancel := context.WithCancel(context.Background())
	defer cancel()
	ch := make(chan ans, len(specs))
	var cmds []*exec.Cmd
	var mu sync.Mutex
	for _, s := range specs {
		s := s
		go func() {
			args := s.Args(timeoutS, file)
			c2, cancel2 := context.WithTimeout(ctx, time.Duration(timeoutS+2)*time.Second)
			defer cancel2()
			cmd := exec.CommandContext(c2, args[0], args[1:]...)
			var out bytes.Buffer
			cmd.Stdout = &out
			cmd.Stderr = &out
			mu.Lock()
			cmds = append(cmds, cmd)
			mu.Unlock()
			t0 := time.Now()
			_ = cmd.Run()
			dt := time.Since(t0).Seconds()
			text := out.String()
			first := strings.TrimSpace(strings.SplitN(text, "\n", 2)[0])
			raw := "error"
			switch first {
			case "unsat", "sat", "unknown", "timeout":
				raw = first
			default:
				if c2.Err() != nil || strings.Contains(text, "interrupted") || strings.Contains(text, "timeout") {
					raw = "timeout"
				}
			}
			ch <- ans{s.Name, raw, text, dt}
		}()
	}
	per := map[string]string{}
	var best ans
	best.raw = "unknown"
	for i := 0; i < len(specs); i++ {
		a := <-ch
		per[a.name] = a.raw
		if a.raw == "unsat" || a.raw == "sat" {
			cancel()
			return a.raw, a.name, a.out, a.dt, per
		}
		if best.name == "" || a.raw == "error" {
			best = a
		}
	}
	raw := "unknown"
	allTimeout := true
	for _, r := range per {
		if r != "timeout" {
			allTimeout = false
		}
	}
	if allTimeout {
		raw = "timeout"
	}
	return raw, best.name, best.out, best.dt, per
}

// Solve discharges the obligations of several VCs in parallel.
func Solve(vcs []*VC, opts SolveOpts, filter func(*Obligation) bool) []*Result {
	type job = struct {
		vc  *VC
		o   *Obligation
		idx int
	}
	var jobs []job
	for _, vc := range vcs {
		for _, o := range vc.Obls {
			if filter != nil && !filter(o) {
				continue
			}
			jobs = append(jobs, job{vc, o, len(jobs)})
		}
	}
	results := make([]*Result, len(jobs))
	if opts.Workers <= 0 {
		opts.Workers = 12
	}
	if opts.Timeout1 <= 0 {
		opts.Timeout1 = 4
	}
	if opts.Timeout2 <= 0 {
		opts.Timeout2 = 10
	}
	_ = os.MkdirAll(opts.Dir, 0o755)
	// group obligations that share prefix and path condition: they are sent to one incremental solver run first
	type group struct{ js []job }
	var groups []*group
	byKey := map[string]*group{}
	for _, j := range jobs {
		if j.o.Cover || j.o.MustFail || j.o.Goal == True || j.o.PC == False {
			groups = append(groups, &group{[]job{j}})
			continue
		}
		key := fmt.Sprintf("%p|%d|%d|%s", j.vc, j.o.NDecl, j.o.NFact, j.o.PC)
		g := byKey[key]
		if g == nil || len(g.js) >= 60 {
			g = &group{}
			byKey[key] = g
			groups = append(groups, g)
		}
		g.js = append(g.js, j)
	}
	// phase 1 (parallel over groups): the conjunction of all goals of a group first (one query instead of n when
	// everything holds, e.g. the 170 conjuncts of an object invariant required at a call site); an `unsat` of the
	// conjunction is an `unsat` of every member. Phase 2 (parallel over single obligations): everything else.
	var single []job
	var mu sync.Mutex
	{
		var wg sync.WaitGroup
		ch := make(chan *group)
		for w := 0; w < opts.Workers; w++ {
			wg.Add(1)
			go func() {
				defer wg.Done()
				for g := range ch {
					if len(g.js) >= 3 && opts.Batch {
						solveBatch(g.js[0].vc, g.js, results, opts)
						continue
					}
					if len(g.js) >= 4 && !opts.NoConj && solveConj(g.js[0].vc, g.js, results, opts) {
						continue
					}
					mu.Lock()
					single = append(single, g.js...)
					mu.Unlock()
				}
			}()
		}
		for _, g := range groups {
			if len(g.js) < 4 || opts.NoConj {
				single = append(single, g.js...)
				continue
			}
			ch <- g
		}
		close(ch)
		wg.Wait()
	}
	{
		var wg sync.WaitGroup
		ch := make(chan job)
		for w := 0; w < opts.Workers; w++ {
			wg.Add(1)
			go func() {
				defer wg.Done()
				for j := range ch {
					results[j.idx] = solveOne(j.vc, j.o, j.idx, opts)
				}
			}()
		}
		for _, j := range single {
			ch <- j
		}
		close(ch)
		wg.Wait()
	}
	return results
}

// solveBatch: one incremental z3 run for obligations with a common prefix; whatever is not `unsat` there is retried alone.
func solveBatch(vc *VC, js []struct {
	vc  *VC
	o   *Obligation
	idx int
}, results []*Result, opts SolveOpts) {
	var os_ []*Obligation
	for _, j := range js {
		os_ = append(os_, j.o)
	}
	file := filepath.Join(opts.Dir, fmt.Sprintf("b%05d.smt2", js[0].idx))
	ok := os.WriteFile(file, []byte(vc.BatchScript(os_)), 0o644) == nil
	var lines []string
	dt := 0.0
	if ok {
		perQueryMs := 1500
		total := 20 + len(js)
		ctx, cancel := context.WithTimeout(context.Background(), time.Duration(total)*time.Second)
		cmd := exec.CommandContext(ctx, "z3-new", fmt.Sprintf("-t:%d", perQueryMs), fmt.Sprintf("-T:%d", total), file)
		var out bytes.Buffer
		cmd.Stdout = &out
		cmd.Stderr = &out
		t0 := time.Now()
		_ = cmd.Run()
		cancel()
		dt = time.Since(t0).Seconds()
		for _, ln := range strings.Split(out.String(), "\n") {
			ln = strings.TrimSpace(ln)
			if ln == "unsat" || ln == "sat" || ln == "unknown" {
				lines = append(lines, ln)
			}
		}
	}
	for k, j := range js {
		if k < len(lines) && lines[k] == "unsat" {
			results[j.idx] = &Result{VC: vc, Obl: j.o, Status: "discharged", Raw: "unsat", Solver: "z3-new(batch)", TimeS: dt / float64(len(js)), PerSolver: map[string]string{"z3-new": "unsat"}, Script: file}
			continue
		}
		results[j.idx] = solveOne(j.vc, j.o, j.idx, opts)
	}
}

// solveConj poses the conjunction of the goals of obligations that share declarations, facts and path condition.
func solveConj(vc *VC, js []struct {
	vc  *VC
	o   *Obligation
	idx int
}, results []*Result, opts SolveOpts) bool {
	var goals []T
	for _, j := range js {
		if j.o.ThoroughOnly && opts.Quick {
			return false
		}
		goals = append(goals, j.o.Goal)
	}
	co := *js[0].o
	co.Goal = And(goals...)
	co.Splits = nil
	co.Watch = nil
	for _, sliced := range []bool{true, false} {
		file := filepath.Join(opts.Dir, fmt.Sprintf("c%05d.%v.smt2", js[0].idx, sliced))
		if err := os.WriteFile(file, []byte(vc.ScriptOpt(&co, false, sliced)), 0o644); err != nil {
			return false
		}
		raw, _, dt := runSolver(Solvers[0], opts.Timeout1*2, file)
		if raw == "unsat" {
			name := Solvers[0].Name + "(conj"
			if sliced {
				name += ",sliced"
			}
			name += ")"
			for _, j := range js {
				results[j.idx] = &Result{VC: vc, Obl: j.o, Status: "discharged", Raw: "unsat", Solver: name, TimeS: dt / float64(len(js)), PerSolver: map[string]string{Solvers[0].Name: "unsat"}, Script: file}
			}
			return true
		}
		if raw == "sat" && !sliced {
			break
		}
	}
	// obligations deferred to the thorough tier (the heavy cardinality preconditions of the lock operations) come in
	// groups of a hundred and more; when the conjunction is not proved, the members of a LARGE all-deferred group are
	// not solved one by one (that took hours): they are reported undecided.
	allDeferred := len(js) >= 40
	for _, j := range js {
		if !j.o.ThoroughOnly {
			allDeferred = false
		}
	}
	if allDeferred {
		for _, j := range js {
			results[j.idx] = &Result{VC: vc, Obl: j.o, Status: "undecided", Raw: "unknown", Solver: "not attempted (deferred group of " + fmt.Sprint(len(js)) + "; conjunction not proved)", PerSolver: map[string]string{}}
		}
		return true
	}
	return false
}

// SolveOneExported solves a single obligation (used for retries with a larger budget).
func SolveOneExported(vc *VC, o *Obligation, idx int, opts SolveOpts) *Result {
	_ = os.MkdirAll(opts.Dir, 0o755)
	return solveOne(vc, o, idx, opts)
}

func solveOne(vc *VC, o *Obligation, idx int, opts SolveOpts) *Result {
	r := &Result{VC: vc, Obl: o, PerSolver: map[string]string{}}
	// trivial goals need no solver
	if !o.Cover && (o.Goal == True || o.PC == False) {
		r.Status, r.Raw, r.Solver = "discharged", "unsat", "trivial"
		return r
	}
	script := vc.Script(o, false)
	file := filepath.Join(opts.Dir, fmt.Sprintf("o%05d.smt2", idx))
	r.Script = file
	if err := os.WriteFile(file, []byte(script), 0o644); err != nil {
		r.Status, r.Raw, r.Output = "undecided", "error", err.Error()
		return r
	}
	if o.ExitCover || o.SiteCover {
		// cheap reachability probes: one solver, short budget; no answer is not an alarm
		file := filepath.Join(opts.Dir, fmt.Sprintf("o%05d.smt2", idx))
		if err := os.WriteFile(file, []byte(vc.Script(o, false)), 0o644); err == nil {
			raw, out, dt := runSolver(Solvers[0], 2, file)
			r.Raw, r.Solver, r.Output, r.TimeS, r.Script = raw, Solvers[0].Name, out, dt, file
			switch raw {
			case "sat":
				r.Status = "cover-ok"
			case "unsat":
				r.Status = "cover-failed"
			default:
				r.Status = "cover-unknown"
			}
			return r
		}
	}
	if o.MustFail {
		raw, out, dt := runSolver(Solvers[0], 2, file)
		r.Raw, r.Solver, r.Output, r.TimeS = raw, Solvers[0].Name, out, dt
		if raw == "unsat" {
			r.Status = "cover-failed"
		} else {
			r.Status = "cover-ok"
		}
		return r
	}
	// stage S: case split over the paths merged into the obligation's path condition
	if !o.Cover && len(o.Splits) > 1 && len(o.Splits) <= 64 {
		all := true
		tot := 0.0
		for k, sp := range o.Splits {
			o2 := *o
			o2.PC = And(o.PC, sp)
			o2.Splits = nil
			sfile := filepath.Join(opts.Dir, fmt.Sprintf("o%05d.split%d.smt2", idx, k))
			if err := os.WriteFile(sfile, []byte(vc.ScriptOpt(&o2, false, true)), 0o644); err != nil {
				all = false
				break
			}
			raw, _, dt := runSolver(Solvers[0], opts.Timeout1, sfile)
			tot += dt
			if raw != "unsat" {
				// the slice may have dropped a needed fact: the same case over the full script
				ffile := filepath.Join(opts.Dir, fmt.Sprintf("o%05d.split%d.full.smt2", idx, k))
				if err := os.WriteFile(ffile, []byte(vc.ScriptOpt(&o2, false, false)), 0o644); err != nil {
					all = false
					break
				}
				raw2, _, dt2 := runSolver(Solvers[0], opts.Timeout1*2, ffile)
				tot += dt2
				if raw2 != "unsat" {
					all = false
					break
				}
			}
		}
		r.TimeS += tot
		if all {
			r.Raw, r.Solver, r.Status = "unsat", fmt.Sprintf("z3-new(split %d)", len(o.Splits)), "discharged"
			r.PerSolver[Solvers[0].Name] = "unsat"
			return r
		}
	}
	// stage C: a reachability (cover) query over a disjunction of path conditions is answered by any one disjunct
	// that is satisfiable on its own (a model of `pc && case` is a model of `pc`).
	if o.Cover && len(o.Splits) > 1 && len(o.Splits) <= 64 {
		tot := 0.0
		for k, sp := range o.Splits {
			if k >= 6 {
				break // a few cases are enough for a reachability witness; the general query follows
			}
			o2 := *o
			o2.PC = And(o.PC, sp)
			o2.Splits = nil
			sfile := filepath.Join(opts.Dir, fmt.Sprintf("o%05d.case%d.smt2", idx, k))
			if err := os.WriteFile(sfile, []byte(vc.Script(&o2, false)), 0o644); err != nil {
				break
			}
			raw, out, dt := runSolver(Solvers[0], 2, sfile)
			tot += dt
			if raw == "sat" {
				r.Raw, r.Solver, r.Output, r.TimeS, r.Status = raw, fmt.Sprintf("%s(case %d/%d)", Solvers[0].Name, k+1, len(o.Splits)), out, tot, "cover-ok"
				r.PerSolver[Solvers[0].Name] = raw
				return r
			}
		}
		r.TimeS += tot
	}
	// stage 0: cone-of-influence slice (fewer assumptions: an `unsat` there is an `unsat` of the full script)
	if !o.Cover && o.NFact > 40 {
		sfile := filepath.Join(opts.Dir, fmt.Sprintf("o%05d.sliced.smt2", idx))
		if err := os.WriteFile(sfile, []byte(vc.ScriptOpt(o, false, true)), 0o644); err == nil {
			raw, out, dt := runSolver(Solvers[0], opts.Timeout1*2, sfile)
			if raw == "unsat" {
				r.Raw, r.Solver, r.Output, r.TimeS, r.Status = raw, Solvers[0].Name+"(sliced)", out, dt, "discharged"
				r.PerSolver[Solvers[0].Name] = raw
				return r
			}
			r.TimeS += dt
		}
	}
	raw, out, dt := runSolver(Solvers[0], opts.Timeout1, file)
	r.PerSolver[Solvers[0].Name] = raw
	r.Raw, r.Solver, r.Output, r.TimeS = raw, Solvers[0].Name, out, dt
	if raw != "unsat" && raw != "sat" {
		raw2, name, out2, dt2, per := raceSolvers(Solvers, opts.Timeout2, file)
		for k, v := range per {
			r.PerSolver[k] = v
		}
		r.Raw, r.Solver, r.Output = raw2, name, out2
		r.TimeS += dt2
	}
	if opts.CrossCheck && idx%25 == 0 {
		// thorough tier: every 25th obligation is answered by all three solvers (disagreement is reported)
		for _, s := range Solvers {
			if _, done := r.PerSolver[s.Name]; done && (r.PerSolver[s.Name] == "sat" || r.PerSolver[s.Name] == "unsat") {
				continue
			}
			raw, _, _ := runSolver(s, opts.Timeout2, file)
			r.PerSolver[s.Name] = raw
		}
		sawSat, sawUnsat := false, false
		for _, v := range r.PerSolver {
			if v == "sat" {
				sawSat = true
			}
			if v == "unsat" {
				sawUnsat = true
			}
		}
		if sawSat && sawUnsat {
			r.Raw = "disagree"
		}
	}
	switch {
	case o.Cover && r.Raw == "sat":
		r.Status = "cover-ok"
	case o.Cover && r.Raw == "unsat":
		r.Status = "cover-failed"
	case o.Cover:
		r.Status = "cover-unknown"
	case r.Raw == "unsat":
		r.Status = "discharged"
	case r.Raw == "sat":
		r.Status = "failed"
		// model query
		ms := vc.Script(o, true)
		mfile := strings.TrimSuffix(file, ".smt2") + ".model.smt2"
		_ = os.WriteFile(mfile, []byte(ms), 0o644)
		_, mout, _ := runSolver(Solvers[0], opts.Timeout2, mfile)
		for _, ln := range strings.Split(mout, "\n")[1:] {
			ln = strings.TrimSpace(ln)
			if ln != "" {
				r.Model = append(r.Model, ln)
			}
		}
	default:
		r.Status = "undecided"
	}
	return r
}
