package vc

import (
	"fmt"
	"go/constant"
	"go/token"
	"go/types"
	"hash/fnv"
	"math/big"
	"sort"
	"strings"

	"golang.org/x/tools/go/ssa"
)

func hashBig(s string) *big.Int {
	h := fnv.New64a()
	h.Write([]byte(s))
	v := h.Sum64()
	// keep clear of 0 and of small numbers
	v |= 1 << 62
	return new(big.Int).SetUint64(v)
}

type deferEntry struct {
	guard T
	call  *ssa.CallCommon
	args  []Val
	fnVal Val
	instr *ssa.Defer
}

type Frame struct {
	curLoop       *ssa.BasicBlock // header of the loop whose clauses are being evaluated (name resolution of phis)
	vc            *VC
	fn            *ssa.Function
	regs          map[ssa.Value]Val
	bindings      []Val
	locals        map[*ssa.Alloc]*Cell
	defers        []*deferEntry
	depth         int
	isRoot        bool
	fc            *FuncContract
	entry         *State
	params        []Val
	blockPC       map[*ssa.BasicBlock]T
	edgeIn        map[*ssa.BasicBlock][]edge
	loops         map[*ssa.BasicBlock]*loopInfo
	exits         []exitPoint
	stack         []*ssa.Function
	nopanic       bool
	tags          []string
	callOrd       map[string]int
	dbgVals       map[string]ssa.Value
	staleDbg      map[string]Val // names (re)bound inside the loop whose header is being assumed: unknown at the header
	collectDefers bool
	pendingRD     []pendingRunDefers
	curBlock      *ssa.BasicBlock
}

type pendingRunDefers struct {
	instr *ssa.RunDefers
	st    *State
	pc    T
}

type edge struct {
	from *ssa.BasicBlock
	cond T
	st   *State
}

type exitPoint struct {
	pc   T
	st   *State
	rets []Val
	pos  token.Pos
}

type loopInfo struct {
	num     int
	header  *ssa.BasicBlock
	body    map[*ssa.BasicBlock]bool
	invs    []*Clause
	decs    []*Clause
	mods    []*Clause
	decVals []T
	env0    *State
}

const maxInlineDepth = 4
const maxInlineInstrs = 120

func (vc *VC) newFrame(fn *ssa.Function, parent *Frame) *Frame {
	fr := &Frame{vc: vc, fn: fn, regs: map[ssa.Value]Val{}, locals: map[*ssa.Alloc]*Cell{}, blockPC: map[*ssa.BasicBlock]T{},
		edgeIn: map[*ssa.BasicBlock][]edge{}, callOrd: map[string]int{}, dbgVals: map[string]ssa.Value{}}
	if parent != nil {
		fr.depth = parent.depth + 1
		fr.stack = append(append([]*ssa.Function(nil), parent.stack...), fn)
		fr.nopanic = parent.nopanic
		fr.tags = parent.tags
	} else {
		fr.stack = []*ssa.Function{fn}
	}
	return fr
}

// isLocalAlloc: an Alloc whose address never escapes (only loads, stores, field/index addressing and capture by inlinable closures).
func (vc *VC) isLocalAlloc(a *ssa.Alloc) bool {
	return vc.addrLocalOnly(a, 0)
}

func (vc *VC) addrLocalOnly(v ssa.Value, depth int) bool {
	if depth > 6 {
		return false
	}
	refs := v.Referrers()
	if refs == nil {
		return false
	}
	for _, r := range *refs {
		switch u := r.(type) {
		case *ssa.UnOp:
			if u.Op != token.MUL {
				return false
			}
		case *ssa.Store:
			if u.Val == v {
				return false
			}
		case *ssa.DebugRef:
		case *ssa.FieldAddr:
			if !vc.addrLocalOnly(u, depth+1) {
				return false
			}
		case *ssa.IndexAddr:
			if u.X != v {
				return false
			}
			if !vc.addrLocalOnly(u, depth+1) {
				return false
			}
		case *ssa.MakeClosure:
			// captured: the closure must only be called/deferred directly, and inside it the free variable must be local-only
			fn := u.Fn.(*ssa.Function)
			idx := -1
			for i, b := range u.Bindings {
				if b == v {
					idx = i
				}
			}
			if idx < 0 || !vc.closureDirectOnly(u) {
				return false
			}
			if !vc.addrLocalOnly(fn.FreeVars[idx], depth+1) {
				return false
			}
		default:
			return false
		}
	}
	return true
}

func (vc *VC) closureDirectOnly(mc *ssa.MakeClosure) bool {
	refs := mc.Referrers()
	if refs == nil {
		return true
	}
	for _, r := range *refs {
		switch u := r.(type) {
		case *ssa.Defer:
			if u.Call.Value != mc {
				return false
			}
		case *ssa.Call:
			if u.Call.Value != mc {
				return false
			}
		case *ssa.DebugRef:
		default:
			return false
		}
	}
	return true
}

// ---------------------------------------------------------------------------
// CFG helpers

func rpo(fn *ssa.Function, isBack func(u, v *ssa.BasicBlock) bool) []*ssa.BasicBlock {
	var order []*ssa.BasicBlock
	seen := map[*ssa.BasicBlock]bool{}
	var dfs func(b *ssa.BasicBlock)
	dfs = func(b *ssa.BasicBlock) {
		seen[b] = true
		for _, s := range b.Succs {
			if !seen[s] && !isBack(b, s) {
				dfs(s)
			}
		}
		order = append(order, b)
	}
	dfs(fn.Blocks[0])
	for i, j := 0, len(order)-1; i < j; i, j = i+1, j-1 {
		order[i], order[j] = order[j], order[i]
	}
	return order
}

func findLoops(fn *ssa.Function) map[*ssa.BasicBlock]*loopInfo {
	loops := map[*ssa.BasicBlock]*loopInfo{}
	for _, b := range fn.Blocks {
		for _, s := range b.Succs {
			if s.Dominates(b) {
				li := loops[s]
				if li == nil {
					li = &loopInfo{header: s, body: map[*ssa.BasicBlock]bool{s: true}}
					loops[s] = li
				}
				// natural loop of back edge b->s
				stack := []*ssa.BasicBlock{b}
				for len(stack) > 0 {
					x := stack[len(stack)-1]
					stack = stack[:len(stack)-1]
					if li.body[x] {
						continue
					}
					li.body[x] = true
					for _, p := range x.Preds {
						stack = append(stack, p)
					}
				}
			}
		}
	}
	var hs []*ssa.BasicBlock
	for h := range loops {
		hs = append(hs, h)
	}
	sort.Slice(hs, func(i, j int) bool { return hs[i].Index < hs[j].Index })
	for i, h := range hs {
		loops[h].num = i + 1
	}
	return loops
}

// ---------------------------------------------------------------------------
// Running a function body

// run symbolically executes fn from state st under path condition pc; exits are collected in fr.exits.
func (fr *Frame) run(st *State, pc T) {
	vc := fr.vc
	fn := fr.fn
	fr.loops = findLoops(fn)
	// attach loop clauses: the root contract, or a contract of an inlined function that carries loop clauses
	lc := fr.fc
	if lc == nil {
		lc = vc.E.Contracts[FuncKey(fn)]
	}
	if lc != nil {
		for _, li := range fr.loops {
			for _, c := range lc.Clauses {
				if c.Kind == "loopinv" && c.Loop == li.num {
					li.invs = append(li.invs, c)
				}
				if c.Kind == "loopdec" && c.Loop == li.num {
					li.decs = append(li.decs, c)
				}
				if c.Kind == "loopmod" && c.Loop == li.num {
					li.mods = append(li.mods, c)
				}
			}
		}
	}
	isBack := func(u, v *ssa.BasicBlock) bool { return v.Dominates(u) }
	order := rpo(fn, isBack)
	fr.collectDefers = rundefersTailsSimple(fn) && lc != nil && lc.Has("mergeexits")
	fr.edgeIn[fn.Blocks[0]] = []edge{{nil, pc, st}}
	for _, b := range order {
		if b == fn.Recover {
			continue
		}
		ins := fr.edgeIn[b]
		if len(ins) == 0 {
			continue
		}
		var conds []T
		var sts []*State
		for _, e := range ins {
			conds = append(conds, e.cond)
			sts = append(sts, e.st)
		}
		bpc := vc.define("pc_"+fn.Name(), SortBool, Or(conds...))
		if bpc == False {
			continue
		}
		if len(conds) == 1 {
			vc.pcImplies(bpc, conds[0])
		}
		if d := b.Idom(); d != nil {
			if dpc, ok := fr.blockPC[d]; ok {
				vc.pcImplies(bpc, dpc)
			}
		} else {
			vc.pcImplies(bpc, pc)
		}
		cur := vc.mergeStates(conds, sts)
		fr.blockPC[b] = bpc
		// phis
		fr.curBlock = b
		if li := fr.loops[b]; li != nil {
			cur = fr.enterLoop(li, b, ins, cur, bpc)
		} else {
			for _, instr := range b.Instrs {
				phi, ok := instr.(*ssa.Phi)
				if !ok {
					break
				}
				fr.regs[phi] = fr.evalPhi(phi, b, ins)
			}
		}
		fr.execBlock(b, cur, bpc)
		delete(fr.edgeIn, b)
	}
	fr.finishRunDefers()
}

// rundefersTailsSimple: every `rundefers` is followed only by loads and a return in its block.
func rundefersTailsSimple(fn *ssa.Function) bool {
	n := 0
	for _, b := range fn.Blocks {
		for i, in := range b.Instrs {
			if _, ok := in.(*ssa.RunDefers); ok {
				n++
				for _, t := range b.Instrs[i+1:] {
					switch u := t.(type) {
					case *ssa.UnOp:
						if u.Op != token.MUL {
							return false
						}
					case *ssa.Return, *ssa.DebugRef:
					default:
						return false
					}
				}
			}
		}
	}
	return n > 1
}

// finishRunDefers runs the deferred calls once, on the merge of all states that reached a `rundefers`.
func (fr *Frame) finishRunDefers() {
	vc := fr.vc
	if len(fr.pendingRD) == 0 {
		return
	}
	pend := fr.pendingRD
	fr.pendingRD = nil
	fr.collectDefers = false
	var conds []T
	var sts []*State
	for _, p := range pend {
		conds = append(conds, p.pc)
		sts = append(sts, p.st)
	}
	merged := vc.mergeStates(conds, sts)
	pcAny := vc.define("pc_rd", SortBool, Or(conds...))
	if vc.pcSplits == nil {
		vc.pcSplits = map[string][]T{}
	}
	vc.pcSplits[pcAny] = conds
	npc := fr.runDefers(merged, pcAny)
	for _, p := range pend {
		b := p.instr.Block()
		st := merged.clone()
		pc := And(p.pc, npc)
		started := false
		for _, in := range b.Instrs {
			if in == ssa.Instruction(p.instr) {
				started = true
				continue
			}
			if !started {
				continue
			}
			if ret, ok := in.(*ssa.Return); ok {
				var rets []Val
				for _, r := range ret.Results {
					v := fr.get(r)
					if v.Addr != nil {
						v = Val{Typ: r.Type(), Ts: []T{vc.materialize(v)}}
					}
					rets = append(rets, v)
				}
				fr.exits = append(fr.exits, exitPoint{pc, st, rets, ret.Pos()})
				break
			}
			pc = fr.execInstr(in, st, pc)
		}
	}
}

func (fr *Frame) evalPhi(phi *ssa.Phi, b *ssa.BasicBlock, ins []edge) Val {
	vc := fr.vc
	ls := vc.E.leavesOf(phi.Type())
	var vals []Val
	var conds []T
	for _, e := range ins {
		idx := -1
		for i, p := range b.Preds {
			if p == e.from {
				idx = i
			}
		}
		if idx < 0 {
			continue
		}
		v := fr.get(phi.Edges[idx])
		if v.Addr != nil || (len(v.Ts) == 0 && len(ls) > 0) {
			v = Val{Typ: phi.Type(), Ts: []T{vc.materialize(v)}}
		}
		vals = append(vals, v)
		conds = append(conds, e.cond)
	}
	if len(vals) == 1 {
		out := vals[0]
		out.Typ = phi.Type()
		return out
	}
	out := make([]T, len(ls))
	for li := range ls {
		t := vals[len(vals)-1].Ts[li]
		for i := len(vals) - 2; i >= 0; i-- {
			t = Ite(conds[i], vals[i].Ts[li], t)
		}
		out[li] = vc.define("phi_"+phi.Comment, ls[li].Sort, t)
	}
	res := Val{Typ: phi.Type(), Ts: out}
	// closures: keep if all the same
	allClo := true
	for _, v := range vals {
		if v.Clo == nil || v.Clo.Fn != vals[0].Clo.Fn {
			allClo = false
			break
		}
	}
	if allClo && len(vals[0].Clo.Bindings) == 0 {
		res.Clo = vals[0].Clo
	}
	return res
}

func (fr *Frame) addEdge(from, to *ssa.BasicBlock, cond T, st *State) {
	if cond == False {
		return
	}
	if to.Dominates(from) {
		// back edge: check the loop invariant, path ends
		fr.backEdge(from, to, cond, st)
		return
	}
	fr.edgeIn[to] = append(fr.edgeIn[to], edge{from, cond, st})
}

func (fr *Frame) execBlock(b *ssa.BasicBlock, st *State, pc T) {
	vc := fr.vc
	fr.curBlock = b
	for _, instr := range b.Instrs {
		if vc.Fatal != "" {
			return
		}
		switch in := instr.(type) {
		case *ssa.Phi:
			continue
		case *ssa.If:
			c := fr.get(in.Cond).Ts[0]
			c = vc.define("br", SortBool, c)
			t1, t2 := And(pc, c), And(pc, Not(c))
			vc.pcImplies(t1, pc)
			vc.pcImplies(t2, pc)
			fr.addEdge(b, b.Succs[0], t1, st)
			fr.addEdge(b, b.Succs[1], t2, st.clone())
			return
		case *ssa.Jump:
			fr.addEdge(b, b.Succs[0], pc, st)
			return
		case *ssa.Return:
			var rets []Val
			for _, r := range in.Results {
				v := fr.get(r)
				if v.Addr != nil {
					v = Val{Typ: r.Type(), Ts: []T{vc.materialize(v)}}
				}
				rets = append(rets, v)
			}
			fr.exits = append(fr.exits, exitPoint{pc, st, rets, in.Pos()})
			return
		case *ssa.Panic:
			if fr.nopanic {
				vc.oblige("panic", fr.oblName("panic", in.Pos()), fr.tags, pc, False, in.Pos(), "panic statement reachable")
			}
			return
		default:
			npc := fr.execInstr(instr, st, pc)
			if npc != pc {
				vc.pcImplies(npc, pc)
			}
			pc = npc
			if pc == False {
				return
			}
		}
	}
}

func (fr *Frame) oblName(kind string, pos token.Pos) string {
	key := FuncKey(fr.fn)
	return key + "/" + kind
}

// get returns the symbolic value of an SSA value.
func (fr *Frame) get(v ssa.Value) Val {
	vc := fr.vc
	if r, ok := fr.regs[v]; ok {
		return r
	}
	switch x := v.(type) {
	case *ssa.Const:
		return vc.constVal(x)
	case *ssa.Global:
		t := x.Type().(*types.Pointer).Elem()
		if vc.E.immutableGlobals[x] {
			return Val{Typ: x.Type(), Addr: &Addr{Kind: aGlobalVal, Typ: t, Global: x}}
		}
		return Val{Typ: x.Type(), Addr: &Addr{Kind: aCell, Typ: t, Ref: vc.globalRef(x)}}
	case *ssa.Function:
		return Val{Typ: x.Type(), Ts: []T{BVBig(hashBig("fn:"+x.String()), 64)}, Clo: &Closure{Fn: x}}
	case *ssa.FreeVar:
		for i, fv := range fr.fn.FreeVars {
			if fv == x && i < len(fr.bindings) {
				return fr.bindings[i]
			}
		}
		val := vc.freshVal("fv_"+x.Name(), x.Type())
		fr.regs[v] = val
		return val
	case *ssa.Builtin:
		return Val{Typ: x.Type()}
	}
	// not yet defined (e.g. value from a skipped block): havoc
	val := vc.freshVal("undef_"+v.Name(), v.Type())
	fr.regs[v] = val
	return val
}

func (vc *VC) constVal(c *ssa.Const) Val {
	t := c.Type()
	if c.Value == nil {
		return vc.zeroVal(t)
	}
	switch u := t.Underlying().(type) {
	case *types.Basic:
		switch {
		case u.Info()&types.IsBoolean != 0:
			if constant.BoolVal(c.Value) {
				return Val{Typ: t, Ts: []T{True}}
			}
			return Val{Typ: t, Ts: []T{False}}
		case u.Info()&types.IsString != 0:
			return Val{Typ: t, Ts: []T{vc.strConst(constant.StringVal(c.Value))}}
		case u.Info()&types.IsInteger != 0:
			bi, ok := new(big.Int).SetString(c.Value.ExactString(), 10)
			if !ok {
				bi = big.NewInt(0)
			}
			return Val{Typ: t, Ts: []T{BVBig(bi, intWidth(t))}}
		case u.Info()&types.IsFloat != 0:
			f, _ := constant.Float64Val(c.Value)
			return Val{Typ: t, Ts: []T{BVBig(hashBig(fmt.Sprint("float:", f)), 64)}}
		}
	}
	return vc.zeroVal(t)
}

func (fr *Frame) set(v ssa.Value, val Val) { fr.regs[v] = val }

// refOf gives the reference (BV64) of a pointer-typed SSA value.
func (fr *Frame) refOf(v ssa.Value) T {
	val := fr.get(v)
	return fr.vc.materialize(val)
}

// addrOf gives the address descriptor of a pointer-typed SSA value.
func (fr *Frame) addrOf(v ssa.Value) *Addr {
	val := fr.get(v)
	if val.Addr != nil {
		return val.Addr
	}
	pt, ok := v.Type().Underlying().(*types.Pointer)
	if !ok {
		panic("addrOf: not a pointer: " + v.String())
	}
	return &Addr{Kind: aCell, Typ: pt.Elem(), Ref: val.Ts[0]}
}

func (fr *Frame) nilCheck(ref T, pc T, pos token.Pos, what string) {
	if !fr.nopanic {
		return
	}
	if strings.HasPrefix(ref, "(gv_sub_") || strings.HasPrefix(ref, "a!") || strings.HasPrefix(ref, "gv_glob_") {
		return
	}
	goal := Not(Eq(ref, BV(0, 64)))
	if goal == True {
		return
	}
	fr.vc.oblige("nil", FuncKey(fr.fn)+"/nil/"+what, fr.tags, pc, goal, pos, "nil dereference of "+what)
	fr.vc.assume(pc, goal)
}

// toIndex64 converts an index value to a 64-bit term plus a non-negativity condition.
func (fr *Frame) toIndex64(v Val) (T, T) {
	w := intWidth(v.Typ)
	t := v.Ts[0]
	if w == 64 {
		if isUnsigned(v.Typ) {
			// a uint index >= 2^63 is out of range for any length
			return t, app("bvsge", t, BV(0, 64))
		}
		return t, app("bvsge", t, BV(0, 64))
	}
	if isUnsigned(v.Typ) {
		return app(fmt.Sprintf("(_ zero_extend %d)", 64-w), t), True
	}
	return app(fmt.Sprintf("(_ sign_extend %d)", 64-w), t), app("bvsge", t, BV(0, w))
}

func (fr *Frame) alloc(st *State, pc T, t types.Type, hint string, zero bool) T {
	vc := fr.vc
	a := vc.fresh("a", SortRef)
	vc.facts = append(vc.facts, "(assert (and (not (= "+a+" "+BV(0, 64)+")) (not "+Sel(st.alive, a)+")))")
	vc.noteFresh(a)
	st.alive = vc.define("alive", SortArr(SortRef, SortBool), Sto(st.alive, a, True))
	fr.freshNotInGhostSets(st, t, a)
	fr.allocNested(st, t, a, 0)
	if zero {
		vc.storeAddr(st, &Addr{Kind: aCell, Typ: t, Ref: a}, vc.zeroVal(t))
		fr.zeroSpecial(st, t, a, 0)
	}
	return a
}

// zeroSpecial completes the zero value of a fresh object for state that does not live in ordinary field classes:
// sync/atomic values (modelled as plain cells keyed by the address of the atomic, externals.go) start at zero / nil,
// and ghost fields of a fresh object start at their zero value (a ghost finite set: empty — nothing can have been
// inserted for an object that did not exist, A-GHOST).
func (fr *Frame) zeroSpecial(st *State, t types.Type, ref T, depth int) {
	vc := fr.vc
	if depth > 4 {
		return
	}
	if n, ok := t.(*types.Named); ok && n.Obj().Pkg() != nil {
		if n.Obj().Pkg().Path() == "sync/atomic" {
			if n.Obj().Name() == "Value" {
				vc.storeAddr(st, &Addr{Kind: aCell, Typ: emptyIface, Ref: ref}, vc.zeroVal(emptyIface))
				return
			}
			for i := 0; i < n.NumMethods(); i++ {
				if m := n.Method(i); m.Name() == "Load" {
					elem := m.Type().(*types.Signature).Results().At(0).Type()
					ct := types.NewNamed(types.NewTypeName(token.NoPos, nil, "atomic_"+vc.E.typeStr(elem), nil), elem.Underlying(), nil)
					vc.storeAddr(st, &Addr{Kind: aCell, Typ: ct, Ref: ref}, Val{Typ: ct, Ts: vc.zeroLeaves(elem)})
					return
				}
			}
			return
		}
		prefix := keyPkgName(n.Obj().Pkg()) + "." + n.Obj().Name() + "."
		for key, g := range vc.E.GhostFields {
			if !strings.HasPrefix(key, prefix) {
				continue
			}
			gt, err := vc.E.resolveType(keyPkgName(n.Obj().Pkg()), g.Type)
			if err != nil {
				continue
			}
			var zs []T
			if gt == fsetType {
				vc.fsetTheory()
				zs = []T{"((as const " + SortFSet + ") false)"}
			} else {
				zs = vc.zeroLeaves(gt)
			}
			vc.storeGhostField(st, key, gt, ref, Val{Typ: gt, Ts: zs})
		}
	}
	sty, ok := structOf(t)
	if !ok {
		return
	}
	for i := 0; i < sty.NumFields(); i++ {
		f := sty.Field(i)
		if f.Name() == "_" {
			continue
		}
		if _, isStruct := f.Type().Underlying().(*types.Struct); isStruct {
			fr.zeroSpecial(st, f.Type(), vc.subRef(t, f.Name(), ref), depth+1)
		}
	}
}

// structStoreHooks runs the store hooks of hooked fields when a whole struct value is stored.
func (fr *Frame) structStoreHooks(a *Addr, v Val, st *State, pc T, depth int) {
	vc := fr.vc
	if len(vc.E.StoreHooks) == 0 || depth > 3 {
		return
	}
	sty, ok := structOf(a.Typ)
	if !ok || (a.Kind != aField && a.Kind != aCell && a.Kind != aElem) {
		return
	}
	ref := vc.materialize(Val{Addr: a})
	off := 0
	for i := 0; i < sty.NumFields(); i++ {
		ft := sty.Field(i).Type()
		n := len(vc.E.leavesOf(ft))
		fa := &Addr{Kind: aField, Typ: ft, Ref: ref, Struct: a.Typ, Idx: i}
		fv := Val{Typ: ft, Ts: v.Ts[off : off+n]}
		for _, h := range fr.storeHooksFor(fa) {
			fr.runStoreHook(h, fa, fv, fv, st, pc)
		}
		if _, nested := structOf(ft); nested {
			fr.structStoreHooks(fa, fv, st, pc, depth+1)
		}
		off += n
	}
}

// freshNotInGhostSets: ghost finite sets only ever receive references of existing objects (they are
// updated by store hooks on those objects), so a fresh object of a hooked type is in none of them (A-GHOST).
func (fr *Frame) freshNotInGhostSets(st *State, t types.Type, ref T) {
	vc := fr.vc
	n, ok := t.(*types.Named)
	if !ok || n.Obj().Pkg() == nil {
		return
	}
	prefix := n.Obj().Pkg().Name() + "." + n.Obj().Name() + "."
	hooked := false
	for k := range vc.E.StoreHooks {
		if strings.HasPrefix(k, prefix) {
			hooked = true
		}
	}
	if !hooked {
		return
	}
	for key, g := range vc.E.GhostFields {
		if g.Type != "fset" || true {
			continue
		}
		vc.fsetTheory()
		h := vc.heapGet(st, "G|"+key, SortArr(SortRef, SortFSet))
		vc.facts = append(vc.facts, "(assert (forall ((r (_ BitVec 64))) (! (not (select (select "+h+" r) "+ref+")) :pattern ((select "+h+" r)))))")
	}
}

// noteFresh records a freshly allocated reference and tells the solver it differs from all earlier ones
// (the allocation facts themselves are simplified syntactically, so this is stated explicitly).
func (vc *VC) noteFresh(ref T) {
	if len(vc.freshRefs) > 0 {
		if len(vc.freshRefs) <= 400 {
			vc.facts = append(vc.facts, "(assert (distinct "+ref+" "+strings.Join(vc.freshRefs, " ")+"))")
		}
	}
	vc.freshRefs = append(vc.freshRefs, ref)
}

// allocNested: by-value nested structs and arrays of a fresh object are fresh too.
func (fr *Frame) allocNested(st *State, t types.Type, ref T, depth int) {
	vc := fr.vc
	sty, ok := structOf(t)
	if !ok || depth > 3 {
		return
	}
	for i := 0; i < sty.NumFields(); i++ {
		f := sty.Field(i)
		if f.Name() == "_" {
			// blank fields (atomic.Uint64{_ noCopy; _ align64; ...}) share one name: they would be "allocated" twice,
			// which asserted `not alive` of an already alive sub-object (= false) and made the path vacuous
			continue
		}
		switch f.Type().Underlying().(type) {
		case *types.Struct, *types.Array:
			sub := vc.subRef(t, f.Name(), ref)
			if f.Name() == "_" {
				continue // blank fields (sync/atomic's noCopy/align64) have no identity of their own
			}
			vc.facts = append(vc.facts, "(assert (not "+Sel(st.alive, sub)+"))")
			vc.noteFresh(sub)
			st.alive = vc.define("alive", SortArr(SortRef, SortBool), Sto(st.alive, sub, True))
			fr.freshNotInGhostSets(st, f.Type(), sub)
			fr.allocNested(st, f.Type(), sub, depth+1)
		}
	}
}

func (fr *Frame) assumeAlive(st *State, pc T, v Val) {
	// every reference read from the pre-existing heap was allocated before now
	vc := fr.vc
	if v.Typ == nil || len(v.Ts) == 0 {
		return
	}
	switch ut := v.Typ.Underlying().(type) {
	case *types.Struct:
		off := 0
		for i := 0; i < ut.NumFields(); i++ {
			n := len(vc.E.leavesOf(ut.Field(i).Type()))
			if off+n <= len(v.Ts) {
				fr.assumeAlive(st, pc, Val{Typ: ut.Field(i).Type(), Ts: v.Ts[off : off+n]})
			}
			off += n
		}
	case *types.Pointer, *types.Map, *types.Chan:
		r := v.Ts[0]
		if strings.HasPrefix(r, "(_ bv") {
			return
		}
		vc.assume(pc, Or(Eq(r, BV(0, 64)), Sel(st.alive, r)))
	case *types.Slice:
		r := v.Ts[0]
		vc.assume(pc, Or(Eq(r, BV(0, 64)), Sel(st.alive, r)))
		vc.assume(pc, And(app("bvsge", v.Ts[1], BV(0, 64)), app("bvsge", v.Ts[2], BV(0, 64)), app("bvsle", v.Ts[2], v.Ts[3]), app("bvsle", v.Ts[3], BVu(1<<48, 64)), app("bvsle", v.Ts[1], BVu(1<<48, 64))))
	case *types.Interface:
		r := v.Ts[1]
		vc.assume(pc, Or(Eq(v.Ts[0], BV(0, 64)), Sel(st.alive, r), True))
		// nil interface has a nil payload
		vc.assume(pc, Imp(Eq(v.Ts[0], BV(0, 64)), Eq(r, BV(0, 64))))
	}
}

func (fr *Frame) execInstr(instr ssa.Instruction, st *State, pc T) T {
	vc := fr.vc
	e := vc.E
	switch in := instr.(type) {
	case *ssa.DebugRef:
		if !in.IsAddr {
			if obj, ok := in.Object().(*types.Var); ok {
				fr.dbgVals[obj.Name()] = in.X
			}
		}
	case *ssa.Alloc:
		t := in.Type().(*types.Pointer).Elem()
		if !in.Heap || vc.isLocalAlloc(in) {
			if vc.isLocalAlloc(in) {
				vc.nCell++
				c := &Cell{ID: vc.nCell, Typ: t, Name: in.Comment}
				fr.locals[in] = c
				st.cells[c] = vc.zeroLeaves(t)
				fr.set(in, Val{Typ: in.Type(), Addr: &Addr{Kind: aLocal, Typ: t, Cell: c}})
				return pc
			}
		}
		a := fr.alloc(st, pc, t, in.Comment, true)
		fr.set(in, Val{Typ: in.Type(), Ts: []T{a}, Addr: &Addr{Kind: aCell, Typ: t, Ref: a}})
	case *ssa.FieldAddr:
		pt := in.X.Type().Underlying().(*types.Pointer)
		stT := pt.Elem()
		sty, _ := structOf(stT)
		ft := sty.Field(in.Field).Type()
		base := fr.get(in.X)
		if base.Addr != nil && base.Addr.Kind == aLocal {
			off, _ := e.fieldRange(sty, in.Field)
			fr.set(in, Val{Typ: in.Type(), Addr: &Addr{Kind: aLocal, Typ: ft, Cell: base.Addr.Cell, Off: base.Addr.Off + off}})
			return pc
		}
		ref := vc.materialize(base)
		fr.nilCheck(ref, pc, in.Pos(), exprName(in.X))
		fr.set(in, Val{Typ: in.Type(), Addr: &Addr{Kind: aField, Typ: ft, Ref: ref, Struct: stT, Idx: in.Field}})
	case *ssa.Field:
		x := fr.get(in.X)
		sty, _ := structOf(in.X.Type())
		off, n := e.fieldRange(sty, in.Field)
		fr.set(in, Val{Typ: in.Type(), Ts: x.Ts[off : off+n]})
	case *ssa.IndexAddr:
		idx64, nonneg := fr.toIndex64(fr.get(in.Index))
		switch xt := in.X.Type().Underlying().(type) {
		case *types.Slice:
			x := fr.get(in.X)
			if fr.nopanic {
				goal := And(nonneg, app("bvslt", idx64, x.Ts[2]))
				vc.oblige("bounds", FuncKey(fr.fn)+"/bounds/"+exprName(in.X)+"["+exprName(in.Index)+"]", fr.tags, pc, goal, in.Pos(), "index out of range")
				vc.assume(pc, goal)
			}
			fr.set(in, Val{Typ: in.Type(), Addr: &Addr{Kind: aElem, Typ: xt.Elem(), Base: x.Ts[0], Index: vc.define("idx", SortBV(64), bvAdd(x.Ts[1], idx64))}})
		case *types.Pointer:
			at := xt.Elem().Underlying().(*types.Array)
			if fr.nopanic {
				goal := And(nonneg, app("bvslt", idx64, BV(at.Len(), 64)))
				if goal != True {
					vc.oblige("bounds", FuncKey(fr.fn)+"/bounds/"+exprName(in.X)+"["+exprName(in.Index)+"]", fr.tags, pc, goal, in.Pos(), "array index out of range")
					vc.assume(pc, goal)
				}
			}
			base := fr.get(in.X)
			if base.Addr != nil && base.Addr.Kind == aLocal {
				fr.set(in, Val{Typ: in.Type(), Addr: &Addr{Kind: aLocalElem, Typ: at.Elem(), Cell: base.Addr.Cell, Off: base.Addr.Off, Index: idx64}})
				return pc
			}
			ref := vc.materialize(base)
			fr.nilCheck(ref, pc, in.Pos(), exprName(in.X))
			fr.set(in, Val{Typ: in.Type(), Addr: &Addr{Kind: aElem, Typ: at.Elem(), Base: ref, Index: idx64}})
		default:
			vc.imprecise("IndexAddr on %s", in.X.Type())
			fr.set(in, vc.freshVal("ia", in.Type()))
		}
	case *ssa.Index:
		idx64, nonneg := fr.toIndex64(fr.get(in.Index))
		x := fr.get(in.X)
		switch xt := in.X.Type().Underlying().(type) {
		case *types.Basic: // string
			if fr.nopanic {
				goal := And(nonneg, app("bvslt", idx64, vc.strLen(x.Ts[0])))
				vc.oblige("bounds", FuncKey(fr.fn)+"/bounds/"+exprName(in.X)+"["+exprName(in.Index)+"]", fr.tags, pc, goal, in.Pos(), "string index out of range")
				vc.assume(pc, goal)
			}
			vc.strFuns()
			fr.set(in, Val{Typ: in.Type(), Ts: []T{Sel(app("gv_strdata", x.Ts[0]), idx64)}})
		case *types.Array:
			if fr.nopanic {
				goal := And(nonneg, app("bvslt", idx64, BV(xt.Len(), 64)))
				if goal != True {
					vc.oblige("bounds", FuncKey(fr.fn)+"/bounds/"+exprName(in.X)+"["+exprName(in.Index)+"]", fr.tags, pc, goal, in.Pos(), "array index out of range")
					vc.assume(pc, goal)
				}
			}
			ls := e.leavesOf(xt.Elem())
			out := make([]T, len(ls))
			for i := range ls {
				out[i] = Sel(x.Ts[i], idx64)
			}
			fr.set(in, Val{Typ: in.Type(), Ts: out})
		default:
			fr.set(in, vc.freshVal("index", in.Type()))
		}
	case *ssa.UnOp:
		return fr.execUnOp(in, st, pc)
	case *ssa.Store:
		a := fr.addrOf(in.Addr)
		if fr.get(in.Addr).Addr == nil {
			fr.nilCheck(a.Ref, pc, in.Pos(), exprName(in.Addr))
		}
		v := fr.get(in.Val)
		if v.Addr != nil {
			v = Val{Typ: in.Val.Type(), Ts: []T{vc.materialize(v)}}
		}
		if len(v.Ts) != len(e.leavesOf(a.Typ)) {
			vc.imprecise("store arity mismatch at %s", e.Fset.Position(in.Pos()))
			v = vc.freshVal("st", a.Typ)
		}
		var old Val
		hooks := fr.storeHooksFor(a)
		if len(hooks) > 0 {
			old = vc.loadAddr(st, a)
		}
		vc.storeAddr(st, a, v)
		for _, h := range hooks {
			fr.runStoreHook(h, a, old, v, st, pc)
		}
		fr.structStoreHooks(a, v, st, pc, 0)
	case *ssa.BinOp:
		x, y := fr.get(in.X), fr.get(in.Y)
		fr.set(in, fr.binop(in.Op, x, y, in.X.Type(), in.Y.Type(), in.Type(), st, pc, in.Pos()))
	case *ssa.Convert:
		fr.set(in, fr.convert(fr.get(in.X), in.X.Type(), in.Type(), st, pc))
	case *ssa.ChangeType:
		x := fr.get(in.X)
		x.Typ = in.Type()
		fr.set(in, x)
	case *ssa.ChangeInterface:
		x := fr.get(in.X)
		x.Typ = in.Type()
		fr.set(in, x)
	case *ssa.MakeInterface:
		x := fr.get(in.X)
		if x.Addr != nil {
			x = Val{Typ: in.X.Type(), Ts: []T{vc.materialize(x)}}
		}
		fr.set(in, vc.makeInterface(x, in.X.Type(), in.Type()))
	case *ssa.TypeAssert:
		return fr.typeAssert(in, st, pc)
	case *ssa.Extract:
		tup := fr.get(in.Tuple)
		if in.Index < len(tup.Tuple) {
			fr.set(in, tup.Tuple[in.Index])
		} else {
			fr.set(in, vc.freshVal("ext", in.Type()))
		}
	case *ssa.Slice:
		return fr.execSlice(in, st, pc)
	case *ssa.MakeSlice:
		ln, lnn := fr.toIndex64(fr.get(in.Len))
		cp, cpn := fr.toIndex64(fr.get(in.Cap))
		if fr.nopanic {
			goal := And(lnn, cpn, app("bvsle", ln, cp))
			if goal != True {
				vc.oblige("panic", FuncKey(fr.fn)+"/makeslice/"+exprName(in.Len), fr.tags, pc, goal, in.Pos(), "makeslice: len out of range")
				vc.assume(pc, goal)
			}
		}
		fr.allocHook(in, ln, cp, st, pc)
		et := in.Type().Underlying().(*types.Slice).Elem()
		base := fr.alloc(st, pc, types.NewArray(et, 0), "mk", true)
		fr.set(in, Val{Typ: in.Type(), Ts: []T{base, BV(0, 64), ln, cp}})
	case *ssa.MakeMap:
		ref := fr.alloc(st, pc, types.Typ[types.Int], "map", false)
		mt := in.Type().Underlying().(*types.Map)
		ks := vc.mapKeySort(mt)
		dcl := vc.classMap(in.Type(), "dom")
		dsort := SortArr(SortRef, SortArr(ks, SortBool))
		vc.heapSet(st, dcl, dsort, Sto(vc.heapGet(st, dcl, dsort), ref, "((as const "+SortArr(ks, SortBool)+") false)"))
		if in.Reserve != nil {
			n, _ := fr.toIndex64(fr.get(in.Reserve))
			fr.allocHook(in, n, n, st, pc)
		}
		fr.set(in, Val{Typ: in.Type(), Ts: []T{ref}})
	case *ssa.MapUpdate:
		fr.mapUpdate(in, st, pc)
	case *ssa.Lookup:
		fr.lookup(in, st, pc)
	case *ssa.MakeClosure:
		var bs []Val
		for _, b := range in.Bindings {
			bs = append(bs, fr.get(b))
		}
		cref := vc.fresh("clo", SortRef)
		vc.assume(pc, Not(Eq(cref, BV(0, 64)))) // a function literal is never nil
		fr.set(in, Val{Typ: in.Type(), Ts: []T{cref}, Clo: &Closure{Fn: in.Fn.(*ssa.Function), Bindings: bs}})
	case *ssa.Call:
		res, npc := fr.doCall(&in.Call, in, st, pc, in.Pos())
		fr.set(in, res)
		return npc
	case *ssa.Defer:
		d := &deferEntry{guard: pc, call: &in.Call, instr: in}
		for _, a := range in.Call.Args {
			d.args = append(d.args, fr.get(a))
		}
		d.fnVal = fr.get(in.Call.Value)
		fr.defers = append(fr.defers, d)
	case *ssa.RunDefers:
		if fr.collectDefers && len(fr.defers) > 0 {
			fr.pendingRD = append(fr.pendingRD, pendingRunDefers{in, st, pc})
			return False
		}
		return fr.runDefers(st, pc)
	case *ssa.Go:
		vc.Dropped = append(vc.Dropped, "go statement at "+e.Fset.Position(in.Pos()).String()+": goroutine body not verified in this context")
		fr.havocGo(&in.Call, st)
	case *ssa.Range:
		fr.set(in, Val{Typ: in.Type(), Ts: nil, Tuple: []Val{fr.get(in.X)}})
		if mt, ok := in.X.Type().Underlying().(*types.Map); ok && fr.isRoot && vc.rootUsesVisited() {
			// ghost set of the keys this range has produced so far (contracts: visited(loop, key))
			if _, ok := key64("k", vc.mapKeySort(mt)); ok {
				if vc.rangeGhost == nil {
					vc.rangeGhost = map[*ssa.Range]string{}
				}
				name := vc.rangeGhost[in]
				if name == "" {
					name = fmt.Sprintf("rng$%d", len(vc.rangeGhost)+1)
					vc.rangeGhost[in] = name
					vc.ghostTypes[name] = fsetType
				}
				vc.fsetTheory()
				st.ghost[name] = []T{"((as const " + SortFSet + ") false)"}
			}
		}
	case *ssa.Next:
		fr.execNext(in, st, pc)
	case *ssa.Select:
		fr.execSelect(in, st, pc)
	case *ssa.MakeChan:
		// a fresh, open channel (closedness lives in the heap class K|chan|<element type>)
		ref := fr.alloc(st, pc, types.Typ[types.Int], "chan", false)
		ccl := e.classChanClosed(in.Type())
		vc.heapSet(st, ccl, sortChanClosed, Sto(vc.heapGet(st, ccl, sortChanClosed), ref, False))
		fr.set(in, Val{Typ: in.Type(), Ts: []T{ref}})
	case *ssa.Send:
		// event only
	case *ssa.MultiConvert, *ssa.SliceToArrayPointer:
		vc.imprecise("unsupported instruction %T in %s", instr, FuncKey(fr.fn))
		if v, ok := instr.(ssa.Value); ok {
			fr.set(v, vc.freshVal("unsup", v.Type()))
		}
	default:
		vc.imprecise("unsupported instruction %T in %s", instr, FuncKey(fr.fn))
		if v, ok := instr.(ssa.Value); ok {
			fr.set(v, vc.freshVal("unsup", v.Type()))
		}
	}
	return pc
}

func exprName(v ssa.Value) string {
	switch x := v.(type) {
	case *ssa.Parameter:
		return x.Name()
	case *ssa.Const:
		if x.Value != nil {
			return x.Value.ExactString()
		}
		return "nil"
	case *ssa.FieldAddr:
		pt := x.X.Type().Underlying().(*types.Pointer)
		sty, _ := structOf(pt.Elem())
		return exprName(x.X) + "." + sty.Field(x.Field).Name()
	case *ssa.Field:
		sty, _ := structOf(x.X.Type())
		return exprName(x.X) + "." + sty.Field(x.Field).Name()
	case *ssa.UnOp:
		if x.Op == token.MUL {
			return exprName(x.X)
		}
		return x.Op.String() + exprName(x.X)
	case *ssa.Phi:
		if x.Comment != "" {
			return x.Comment
		}
	case *ssa.Alloc:
		if x.Comment != "" {
			return x.Comment
		}
	case *ssa.Call:
		if f := x.Call.StaticCallee(); f != nil {
			return f.Name() + "()"
		}
		if x.Call.IsInvoke() {
			return x.Call.Method.Name() + "()"
		}
	case *ssa.BinOp:
		return exprName(x.X) + x.Op.String() + exprName(x.Y)
	case *ssa.Convert:
		return exprName(x.X)
	case *ssa.ChangeType:
		return exprName(x.X)
	case *ssa.IndexAddr:
		return exprName(x.X) + "[" + exprName(x.Index) + "]"
	case *ssa.Slice:
		return exprName(x.X) + "[:]"
	case *ssa.Global:
		return x.Name()
	case *ssa.FreeVar:
		return x.Name()
	case *ssa.Extract:
		return exprName(x.Tuple) + "#" + fmt.Sprint(x.Index)
	case *ssa.Lookup:
		return exprName(x.X) + "[" + exprName(x.Index) + "]"
	case *ssa.TypeAssert:
		return exprName(x.X) + ".(T)"
	case *ssa.MakeInterface:
		return exprName(x.X)
	}
	return "_"
}

func (fr *Frame) execUnOp(in *ssa.UnOp, st *State, pc T) T {
	vc := fr.vc
	switch in.Op {
	case token.MUL:
		xv := fr.get(in.X)
		a := fr.addrOf(in.X)
		if xv.Addr == nil {
			fr.nilCheck(a.Ref, pc, in.Pos(), exprName(in.X))
		}
		v := vc.loadAddr(st, a)
		v.Typ = in.Type()
		fr.assumeAlive(st, pc, v)
		fr.set(in, v)
	case token.NOT:
		fr.set(in, Val{Typ: in.Type(), Ts: []T{Not(fr.get(in.X).Ts[0])}})
	case token.SUB:
		if isFloatType(in.Type()) {
			fr.set(in, vc.freshVal("fneg", in.Type()))
		} else {
			fr.set(in, Val{Typ: in.Type(), Ts: []T{app("bvneg", fr.get(in.X).Ts[0])}})
		}
	case token.XOR:
		fr.set(in, Val{Typ: in.Type(), Ts: []T{app("bvnot", fr.get(in.X).Ts[0])}})
	case token.ARROW:
		// channel receive: arbitrary value
		if in.CommaOk {
			tt := in.Type().(*types.Tuple)
			fr.set(in, Val{Typ: in.Type(), Tuple: []Val{vc.freshVal("recv", tt.At(0).Type()), vc.freshVal("recvok", tt.At(1).Type())}})
		} else {
			fr.set(in, vc.freshVal("recv", in.Type()))
		}
	default:
		vc.imprecise("unop %s", in.Op)
		fr.set(in, vc.freshVal("unop", in.Type()))
	}
	return pc
}

func (fr *Frame) binop(op token.Token, x, y Val, xt, yt, rt types.Type, st *State, pc T, pos token.Pos) Val {
	vc := fr.vc
	if x.Addr != nil {
		x = Val{Typ: xt, Ts: []T{vc.materialize(x)}}
	}
	if y.Addr != nil {
		y = Val{Typ: yt, Ts: []T{vc.materialize(y)}}
	}
	switch op {
	case token.EQL, token.NEQ:
		var eq T
		if isFloatType(xt) {
			eq = vc.fresh("feq", SortBool)
		} else {
			var parts []T
			n := len(x.Ts)
			if len(y.Ts) < n {
				n = len(y.Ts)
			}
			for i := 0; i < n; i++ {
				parts = append(parts, Eq(x.Ts[i], y.Ts[i]))
			}
			eq = And(parts...)
		}
		if op == token.NEQ {
			eq = Not(eq)
		}
		return Val{Typ: rt, Ts: []T{eq}}
	}
	if isStringType(xt) {
		switch op {
		case token.ADD:
			return Val{Typ: rt, Ts: []T{vc.strCat(pc, x.Ts[0], y.Ts[0])}}
		default:
			return vc.freshVal("strcmp", rt)
		}
	}
	if isFloatType(xt) {
		return vc.freshVal("fop", rt)
	}
	if isBoolType(xt) {
		switch op {
		case token.LAND, token.AND:
			return Val{Typ: rt, Ts: []T{And(x.Ts[0], y.Ts[0])}}
		case token.LOR, token.OR:
			return Val{Typ: rt, Ts: []T{Or(x.Ts[0], y.Ts[0])}}
		}
	}
	w := intWidth(xt)
	if w == 0 {
		vc.imprecise("binop %s on %s", op, xt)
		return vc.freshVal("binop", rt)
	}
	a, b := x.Ts[0], y.Ts[0]
	uns := isUnsigned(xt)
	cmp := func(s, u string) Val {
		if uns {
			return Val{Typ: rt, Ts: []T{app(u, a, b)}}
		}
		return Val{Typ: rt, Ts: []T{app(s, a, b)}}
	}
	switch op {
	case token.LSS:
		return cmp("bvslt", "bvult")
	case token.LEQ:
		return cmp("bvsle", "bvule")
	case token.GTR:
		return cmp("bvsgt", "bvugt")
	case token.GEQ:
		return cmp("bvsge", "bvuge")
	case token.ADD:
		return Val{Typ: rt, Ts: []T{app("bvadd", a, b)}}
	case token.SUB:
		return Val{Typ: rt, Ts: []T{app("bvsub", a, b)}}
	case token.MUL:
		return Val{Typ: rt, Ts: []T{app("bvmul", a, b)}}
	case token.QUO, token.REM:
		if fr.nopanic {
			goal := Not(Eq(b, BV(0, w)))
			if goal != True {
				vc.oblige("div", FuncKey(fr.fn)+"/div", fr.tags, pc, goal, pos, "integer divide by zero")
				vc.assume(pc, goal)
			}
		}
		var o string
		switch {
		case op == token.QUO && uns:
			o = "bvudiv"
		case op == token.QUO:
			o = "bvsdiv"
		case uns:
			o = "bvurem"
		default:
			o = "bvsrem"
		}
		return Val{Typ: rt, Ts: []T{app(o, a, b)}}
	case token.AND:
		return Val{Typ: rt, Ts: []T{app("bvand", a, b)}}
	case token.OR:
		return Val{Typ: rt, Ts: []T{app("bvor", a, b)}}
	case token.XOR:
		return Val{Typ: rt, Ts: []T{app("bvxor", a, b)}}
	case token.AND_NOT:
		return Val{Typ: rt, Ts: []T{app("bvand", a, app("bvnot", b))}}
	case token.SHL, token.SHR:
		// shift count: convert to width w (saturating: any count >= w gives 0 / sign)
		wy := intWidth(yt)
		cnt := b
		var big T = False
		if wy > w {
			big = app("bvuge", b, BV(int64(w), wy))
			cnt = app(fmt.Sprintf("(_ extract %d 0)", w-1), b)
		} else if wy < w {
			cnt = app(fmt.Sprintf("(_ zero_extend %d)", w-wy), b)
		}
		var r T
		if op == token.SHL {
			r = app("bvshl", a, cnt)
			if big != False {
				r = Ite(big, BV(0, w), r)
			}
		} else if uns {
			r = app("bvlshr", a, cnt)
			if big != False {
				r = Ite(big, BV(0, w), r)
			}
		} else {
			r = app("bvashr", a, cnt)
			if big != False {
				r = Ite(big, app("bvashr", a, BV(int64(w-1), w)), r)
			}
		}
		return Val{Typ: rt, Ts: []T{r}}
	}
	vc.imprecise("binop %s", op)
	return vc.freshVal("binop", rt)
}

func (fr *Frame) convert(x Val, from, to types.Type, st *State, pc T) Val {
	vc := fr.vc
	if x.Addr != nil {
		x = Val{Typ: from, Ts: []T{vc.materialize(x)}}
	}
	fw, tw := intWidth(from), intWidth(to)
	switch {
	case fw > 0 && tw > 0:
		t := x.Ts[0]
		switch {
		case fw == tw:
		case fw > tw:
			t = app(fmt.Sprintf("(_ extract %d 0)", tw-1), t)
		case isUnsigned(from):
			t = app(fmt.Sprintf("(_ zero_extend %d)", tw-fw), t)
		default:
			t = app(fmt.Sprintf("(_ sign_extend %d)", tw-fw), t)
		}
		return Val{Typ: to, Ts: []T{t}}
	case isStringType(to) && fw > 0:
		return vc.freshVal("runestr", to)
	case isStringType(to):
		// string(bytes)
		if _, ok := from.Underlying().(*types.Slice); ok {
			r := vc.fresh("str", SortRef)
			vc.assume(pc, Eq(vc.strLen(r), x.Ts[2]))
			if sl, ok := from.Underlying().(*types.Slice); ok && intWidth(sl.Elem()) == 8 {
				// string(b) has the bytes of b (as they are at the conversion)
				vc.strFuns()
				cl := vc.classSlice(sl.Elem(), "")
				arr := vc.define("strsrc", SortArr(SortBV(64), SortBV(8)), Sel(vc.heapGet(st, cl, SortArr(SortRef, SortArr(SortBV(64), SortBV(8)))), x.Ts[0]))
				in := And(app("bvsge", "k", BV(0, 64)), app("bvslt", "k", x.Ts[2]))
				body := Imp(in, Eq(Sel(app("gv_strdata", r), "k"), Sel(arr, app("bvadd", x.Ts[1], "k"))))
				vc.assume(pc, "(forall ((k (_ BitVec 64))) (! "+body+" :pattern ((select (gv_strdata "+r+") k))))")
			}
			return Val{Typ: to, Ts: []T{r}}
		}
		x.Typ = to
		return x
	case isStringType(from):
		if sl, ok := to.Underlying().(*types.Slice); ok {
			base := fr.alloc(st, pc, types.NewArray(sl.Elem(), 0), "bytes", false)
			n := vc.strLen(x.Ts[0])
			if intWidth(sl.Elem()) == 8 {
				cl := vc.classSlice(sl.Elem(), "")
				srt := SortArr(SortRef, SortArr(SortBV(64), SortBV(8)))
				vc.strFuns()
				vc.heapSet(st, cl, srt, Sto(vc.heapGet(st, cl, srt), base, app("gv_strdata", x.Ts[0])))
			}
			return Val{Typ: to, Ts: []T{base, BV(0, 64), n, n}}
		}
	case isFloatType(from) || isFloatType(to):
		return vc.freshVal("fconv", to)
	}
	if len(x.Ts) == len(vc.E.leavesOf(to)) {
		x.Typ = to
		return x
	}
	vc.imprecise("convert %s -> %s", from, to)
	return vc.freshVal("conv", to)
}

func isPointerLike(t types.Type) bool {
	switch t.Underlying().(type) {
	case *types.Pointer, *types.Map, *types.Chan, *types.Signature:
		return true
	}
	if b, ok := t.Underlying().(*types.Basic); ok && b.Kind() == types.UnsafePointer {
		return true
	}
	return false
}

func (vc *VC) makeInterface(x Val, from, to types.Type) Val {
	tag := vc.E.TypeID(from)
	vc.noteConcrete(from)
	if isPointerLike(from) {
		return Val{Typ: to, Ts: []T{tag, x.Ts[0]}}
	}
	ls := vc.E.leavesOf(from)
	if len(ls) == 0 {
		return Val{Typ: to, Ts: []T{tag, BV(0, 64)}}
	}
	// injective boxing
	bn := "gv_box_" + smtName(vc.E.typeStr(from))
	var sorts []string
	for _, l := range ls {
		sorts = append(sorts, l.Sort)
	}
	vc.declareFun(bn, sorts, SortRef)
	b := app(bn, x.Ts...)
	if !vc.subSeen[b] {
		vc.subSeen[b] = true
		var parts []T
		for i, l := range ls {
			un := fmt.Sprintf("%s_un%d", bn, i)
			vc.declareFun(un, []string{SortRef}, l.Sort)
			parts = append(parts, Eq(app(un, b), x.Ts[i]))
		}
		vc.facts = append(vc.facts, "(assert "+And(parts...)+")")
	}
	return Val{Typ: to, Ts: []T{tag, b}}
}

func (vc *VC) unbox(val T, to types.Type) Val {
	if isPointerLike(to) {
		return Val{Typ: to, Ts: []T{val}}
	}
	ls := vc.E.leavesOf(to)
	bn := "gv_box_" + smtName(vc.E.typeStr(to))
	var sorts []string
	for _, l := range ls {
		sorts = append(sorts, l.Sort)
	}
	if len(ls) > 0 {
		vc.declareFun(bn, sorts, SortRef)
	}
	out := make([]T, len(ls))
	for i, l := range ls {
		un := fmt.Sprintf("%s_un%d", bn, i)
		vc.declareFun(un, []string{SortRef}, l.Sort)
		out[i] = app(un, val)
	}
	return Val{Typ: to, Ts: out}
}

// implementsTerm: uninterpreted predicate "the dynamic type with this tag implements interface t".
func (vc *VC) implementsTerm(tag T, t types.Type) T {
	fn := "gv_implements_" + smtName(vc.E.typeStr(t))
	vc.declareFun(fn, []string{SortBV(64)}, SortBool)
	return app(fn, tag)
}

func (fr *Frame) typeAssert(in *ssa.TypeAssert, st *State, pc T) T {
	vc := fr.vc
	x := fr.get(in.X)
	var ok T
	var val Val
	if _, isIface := in.AssertedType.Underlying().(*types.Interface); isIface {
		// interface-to-interface: succeeds for some dynamic types only; non-nil required
		// whether a dynamic type implements the asserted interface is a fixed (uninterpreted) function of the
		// type tag and the interface, so that contracts can state it: implements(x, T)
		vc.declareFun("gv_implements", []string{SortBV(64), SortBV(64)}, SortBool)
		vc.noteIface(in.AssertedType)
		okc := app("gv_implements", x.Ts[0], vc.E.TypeID(in.AssertedType))
		ok = And(Not(Eq(x.Ts[0], BV(0, 64))), okc)
		if ii, _ := in.X.Type().Underlying().(*types.Interface); ii != nil {
			if at, _ := in.AssertedType.Underlying().(*types.Interface); at != nil && types.Implements(in.X.Type(), at) {
				ok = Not(Eq(x.Ts[0], BV(0, 64)))
			}
		}
		val = Val{Typ: in.AssertedType, Ts: []T{x.Ts[0], x.Ts[1]}}
	} else {
		ok = Eq(x.Ts[0], vc.E.TypeID(in.AssertedType))
		val = vc.unbox(x.Ts[1], in.AssertedType)
	}
	if in.CommaOk {
		// on failure the value is the zero value
		z := vc.zeroVal(in.AssertedType)
		out := make([]T, len(val.Ts))
		for i := range val.Ts {
			out[i] = Ite(ok, val.Ts[i], z.Ts[i])
		}
		fr.set(in, Val{Typ: in.Type(), Tuple: []Val{{Typ: in.AssertedType, Ts: out}, {Typ: types.Typ[types.Bool], Ts: []T{ok}}}})
		return pc
	}
	if fr.nopanic {
		vc.oblige("typeassert", FuncKey(fr.fn)+"/typeassert/"+exprName(in.X), fr.tags, pc, ok, in.Pos(), "type assertion may fail")
	}
	vc.assume(pc, ok)
	fr.set(in, val)
	return pc
}

func (fr *Frame) execSlice(in *ssa.Slice, st *State, pc T) T {
	vc := fr.vc
	x := fr.get(in.X)
	var base, off, ln, cp T
	isStr := false
	switch xt := in.X.Type().Underlying().(type) {
	case *types.Slice:
		base, off, ln, cp = x.Ts[0], x.Ts[1], x.Ts[2], x.Ts[3]
	case *types.Basic:
		isStr = true
		ln = vc.strLen(x.Ts[0])
		cp = ln
	case *types.Pointer:
		at := xt.Elem().Underlying().(*types.Array)
		if x.Addr != nil && (x.Addr.Kind == aLocal) {
			vc.imprecise("slice of local array cell in %s", FuncKey(fr.fn))
		}
		base = vc.materialize(x)
		fr.nilCheck(base, pc, in.Pos(), exprName(in.X))
		off = BV(0, 64)
		ln = BV(at.Len(), 64)
		cp = ln
	}
	lo := BV(0, 64)
	var conds []T
	if in.Low != nil {
		l, nn := fr.toIndex64(fr.get(in.Low))
		lo = l
		conds = append(conds, nn)
	}
	hi := ln
	if in.High != nil {
		h, nn := fr.toIndex64(fr.get(in.High))
		hi = h
		conds = append(conds, nn)
	}
	mx := cp
	if in.Max != nil {
		m, nn := fr.toIndex64(fr.get(in.Max))
		mx = m
		conds = append(conds, nn, app("bvsle", m, cp))
	}
	conds = append(conds, app("bvsle", lo, hi), app("bvsle", hi, mx))
	if fr.nopanic {
		goal := And(conds...)
		if goal != True {
			vc.oblige("bounds", FuncKey(fr.fn)+"/slice/"+exprName(in.X), fr.tags, pc, goal, in.Pos(), "slice bounds out of range")
			vc.assume(pc, goal)
		}
	}
	if isStr {
		if in.Low == nil && in.High == nil {
			fr.set(in, x)
			return pc
		}
		r := vc.fresh("substr", SortRef)
		vc.assume(pc, Eq(vc.strLen(r), app("bvsub", hi, lo)))
		fr.set(in, Val{Typ: in.Type(), Ts: []T{r}})
		return pc
	}
	fr.set(in, Val{Typ: in.Type(), Ts: []T{base, vc.define("off", SortBV(64), bvAdd(off, lo)), vc.define("len", SortBV(64), bvSub(hi, lo)), vc.define("cap", SortBV(64), bvSub(mx, lo))}})
	return pc
}

func (vc *VC) mapKeySort(mt *types.Map) string {
	ls := vc.E.leavesOf(mt.Key())
	if len(ls) == 1 {
		return ls[0].Sort
	}
	return SortRef // composite keys are abstracted to an opaque key id
}

func (fr *Frame) mapKey(mt *types.Map, k Val) T {
	vc := fr.vc
	if k.Addr != nil {
		return vc.materialize(k)
	}
	if len(k.Ts) == 1 {
		return k.Ts[0]
	}
	// composite key: injective packing
	fnn := "gv_key_" + smtName(vc.E.typeStr(mt.Key()))
	var sorts []string
	for _, l := range vc.E.leavesOf(mt.Key()) {
		sorts = append(sorts, l.Sort)
	}
	vc.declareFun(fnn, sorts, SortRef)
	return app(fnn, k.Ts...)
}

func (fr *Frame) mapUpdate(in *ssa.MapUpdate, st *State, pc T) {
	vc := fr.vc
	mt := in.Map.Type().Underlying().(*types.Map)
	m := fr.get(in.Map).Ts[0]
	if fr.nopanic {
		vc.oblige("nil", FuncKey(fr.fn)+"/nilmap/"+exprName(in.Map), fr.tags, pc, Not(Eq(m, BV(0, 64))), in.Pos(), "assignment to entry in nil map")
	}
	k := fr.mapKey(mt, fr.get(in.Key))
	v := fr.get(in.Value)
	if v.Addr != nil {
		v = Val{Typ: in.Value.Type(), Ts: []T{vc.materialize(v)}}
	}
	ks := vc.mapKeySort(mt)
	dcl := vc.classMap(in.Map.Type(), "dom")
	dsort := SortArr(SortRef, SortArr(ks, SortBool))
	d := vc.heapGet(st, dcl, dsort)
	// len grows by at most one per insertion and never shrinks (bounds only: string keys are compared by
	// identity in this model, so an exact count would be unsound); len < 2^62.
	lenBefore := vc.mapLen(st, in.Map.Type(), m)
	vc.heapSet(st, dcl, dsort, Sto(d, m, Sto(Sel(d, m), k, True)))
	lenAfter := vc.mapLen(st, in.Map.Type(), m)
	vc.assume(pc, And(app("bvsle", lenBefore, lenAfter), app("bvsle", lenAfter, app("bvadd", lenBefore, BV(1, 64))), app("bvslt", lenBefore, BVu(1<<62, 64))))
	for i, l := range vc.E.leavesOf(mt.Elem()) {
		cl := vc.classMap(in.Map.Type(), "val"+l.Path)
		srt := SortArr(SortRef, SortArr(ks, l.Sort))
		h := vc.heapGet(st, cl, srt)
		vc.heapSet(st, cl, srt, Sto(h, m, Sto(Sel(h, m), k, v.Ts[i])))
	}
}

func (vc *VC) mapLookup(st *State, mapT types.Type, m, k T) (Val, T) {
	mt := mapT.Underlying().(*types.Map)
	ks := vc.mapKeySort(mt)
	dcl := vc.classMap(mapT, "dom")
	dsort := SortArr(SortRef, SortArr(ks, SortBool))
	ok := And(Not(Eq(m, BV(0, 64))), Sel(Sel(vc.heapGet(st, dcl, dsort), m), k))
	ls := vc.E.leavesOf(mt.Elem())
	out := make([]T, len(ls))
	for i, l := range ls {
		cl := vc.classMap(mapT, "val"+l.Path)
		srt := SortArr(SortRef, SortArr(ks, l.Sort))
		out[i] = Ite(ok, Sel(Sel(vc.heapGet(st, cl, srt), m), k), zeroOfSort(l.Sort))
	}
	return Val{Typ: mt.Elem(), Ts: out}, ok
}

func (fr *Frame) lookup(in *ssa.Lookup, st *State, pc T) {
	vc := fr.vc
	if _, isMap := in.X.Type().Underlying().(*types.Map); !isMap {
		// string index handled by Index; Lookup on string
		idx64, nonneg := fr.toIndex64(fr.get(in.Index))
		x := fr.get(in.X)
		if fr.nopanic {
			goal := And(nonneg, app("bvslt", idx64, vc.strLen(x.Ts[0])))
			vc.oblige("bounds", FuncKey(fr.fn)+"/bounds/"+exprName(in.X)+"["+exprName(in.Index)+"]", fr.tags, pc, goal, in.Pos(), "string index out of range")
			vc.assume(pc, goal)
		}
		vc.strFuns()
		fr.set(in, Val{Typ: in.Type(), Ts: []T{Sel(app("gv_strdata", x.Ts[0]), idx64)}})
		return
	}
	mt := in.X.Type().Underlying().(*types.Map)
	m := fr.get(in.X).Ts[0]
	k := fr.mapKey(mt, fr.get(in.Index))
	v, ok := vc.mapLookup(st, in.X.Type(), m, k)
	fr.assumeAlive(st, pc, v)
	if in.CommaOk {
		fr.set(in, Val{Typ: in.Type(), Tuple: []Val{v, {Typ: types.Typ[types.Bool], Ts: []T{ok}}}})
	} else {
		fr.set(in, v)
	}
}

func (fr *Frame) execNext(in *ssa.Next, st *State, pc T) {
	vc := fr.vc
	rng := fr.get(in.Iter)
	tt := in.Type().(*types.Tuple)
	ok := vc.fresh("rng_ok", SortBool)
	okV := Val{Typ: types.Typ[types.Bool], Ts: []T{ok}}
	if in.IsString {
		fr.set(in, Val{Typ: in.Type(), Tuple: []Val{okV, vc.freshVal("rng_i", tt.At(1).Type()), vc.freshVal("rng_r", tt.At(2).Type())}})
		return
	}
	rg := in.Iter.(*ssa.Range)
	mt := rg.X.Type().Underlying().(*types.Map)
	m := rng.Tuple[0].Ts[0]
	kv := vc.freshVal("rng_k", mt.Key())
	k := fr.mapKey(mt, kv)
	v, present := vc.mapLookup(st, rg.X.Type(), m, k)
	vc.assume(pc, Imp(ok, present))
	if name := vc.rangeGhost[rg]; name != "" {
		if g, has := st.ghost[name]; has {
			ks := vc.mapKeySort(mt)
			if k64, ok64 := key64(k, ks); ok64 {
				// a key is produced at most once; when the range ends every key still in the map has been produced
				// (unless the body inserts into a map of this type: then nothing is claimed at the end)
				vc.assume(pc, Imp(ok, Not(Sel(g[0], k64))))
				st.ghost[name] = []T{vc.define("g_"+name, SortFSet, Ite(ok, Sto(g[0], k64, True), g[0]))}
				if !fr.loopInsertsInto(in, rg.X.Type()) {
					dcl := vc.classMap(rg.X.Type(), "dom")
					dsort := SortArr(SortRef, SortArr(ks, SortBool))
					dom := Sel(vc.heapGet(st, dcl, dsort), m)
					kk64, _ := key64("kk", ks)
					vc.assume(pc, Imp(Not(ok), "(forall ((kk "+ks+")) (! (=> (select "+dom+" kk) (select "+g[0]+" "+kk64+")) :pattern ((select "+dom+" kk))))"))
				}
			}
		}
	}
	fr.assumeAlive(st, pc, v)
	kOut := kv
	vOut := v
	if _, invalid := tt.At(1).Type().(*types.Basic); invalid && tt.At(1).Type().(*types.Basic).Kind() == types.Invalid {
		kOut = Val{Typ: tt.At(1).Type()}
	}
	if b, isB := tt.At(2).Type().(*types.Basic); isB && b.Kind() == types.Invalid {
		vOut = Val{Typ: tt.At(2).Type()}
	}
	fr.set(in, Val{Typ: in.Type(), Tuple: []Val{okV, kOut, vOut}})
}

// rootUsesVisited: the contract of the function under verification mentions visited(...): only then are map ranges
// tracked (the exit fact is quantified; functions that do not ask for it keep their scripts unchanged).
func (vc *VC) rootUsesVisited() bool {
	if vc.RootFC == nil {
		return false
	}
	for _, c := range vc.RootFC.Clauses {
		if strings.Contains(c.Text, "visited(") {
			return true
		}
	}
	return false
}

// loopInsertsInto: some instruction of the function stores into a map of the given type inside a loop that contains
// this Next (conservative: any MapUpdate on that map type anywhere in the function's loops that contain the Next).
func (fr *Frame) loopInsertsInto(nx *ssa.Next, mapT types.Type) bool {
	var ranged ssa.Value
	if rg, ok := nx.Iter.(*ssa.Range); ok {
		ranged = rg.X
	}
	for _, li := range fr.loops {
		if !li.body[nx.Block()] {
			continue
		}
		for blk := range li.body {
			for _, ins := range blk.Instrs {
				if mu, ok := ins.(*ssa.MapUpdate); ok && types.Identical(mu.Map.Type(), mapT) {
					// a map created by `make` in this function is a different object from the ranged map (unless it IS the ranged one)
					if mk, isMake := mu.Map.(*ssa.MakeMap); isMake && ssa.Value(mk) != ranged {
						continue
					}
					return true
				}
			}
		}
	}
	return false
}

func (fr *Frame) execSelect(in *ssa.Select, st *State, pc T) {
	vc := fr.vc
	tt := in.Type().(*types.Tuple)
	idx := vc.fresh("sel_idx", SortBV(64))
	lo := BV(0, 64)
	if !in.Blocking {
		lo = BV(-1, 64)
	}
	vc.assume(pc, And(app("bvsge", idx, lo), app("bvslt", idx, BV(int64(len(in.States)), 64))))
	if !in.Blocking {
		// a closed channel is always ready to receive: `default` is taken only if no receive case's channel is closed
		for _, s := range in.States {
			if s.Dir != types.RecvOnly {
				continue
			}
			ch := fr.get(s.Chan)
			if len(ch.Ts) != 1 {
				continue
			}
			ccl := vc.E.classChanClosed(s.Chan.Type())
			vc.assume(pc, Imp(Eq(idx, BV(-1, 64)), Not(Sel(vc.heapGet(st, ccl, sortChanClosed), ch.Ts[0]))))
		}
	}
	vals := []Val{{Typ: tt.At(0).Type(), Ts: []T{idx}}, vc.freshVal("sel_ok", tt.At(1).Type())}
	for i := 2; i < tt.Len(); i++ {
		vals = append(vals, vc.freshVal("sel_recv", tt.At(i).Type()))
	}
	fr.set(in, Val{Typ: in.Type(), Tuple: vals})
}

func (fr *Frame) runDefers(st *State, pc T) T {
	vc := fr.vc
	for i := len(fr.defers) - 1; i >= 0; i-- {
		d := fr.defers[i]
		g := And(pc, d.guard)
		if g == False {
			continue
		}
		if d.guard == True || d.guard == pc || fr.blockPC[fr.fn.Blocks[0]] == d.guard {
			_, npc := fr.doCallWith(d.call, d.instr, d.fnVal, d.args, st, pc, d.instr.Pos())
			pc = npc
			continue
		}
		st2 := st.clone()
		_, npc2 := fr.doCallWith(d.call, d.instr, d.fnVal, d.args, st2, g, d.instr.Pos())
		merged := vc.mergeStates([]T{d.guard, Not(d.guard)}, []*State{st2, st})
		*st = *merged
		if npc2 != g {
			// the deferred call's own exit condition (e.g. the exit of a loop inside a deferred closure) holds afterwards
			pc = vc.define("pc_defer", SortBool, And(pc, Imp(d.guard, npc2)))
		}
	}
	return pc
}
