package vc

// guardFilter drops, in sliced scripts, facts whose guarding path condition is not implied by the obligation's path.
var guardFilter = true
