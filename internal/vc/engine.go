package vc

import (
	"fmt"
	"go/token"
	"go/types"
	"hash/fnv"
	"os"
	"path/filepath"
	"regexp"
	"sort"
	"strings"

	"golang.org/x/tools/go/packages"
	"golang.org/x/tools/go/ssa"
	"golang.org/x/tools/go/ssa/ssautil"
)

const ModulePath = "github.com/superfly/litefs"

// Engine holds the loaded program and all contracts.
type Engine struct {
	RepoDir string
	Fset    *token.FileSet
	Pkgs    []*packages.Package
	Prog    *ssa.Program
	SSAPkgs []*ssa.Package

	pkgByName map[string]*packages.Package // short name -> package (module packages only)
	allPkgs   map[string]*types.Package    // path -> types package (all deps)

	Contracts     map[string]*FuncContract
	Preds         map[string]*PredDef // "pkg.name"
	Lemmas        []*LemmaDef
	GhostFields   map[string]GhostField   // "pkg.Struct.name"
	StoreHooks    map[string][]*StoreHook // "pkg.Struct.field"
	hookPkg       map[*StoreHook]string
	ContractFiles []string
	MirrorUsed    []string

	funcByKey map[string]*ssa.Function

	addrTaken        map[string]bool // "structTypeString|field" whose scalar address escapes
	immutableGlobals map[*ssa.Global]bool
	errorGlobals     map[*ssa.Global]int // globals initialised by errors.New / fmt.Errorf in init: index
	modsets          map[*ssa.Function]map[string]bool
	modsetBusy       map[*ssa.Function]bool
	implCache        map[string][]*ssa.Function

	leafCache map[string][]Leaf

	Warnings []string
}

type Leaf struct {
	Path string
	Sort string
	Typ  types.Type // Go type of the leaf (for signedness etc.); nil for synthetic leaves
}

func (e *Engine) warnf(format string, args ...interface{}) {
	e.Warnings = append(e.Warnings, fmt.Sprintf(format, args...))
}

// Load loads the given package patterns (relative to the repo) with -tags=verif.
func Load(repoDir string, patterns []string, overlay map[string][]byte) (*Engine, error) {
	cfg := &packages.Config{
		Mode:       packages.LoadAllSyntax,
		Dir:        repoDir,
		BuildFlags: []string{"-tags=verif"},
		Overlay:    overlay,
		Env:        append(os.Environ(), "GOFLAGS=-mod=mod", "GOPROXY=off", "GOSUMDB=off", "GOTOOLCHAIN=local"),
	}
	pkgs, err := packages.Load(cfg, patterns...)
	if err != nil {
		return nil, err
	}
	var errs []string
	for _, p := range pkgs {
		for _, e := range p.Errors {
			errs = append(errs, e.Error())
		}
	}
	if len(errs) > 0 {
		return nil, fmt.Errorf("package errors: %s", strings.Join(errs, "; "))
	}
	prog, spkgs := ssautil.AllPackages(pkgs, ssa.InstantiateGenerics|ssa.GlobalDebug)
	prog.Build()
	e := &Engine{
		RepoDir: repoDir, Fset: pkgs[0].Fset, Pkgs: pkgs, Prog: prog, SSAPkgs: spkgs,
		pkgByName: map[string]*packages.Package{}, allPkgs: map[string]*types.Package{},
		Contracts: map[string]*FuncContract{}, Preds: map[string]*PredDef{},
		GhostFields: map[string]GhostField{}, StoreHooks: map[string][]*StoreHook{}, hookPkg: map[*StoreHook]string{},
		funcByKey: map[string]*ssa.Function{}, addrTaken: map[string]bool{},
		immutableGlobals: map[*ssa.Global]bool{}, errorGlobals: map[*ssa.Global]int{},
		modsets: map[*ssa.Function]map[string]bool{}, modsetBusy: map[*ssa.Function]bool{},
		implCache: map[string][]*ssa.Function{},
		leafCache: map[string][]Leaf{},
	}
	packages.Visit(pkgs, nil, func(p *packages.Package) {
		if p.Types != nil {
			e.allPkgs[p.PkgPath] = p.Types
		}
		if inModulePath(p.PkgPath) {
			moduleShortNames[p.Name] = true
			if _, dup := e.pkgByName[p.Name]; dup {
				e.pkgByName[p.PkgPath] = p // e.g. cmd/litefs (package main)
			} else {
				e.pkgByName[p.Name] = p
			}
		}
	})
	e.indexFunctions()
	e.scanAddrTaken()
	e.scanGlobals()
	return e, nil
}

func inModulePath(path string) bool {
	return path == ModulePath || strings.HasPrefix(path, ModulePath+"/")
}

func (e *Engine) inModule(p *types.Package) bool {
	return p != nil && inModulePath(p.Path())
}

func (e *Engine) fnInModule(fn *ssa.Function) bool {
	if fn == nil {
		return false
	}
	if fn.Pkg != nil {
		return e.inModule(fn.Pkg.Pkg)
	}
	if fn.Parent() != nil {
		return e.fnInModule(fn.Parent())
	}
	if o := fn.Origin(); o != nil && o != fn {
		return e.fnInModule(o)
	}
	if fn.Object() != nil {
		return e.inModule(fn.Object().Pkg())
	}
	return false
}

// moduleShortNames holds the short names of the module's own packages. A package outside the module with the
// same short name (net/http vs litefs/http) gets its import path without slashes as key prefix ("nethttp"),
// so that keys such as http.Error / http.Server.Close stay unambiguous.
var moduleShortNames = map[string]bool{}

func keyPkgName(p *types.Package) string {
	if p == nil {
		return ""
	}
	if !inModulePath(p.Path()) && moduleShortNames[p.Name()] {
		return strings.ReplaceAll(p.Path(), "/", "")
	}
	return p.Name()
}

// FuncKey gives the contract key of a function: pkg.Recv.Name / pkg.Name / parent$N.
func FuncKey(fn *ssa.Function) string {
	if fn == nil {
		return "<nil>"
	}
	if fn.Parent() != nil {
		// anonymous function: parent key + "$" + index
		idx := 0
		for i, a := range fn.Parent().AnonFuncs {
			if a == fn {
				idx = i + 1
			}
		}
		return fmt.Sprintf("%s$%d", FuncKey(fn.Parent()), idx)
	}
	pkgName := ""
	if fn.Pkg != nil {
		pkgName = keyPkgName(fn.Pkg.Pkg)
	} else if fn.Object() != nil && fn.Object().Pkg() != nil {
		pkgName = keyPkgName(fn.Object().Pkg())
	}
	if recv := fn.Signature.Recv(); recv != nil {
		t := recv.Type()
		if p, ok := t.(*types.Pointer); ok {
			t = p.Elem()
		}
		if n, ok := t.(*types.Named); ok {
			if n.Obj().Pkg() != nil {
				pkgName = keyPkgName(n.Obj().Pkg())
			}
			return pkgName + "." + n.Obj().Name() + "." + fn.Name()
		}
		return pkgName + "." + types.TypeString(t, nil) + "." + fn.Name()
	}
	name := fn.Name()
	// wrappers / bound methods keep their synthetic names
	return pkgName + "." + name
}

func (e *Engine) indexFunctions() {
	for fn := range ssautil.AllFunctions(e.Prog) {
		if fn.Synthetic != "" && !strings.HasPrefix(fn.Synthetic, "package init") {
			// still index instantiations
			if fn.Origin() == nil {
				continue
			}
		}
		k := FuncKey(fn)
		if old, ok := e.funcByKey[k]; ok && old != fn {
			// prefer module functions with bodies
			if old.Blocks != nil && fn.Blocks == nil {
				continue
			}
		}
		e.funcByKey[k] = fn
	}
}

func (e *Engine) Func(key string) *ssa.Function { return e.funcByKey[key] }

// ModuleFunctions returns all functions of module packages (with bodies), sorted by key.
func (e *Engine) ModuleFunctions() []*ssa.Function {
	var out []*ssa.Function
	for fn := range ssautil.AllFunctions(e.Prog) {
		if fn.Blocks != nil && e.fnInModule(fn) && fn.Synthetic == "" {
			out = append(out, fn)
		}
	}
	sort.Slice(out, func(i, j int) bool { return FuncKey(out[i]) < FuncKey(out[j]) })
	return out
}

// ---------------------------------------------------------------------------
// Types

func (e *Engine) qual(p *types.Package) string { return keyPkgName(p) }

var aliasRe = regexp.MustCompile(`\b(byte|rune)\b`)

// typeStr names a type for heap classes: the universe aliases byte/rune are identical to uint8/int32 and
// must share their classes.
func (e *Engine) typeStr(t types.Type) string {
	s := types.TypeString(t, e.qual)
	if strings.Contains(s, "byte") || strings.Contains(s, "rune") {
		s = aliasRe.ReplaceAllStringFunc(s, func(m string) string {
			if m == "byte" {
				return "uint8"
			}
			return "int32"
		})
	}
	return s
}

func isUnsigned(t types.Type) bool {
	if b, ok := t.Underlying().(*types.Basic); ok {
		return b.Info()&types.IsUnsigned != 0
	}
	return true // pointers etc. compare unsigned
}

func intWidth(t types.Type) int {
	b, ok := t.Underlying().(*types.Basic)
	if !ok {
		return 0
	}
	switch b.Kind() {
	case types.Int8, types.Uint8:
		return 8
	case types.Int16, types.Uint16:
		return 16
	case types.Int32, types.Uint32:
		return 32
	case types.Int, types.Uint, types.Int64, types.Uint64, types.Uintptr, types.UntypedInt, types.UntypedRune:
		return 64
	}
	return 0
}

func isIntType(t types.Type) bool { return t != nil && intWidth(t) > 0 }

func isBoolType(t types.Type) bool {
	if t == nil {
		return false
	}
	b, ok := t.Underlying().(*types.Basic)
	return ok && b.Info()&types.IsBoolean != 0
}

func isStringType(t types.Type) bool {
	if t == nil {
		return false
	}
	b, ok := t.Underlying().(*types.Basic)
	return ok && b.Info()&types.IsString != 0
}

func isFloatType(t types.Type) bool {
	if t == nil {
		return false
	}
	b, ok := t.Underlying().(*types.Basic)
	return ok && b.Info()&(types.IsFloat|types.IsComplex) != 0
}

// leavesOf flattens a Go type into SMT leaves.
func (e *Engine) leavesOf(t types.Type) []Leaf {
	key := e.typeStr(t)
	if l, ok := e.leafCache[key]; ok {
		return l
	}
	var out []Leaf
	switch u := t.Underlying().(type) {
	case *types.Basic:
		switch {
		case u.Info()&types.IsBoolean != 0:
			out = []Leaf{{"", SortBool, t}}
		case u.Info()&types.IsString != 0:
			out = []Leaf{{"", SortRef, t}}
		case u.Info()&types.IsInteger != 0:
			out = []Leaf{{"", SortBV(intWidth(t)), t}}
		case u.Kind() == types.UnsafePointer:
			out = []Leaf{{"", SortRef, t}}
		case u.Info()&types.IsFloat != 0:
			out = []Leaf{{"", SortBV(64), t}}
		case u.Info()&types.IsComplex != 0:
			out = []Leaf{{".re", SortBV(64), nil}, {".im", SortBV(64), nil}}
		case u.Kind() == types.UntypedNil:
			out = []Leaf{{"", SortRef, t}}
		default:
			out = []Leaf{{"", SortBV(64), t}}
		}
	case *types.Pointer, *types.Map, *types.Chan, *types.Signature:
		out = []Leaf{{"", SortRef, t}}
	case *types.Slice:
		out = []Leaf{{".base", SortRef, nil}, {".off", SortBV(64), nil}, {".len", SortBV(64), nil}, {".cap", SortBV(64), nil}}
	case *types.Interface:
		out = []Leaf{{".tag", SortBV(64), nil}, {".val", SortRef, nil}}
	case *types.Struct:
		for i := 0; i < u.NumFields(); i++ {
			f := u.Field(i)
			for _, l := range e.leavesOf(f.Type()) {
				out = append(out, Leaf{"." + f.Name() + l.Path, l.Sort, l.Typ})
			}
		}
		if len(out) == 0 {
			// empty struct: no leaves
			out = []Leaf{}
		}
	case *types.Array:
		for _, l := range e.leavesOf(u.Elem()) {
			out = append(out, Leaf{".arr" + l.Path, SortArr(SortBV(64), l.Sort), nil})
		}
	case *types.Tuple:
		for i := 0; i < u.Len(); i++ {
			for _, l := range e.leavesOf(u.At(i).Type()) {
				out = append(out, Leaf{fmt.Sprintf(".%d%s", i, l.Path), l.Sort, l.Typ})
			}
		}
	case *types.TypeParam:
		out = []Leaf{{"", SortRef, t}}
	default:
		out = []Leaf{{"", SortRef, t}}
	}
	e.leafCache[key] = out
	return out
}

// fieldRange returns the leaf offset and count of field idx within struct type st.
func (e *Engine) fieldRange(st *types.Struct, idx int) (int, int) {
	off := 0
	for i := 0; i < idx; i++ {
		off += len(e.leavesOf(st.Field(i).Type()))
	}
	return off, len(e.leavesOf(st.Field(idx).Type()))
}

func (e *Engine) tupleRange(tt *types.Tuple, idx int) (int, int) {
	off := 0
	for i := 0; i < idx; i++ {
		off += len(e.leavesOf(tt.At(i).Type()))
	}
	return off, len(e.leavesOf(tt.At(idx).Type()))
}

func zeroOfSort(sort string) T {
	if sort == SortBool {
		return False
	}
	if w := bvWidth(sort); w > 0 {
		return BV(0, w)
	}
	if strings.HasPrefix(sort, "(Array ") {
		// (Array K V)
		k, v := splitArraySort(sort)
		_ = k
		return "((as const " + sort + ") " + zeroOfSort(v) + ")"
	}
	panic("zeroOfSort: " + sort)
}

func splitArraySort(sort string) (string, string) {
	// "(Array K V)" where K and V are sorts (possibly parenthesised)
	s := sort[len("(Array ") : len(sort)-1]
	depth := 0
	for i := 0; i < len(s); i++ {
		switch s[i] {
		case '(':
			depth++
		case ')':
			depth--
		case ' ':
			if depth == 0 {
				return s[:i], s[i+1:]
			}
		}
	}
	panic("splitArraySort: " + sort)
}

// TypeID gives a stable non-zero tag for a concrete type stored in an interface.
func (e *Engine) TypeID(t types.Type) T {
	h := fnv.New64a()
	h.Write([]byte(e.typeStr(t)))
	return BVu(h.Sum64()|1, 64)
}

// ---------------------------------------------------------------------------
// Program scans

func structKey(e *Engine, st types.Type) string { return e.typeStr(st) }

// scanAddrTaken marks scalar struct fields whose address escapes (used other than by direct load/store).
func (e *Engine) scanAddrTaken() {
	for fn := range ssautil.AllFunctions(e.Prog) {
		if fn.Blocks == nil {
			continue
		}
		for _, b := range fn.Blocks {
			for _, ins := range b.Instrs {
				fa, ok := ins.(*ssa.FieldAddr)
				if !ok {
					continue
				}
				pt, ok := fa.X.Type().Underlying().(*types.Pointer)
				if !ok {
					continue
				}
				st, ok := pt.Elem().Underlying().(*types.Struct)
				if !ok {
					continue
				}
				ft := st.Field(fa.Field).Type()
				switch ft.Underlying().(type) {
				case *types.Struct, *types.Array:
					continue
				}
				if refs := fa.Referrers(); refs != nil {
					for _, r := range *refs {
						if !directUse(r, fa) {
							e.addrTaken[structKey(e, pt.Elem())+"|"+st.Field(fa.Field).Name()] = true
						}
					}
				}
			}
		}
	}
}

func directUse(r ssa.Instruction, addr ssa.Value) bool {
	switch u := r.(type) {
	case *ssa.UnOp:
		return u.Op == token.MUL
	case *ssa.Store:
		return u.Addr == addr && u.Val != addr
	case *ssa.DebugRef:
		return true
	}
	return false
}

func (e *Engine) scanGlobals() {
	stored := map[*ssa.Global]bool{}
	idx := 0
	for fn := range ssautil.AllFunctions(e.Prog) {
		if fn.Blocks == nil {
			continue
		}
		isInit := fn.Name() == "init" || strings.HasPrefix(fn.Name(), "init#")
		for _, b := range fn.Blocks {
			for _, ins := range b.Instrs {
				switch s := ins.(type) {
				case *ssa.Store:
					g, ok := s.Addr.(*ssa.Global)
					if !ok {
						continue
					}
					if !isInit {
						stored[g] = true
						continue
					}
					// initialised by a call to errors.New / fmt.Errorf ?
					if c, ok := s.Val.(*ssa.Call); ok {
						if cf := c.Common().StaticCallee(); cf != nil {
							n := cf.String()
							if n == "errors.New" || n == "fmt.Errorf" {
								if _, seen := e.errorGlobals[g]; !seen {
									idx++
									e.errorGlobals[g] = idx
								}
							}
						}
					}
				default:
					// address of a global escaping (passed to a call etc.) counts as possibly stored
					var ops []*ssa.Value
					ops = ins.Operands(ops)
					for _, op := range ops {
						if op == nil || *op == nil {
							continue
						}
						if g, ok := (*op).(*ssa.Global); ok {
							if u, isLoad := ins.(*ssa.UnOp); isLoad && u.Op == token.MUL {
								continue
							}
							if _, isFA := ins.(*ssa.FieldAddr); isFA {
								// conservatively: field address of a global -> mutable
								stored[g] = true
								continue
							}
							if !isInit {
								stored[g] = true
							}
						}
					}
				}
			}
		}
	}
	for _, p := range e.Prog.AllPackages() {
		for _, m := range p.Members {
			if g, ok := m.(*ssa.Global); ok && !stored[g] {
				e.immutableGlobals[g] = true
			}
		}
	}
}

// ---------------------------------------------------------------------------
// Contracts loading

// LoadContracts reads zz_contracts_verif.go of every module package (falling back to the mirror) and assumed contracts.
func (e *Engine) LoadContracts(verifDir string) error {
	for _, p := range e.sortedModulePkgs() {
		rel := strings.TrimPrefix(strings.TrimPrefix(p.PkgPath, ModulePath), "/")
		// contract files of a package: zz_contracts_verif.go and zz_contracts_<topic>_verif.go
		files, _ := filepath.Glob(filepath.Join(e.RepoDir, rel, "zz_contracts*_verif.go"))
		if len(files) == 0 {
			files, _ = filepath.Glob(filepath.Join(verifDir, "contracts", "mirror", rel, "zz_contracts*_verif.go"))
			if len(files) > 0 {
				e.MirrorUsed = append(e.MirrorUsed, rel)
			}
		}
		sort.Strings(files)
		for _, use := range files {
			cf, err := ParseContractFile(use, p.Name, false)
			if err != nil {
				return err
			}
			e.addContractFile(cf)
		}
	}
	assumed, _ := filepath.Glob(filepath.Join(verifDir, "contracts", "assumed", "*.gvc"))
	sort.Strings(assumed)
	for _, a := range assumed {
		pkg := strings.TrimSuffix(filepath.Base(a), ".gvc")
		cf, err := ParseContractFile(a, pkg, true)
		if err != nil {
			return err
		}
		e.addContractFile(cf)
	}
	return nil
}

func (e *Engine) sortedModulePkgs() []*packages.Package {
	var ps []*packages.Package
	for _, p := range e.pkgByName {
		ps = append(ps, p)
	}
	sort.Slice(ps, func(i, j int) bool { return ps[i].PkgPath < ps[j].PkgPath })
	return ps
}

func (e *Engine) addContractFile(cf *ContractFile) {
	e.ContractFiles = append(e.ContractFiles, cf.Path)
	for _, f := range cf.Funcs {
		if old, ok := e.Contracts[f.Key]; ok {
			// merge clauses (several blocks for one function are allowed)
			old.Clauses = append(old.Clauses, f.Clauses...)
			for _, t := range f.Tags {
				if !containsStr(old.Tags, t) {
					old.Tags = append(old.Tags, t)
				}
			}
			continue
		}
		e.Contracts[f.Key] = f
	}
	for _, p := range cf.Preds {
		e.Preds[cf.Pkg+"."+p.Name] = p
	}
	e.Lemmas = append(e.Lemmas, cf.Lemmas...)
	for _, g := range cf.GhostFields {
		e.GhostFields[cf.Pkg+"."+g.Struct+"."+g.Name] = g
	}
	for _, h := range cf.StoreHooks {
		k := cf.Pkg + "." + h.Struct + "." + h.Field
		e.StoreHooks[k] = append(e.StoreHooks[k], h)
		e.hookPkg[h] = cf.Pkg
	}
}

func containsStr(xs []string, x string) bool {
	for _, y := range xs {
		if y == x {
			return true
		}
	}
	return false
}

func (e *Engine) LookupPred(pkg, name string) *PredDef { return e.lookupPred(pkg, name) }

// lookupPred finds a pred/spec by name, first in pkg then anywhere.
func (e *Engine) lookupPred(pkg, name string) *PredDef {
	if p, ok := e.Preds[pkg+"."+name]; ok {
		return p
	}
	var found *PredDef
	for k, p := range e.Preds {
		if strings.HasSuffix(k, "."+name) {
			if found != nil {
				return nil
			}
			found = p
		}
	}
	return found
}

// resolveType parses a Go type expression in the scope of package pkgName.
func (e *Engine) resolveType(pkgName, text string) (types.Type, error) {
	p := e.pkgByName[pkgName]
	if p == nil {
		// assumed-contract pseudo packages: resolve in litefs root package scope
		p = e.pkgByName["litefs"]
	}
	if p == nil {
		for _, q := range e.pkgByName {
			p = q
			break
		}
	}
	// built-in special sorts
	switch text {
	case "fset":
		return fsetType, nil
	}
	// choose a position inside a file of the package so that imports are visible; try each file
	var lastErr error
	for _, f := range p.Syntax {
		tv, err := types.Eval(e.Fset, p.Types, f.End()-1, text)
		if err == nil && tv.IsType() {
			return tv.Type, nil
		}
		if err != nil {
			lastErr = err
		}
	}
	// qualified by package name we know
	if k := strings.Index(text, "."); k > 0 {
		prefix := strings.TrimLeft(text[:k], "*[]")
		for path, tp := range e.allPkgs {
			if tp.Name() == prefix || filepath.Base(path) == prefix {
				name := text[k+1:]
				if obj := tp.Scope().Lookup(name); obj != nil {
					if tn, ok := obj.(*types.TypeName); ok {
						var t types.Type = tn.Type()
						lead := text[:k-len(prefix)]
						for i := len(lead) - 1; i >= 0; i-- {
							switch lead[i] {
							case '*':
								t = types.NewPointer(t)
							case ']':
								t = types.NewSlice(t)
								i--
							}
						}
						return t, nil
					}
				}
			}
		}
	}
	return nil, fmt.Errorf("cannot resolve type %q in package %s: %v", text, pkgName, lastErr)
}

// fsetType is the synthetic finite-set-of-references sort used by ghost fields.
var fsetType types.Type = types.NewNamed(types.NewTypeName(token.NoPos, nil, "fset", nil), types.NewStruct(nil, nil), nil)

const SortFSet = "(Array (_ BitVec 64) Bool)"
