package vc

import (
	"fmt"
	"go/token"
	"go/types"
	"os"
	"regexp"
	"runtime/debug"
	"sort"
	"strings"
	"sync"

	"golang.org/x/tools/go/ssa"
)

// Val is a symbolic Go value: a vector of SMT leaves matching leavesOf(Typ).
type Val struct {
	Typ      types.Type
	Ts       []T
	Addr     *Addr    // for pointer registers produced by Alloc/FieldAddr/IndexAddr/Global
	Clo      *Closure // statically known function value
	Tuple    []Val    // for multi-value results
	Untyped  bool     // untyped constant from a contract expression
	ConstInt *string  // decimal text for untyped int constants
}

type Closure struct {
	Fn       *ssa.Function
	Bindings []Val
}

type AddrKind int

const (
	aField AddrKind = iota
	aCell
	aElem
	aLocal
	aLocalElem
	aGlobalVal
	aGhost
)

type Addr struct {
	Kind     AddrKind
	Typ      types.Type // pointee type
	Ref      T          // aField, aCell
	Struct   types.Type // aField: struct type (named where possible)
	Idx      int        // aField
	Base     T          // aElem
	Index    T          // aElem (absolute index into backing array), aLocalElem
	Cell     *Cell      // aLocal
	Off      int        // aLocal leaf offset
	Global   *ssa.Global
	GhostKey string
}

type Cell struct {
	ID   int
	Typ  types.Type
	Name string
}

// heapBase describes the initial heap of a state: an epoch or a merge of bases.
type heapBase struct {
	epoch int
	conds []T
	alts  []*heapBase
	memo  map[string]T
	// overlay: classes matching prefixes are fresh in this epoch, everything else comes from parent
	parent   *heapBase
	prefixes []string
}

type State struct {
	heap  map[string]T
	base  *heapBase
	cells map[*Cell][]T
	ghost map[string][]T
	alive T
}

func (s *State) clone() *State {
	n := &State{heap: make(map[string]T, len(s.heap)), base: s.base, cells: make(map[*Cell][]T, len(s.cells)), ghost: make(map[string][]T, len(s.ghost)), alive: s.alive}
	for k, v := range s.heap {
		n.heap[k] = v
	}
	for k, v := range s.cells {
		n.cells[k] = v
	}
	for k, v := range s.ghost {
		n.ghost[k] = v
	}
	return n
}

type Obligation struct {
	Name         string
	Kind         string
	Func         string
	Tags         []string
	PC           T
	Goal         T
	NDecl        int
	NFact        int
	Pos          token.Position
	Cover        bool // must be satisfiable (vacuity guard)
	MustFail     bool // must NOT be provable (vacuity guard over all facts)
	ExitCover    bool // reachability of one return: `unsat` is reported as a note (dead or vacuous path)
	SiteCover    bool // reachability of an asserted call site: `unsat` means the protocol obligation there is vacuous
	ThoroughOnly bool // solved in the thorough tier only (deferred in quick)
	Splits       []T  // optional case split of PC (disjunction equals PC): each case may be proved separately
	Detail       string
	// model query support: values to print when sat
	Watch []WatchTerm
}

type WatchTerm struct {
	Name string
	Term T
}

// VC accumulates declarations, facts and obligations for one root function.
type VC struct {
	E       *Engine
	Root    *ssa.Function
	RootKey string
	RootFC  *FuncContract

	decls   []string
	declSet map[string]string
	facts   []string
	Obls    []*Obligation
	n       int
	nEpoch  int
	nCell   int

	classSort  map[string]string
	strIDs     map[string]T
	subSeen    map[string]bool
	funSeen    map[string]bool
	ghostTypes map[string]types.Type
	rangeGhost map[*ssa.Range]string // map range loops: name of the ghost "keys produced so far" set

	Imprecise   []string
	UsedAssumed map[string]bool
	Unmodelled  map[string]bool
	Inlined     map[string]bool
	Havocked    map[string]bool
	UsedLemmas  map[string]bool
	Dropped     []string

	NoPanic        bool
	nameCount      map[string]int
	fsetDeclared   bool
	Fatal          string // set when the function could not be processed
	ContractErrors []string
	rootFrame      *Frame
	inQuant        int
	factSyms       map[int][]string
	mu             sync.Mutex
	defs           map[string]string
	factGuard      map[int]string      // fact index -> path condition guarding it
	factDef        map[int]string      // fact index -> name it defines (definitional equalities)
	knownAt        map[string][]string // fact -> path conditions under which it was assumed
	pcParent       map[string][]string // pc -> path conditions it implies
	pcMemo         map[string]map[string]bool
	pcSplits       map[string][]T
	concTypes      map[string]types.Type // concrete types seen boxed in interfaces / named in typeis()
	ifaceTypes     map[string]types.Type // interface types asserted to (x.(I), implements(x, I))
	freshRefs      []T
	hookMatched    map[*Clause]bool
}

// noteConcrete / noteIface keep `gv_implements` (does dynamic type C satisfy interface I) in step with Go's type
// system for every pair of a concrete type and an asserted interface that occurs in this verification condition.
func (vc *VC) noteConcrete(t types.Type) {
	if t == nil || types.IsInterface(t) {
		return
	}
	k := vc.E.typeStr(t)
	if vc.concTypes == nil {
		vc.concTypes = map[string]types.Type{}
	}
	if _, ok := vc.concTypes[k]; ok {
		return
	}
	vc.concTypes[k] = t
	for _, it := range vc.ifaceTypes {
		vc.implFact(t, it)
	}
}

func (vc *VC) noteIface(t types.Type) {
	if t == nil || !types.IsInterface(t) {
		return
	}
	k := vc.E.typeStr(t)
	if vc.ifaceTypes == nil {
		vc.ifaceTypes = map[string]types.Type{}
	}
	if _, ok := vc.ifaceTypes[k]; ok {
		return
	}
	vc.ifaceTypes[k] = t
	for _, ct := range vc.concTypes {
		vc.implFact(ct, t)
	}
}

func (vc *VC) implFact(ct, it types.Type) {
	iface, ok := it.Underlying().(*types.Interface)
	if !ok {
		return
	}
	vc.declareFun("gv_implements", []string{SortBV(64), SortBV(64)}, SortBool)
	a := app("gv_implements", vc.E.TypeID(ct), vc.E.TypeID(it))
	if types.Implements(ct, iface) {
		vc.facts = append(vc.facts, "(assert "+a+")")
	} else {
		vc.facts = append(vc.facts, "(assert "+Not(a)+")")
	}
}

// splitsFor finds a case split for pc: the disjuncts of the nearest merged path condition it implies.
func (vc *VC) splitsFor(pc T) []T {
	cur := pc
	for depth := 0; depth < 6; depth++ {
		if sp, ok := vc.pcSplits[cur]; ok {
			return sp
		}
		ps := vc.pcParent[cur]
		if len(ps) == 0 {
			return nil
		}
		// follow the first parent that has splits, else the first parent
		next := ps[0]
		for _, p := range ps {
			if _, ok := vc.pcSplits[p]; ok {
				next = p
				break
			}
		}
		cur = next
	}
	return nil
}

// pcImplies records that path condition pc implies parent.
func (vc *VC) pcImplies(pc, parent T) {
	if pc == parent || pc == True || pc == False {
		return
	}
	if vc.pcParent == nil {
		vc.pcParent = map[string][]string{}
	}
	for _, p := range vc.pcParent[pc] {
		if p == parent {
			return
		}
	}
	vc.pcParent[pc] = append(vc.pcParent[pc], parent)
	vc.pcMemo = nil
}

func (vc *VC) impliedSet(pc T) map[string]bool {
	if vc.pcMemo == nil {
		vc.pcMemo = map[string]map[string]bool{}
	}
	if m, ok := vc.pcMemo[pc]; ok {
		return m
	}
	m := map[string]bool{pc: true, True: true}
	vc.pcMemo[pc] = m
	for _, p := range vc.pcParent[pc] {
		for q := range vc.impliedSet(p) {
			m[q] = true
		}
	}
	if strings.HasPrefix(pc, "(or ") {
		// a disjunction implies what every disjunct implies
		args := splitArgs(pc)
		var common map[string]bool
		for _, a := range args {
			s := vc.impliedSet(a)
			if common == nil {
				common = map[string]bool{}
				for q := range s {
					common[q] = true
				}
				continue
			}
			for q := range common {
				if !s[q] {
					delete(common, q)
				}
			}
		}
		for q := range common {
			m[q] = true
		}
	}
	if strings.HasPrefix(pc, "(and ") {
		for _, a := range splitArgs(pc) {
			for q := range vc.impliedSet(a) {
				m[q] = true
			}
		}
	}
	return m
}

// knownUnder reports whether goal was assumed under a path condition implied by pc.
func (vc *VC) knownUnder(pc, goal T) bool {
	pcs, ok := vc.knownAt[goal]
	if !ok {
		return false
	}
	imp := vc.impliedSet(pc)
	for _, p := range pcs {
		if imp[p] {
			return true
		}
	}
	return false
}

func NewVC(e *Engine, root *ssa.Function) *VC {
	return &VC{E: e, Root: root, RootKey: FuncKey(root), declSet: map[string]string{}, classSort: map[string]string{},
		strIDs: map[string]T{}, subSeen: map[string]bool{}, funSeen: map[string]bool{}, ghostTypes: map[string]types.Type{},
		UsedAssumed: map[string]bool{}, Unmodelled: map[string]bool{}, Inlined: map[string]bool{}, Havocked: map[string]bool{}, UsedLemmas: map[string]bool{},
		nameCount: map[string]int{}, defs: map[string]string{}}
}

func (vc *VC) declare(name, sort string) {
	if s, ok := vc.declSet[name]; ok {
		if s != sort {
			panic(fmt.Sprintf("redeclared %s: %s vs %s", name, s, sort))
		}
		return
	}
	vc.declSet[name] = sort
	vc.decls = append(vc.decls, "(declare-const "+name+" "+sort+")")
}

func (vc *VC) declareFun(name string, args []string, ret string) {
	if _, ok := vc.declSet[name]; ok {
		return
	}
	vc.declSet[name] = "fun"
	vc.decls = append(vc.decls, "(declare-fun "+name+" ("+strings.Join(args, " ")+") "+ret+")")
}

func (vc *VC) fresh(hint, sort string) T {
	vc.n++
	name := fmt.Sprintf("%s!%d", smtName(hint), vc.n)
	vc.declare(name, sort)
	return name
}

// define introduces a name for a term (keeps scripts linear in size).
func (vc *VC) define(hint, sort string, t T) T {
	if len(t) < 48 || vc.inQuant > 0 || !strings.ContainsAny(t, " (") {
		return t
	}
	n := vc.fresh(hint, sort)
	if vc.factDef == nil {
		vc.factDef = map[int]string{}
	}
	vc.factDef[len(vc.facts)] = n
	vc.facts = append(vc.facts, "(assert (= "+n+" "+t+"))")
	if strings.HasPrefix(t, "(store ") {
		vc.defs[n] = t
	}
	if sort == SortBool {
		vc.pcImplies(n, t)
		if strings.HasPrefix(t, "(and ") {
			for _, a := range splitArgs(t) {
				vc.pcImplies(n, a)
			}
		}
	}
	return n
}

func (vc *VC) assume(pc, fact T) {
	if fact == False && os.Getenv("GOVC_DEBUG_FALSE") != "" {
		fmt.Fprintf(os.Stderr, "assume false under %s\n%s\n", pc, debug.Stack())
	}
	f := Imp(pc, fact)
	if f == True {
		return
	}
	if vc.knownAt == nil {
		vc.knownAt = map[string][]string{}
	}
	if len(fact) < 4000 {
		vc.knownAt[fact] = append(vc.knownAt[fact], pc)
	}
	if vc.factGuard == nil {
		vc.factGuard = map[int]string{}
	}
	if pc != True {
		vc.factGuard[len(vc.facts)] = pc
	}
	vc.facts = append(vc.facts, "(assert "+f+")")
}

func (vc *VC) imprecise(format string, args ...interface{}) {
	s := fmt.Sprintf(format, args...)
	for _, x := range vc.Imprecise {
		if x == s {
			return
		}
	}
	vc.Imprecise = append(vc.Imprecise, s)
}

func (vc *VC) oblige(kind, name string, tags []string, pc, goal T, pos token.Pos, detail string) *Obligation {
	vc.nameCount[name]++
	if c := vc.nameCount[name]; c > 1 {
		name = fmt.Sprintf("%s#%d", name, c)
	}
	o := &Obligation{Name: name, Kind: kind, Func: vc.RootKey, Tags: tags, PC: pc, Goal: goal, NDecl: len(vc.decls), NFact: len(vc.facts), Detail: detail}
	if containsStr(tags, "thorough") {
		o.ThoroughOnly = true
	}
	if vc.RootFC != nil {
		for _, c := range vc.RootFC.Clauses {
			if c.Kind == "thorough" && c.Callee != "" && strings.Contains(name, c.Callee) {
				o.ThoroughOnly = true
			}
		}
	}
	if sp := vc.splitsFor(pc); len(sp) > 1 {
		o.Splits = sp
	}
	if vc.knownUnder(pc, goal) {
		// literally among the facts already assumed under a path condition that pc implies
		o.Goal = True
		o.Detail += " [syntactically known]"
	}
	if pos.IsValid() {
		o.Pos = vc.E.Fset.Position(pos)
	}
	vc.Obls = append(vc.Obls, o)
	return o
}

var symRe = regexp.MustCompile(`[A-Za-z_][A-Za-z0-9_.$!]*`)

func isHubSymbol(s string) bool {
	if strings.HasPrefix(s, "alive") || strings.HasPrefix(s, "gv_") {
		return true
	}
	if len(s) > 2 && s[0] == 'H' && s[1] >= '0' && s[1] <= '9' {
		return true
	}
	switch s {
	case "assert", "select", "store", "and", "or", "not", "ite", "forall", "exists", "true", "false", "bv0", "BitVec", "Array", "as", "const", "let", "pattern", "distinct",
		"bvadd", "bvsub", "bvmul", "bvand", "bvor", "bvxor", "bvnot", "bvneg", "bvult", "bvule", "bvugt", "bvuge", "bvslt", "bvsle", "bvsgt", "bvsge", "bvshl", "bvlshr", "bvashr", "bvudiv", "bvsdiv", "bvurem", "bvsrem", "concat", "extract", "zero_extend", "sign_extend", "_", "r", "k", "Bool":
		return true
	}
	if strings.HasPrefix(s, "bv") {
		return true
	}
	return false
}

func (vc *VC) factSymbols(i int) []string {
	if vc.factSyms == nil {
		vc.factSyms = map[int][]string{}
	}
	if s, ok := vc.factSyms[i]; ok {
		return s
	}
	seen := map[string]bool{}
	var out []string
	for _, m := range symRe.FindAllString(vc.facts[i], -1) {
		if !seen[m] && !isHubSymbol(m) {
			seen[m] = true
			out = append(out, m)
		}
	}
	vc.factSyms[i] = out
	return out
}

// sliceFacts selects the facts in the cone of influence of the obligation (hub symbols such as the
// allocation arrays, initial heaps and theory functions do not propagate relevance).
func (vc *VC) sliceFacts(o *Obligation) []bool {
	vc.mu.Lock()
	defer vc.mu.Unlock()
	rel := map[string]bool{}
	for _, m := range symRe.FindAllString(o.PC+" "+o.Goal, -1) {
		if !isHubSymbol(m) {
			rel[m] = true
		}
	}
	inc := make([]bool, o.NFact)
	var imp map[string]bool
	if guardFilter {
		imp = vc.impliedSet(o.PC)
	}
	changed := true
	for changed {
		changed = false
		for i := 0; i < o.NFact; i++ {
			if inc[i] {
				continue
			}
			if imp != nil {
				if g, ok := vc.factGuard[i]; ok && !imp[g] {
					continue
				}
			}
			if name, isDef := vc.factDef[i]; isDef {
				// definitions are followed from the defined name only
				if rel[name] {
					inc[i] = true
					changed = true
					for _, s := range vc.factSymbols(i) {
						rel[s] = true
					}
				}
				continue
			}
			syms := vc.factSymbols(i)
			hit := len(syms) == 0 // facts over hub symbols only (theory axioms, alive definitions) are always kept
			for _, s := range syms {
				if rel[s] {
					hit = true
					break
				}
			}
			if hit {
				inc[i] = true
				changed = true
				for _, s := range syms {
					rel[s] = true
				}
			}
		}
	}
	return inc
}

// BatchScript renders one incremental script for several obligations that share the same prefix and path condition.
func (vc *VC) BatchScript(os []*Obligation) string {
	o := os[0]
	vc.mu.Lock()
	imp := vc.impliedSet(o.PC)
	vc.mu.Unlock()
	var b strings.Builder
	b.WriteString("(set-logic ALL)\n")
	for _, d := range vc.decls[:o.NDecl] {
		b.WriteString(d)
		b.WriteByte('\n')
	}
	seen := map[string]bool{}
	for fi, f := range vc.facts[:o.NFact] {
		if g, ok := vc.factGuard[fi]; ok && !imp[g] {
			continue
		}
		if seen[f] {
			continue
		}
		seen[f] = true
		b.WriteString(f)
		b.WriteByte('\n')
	}
	if o.PC != True {
		b.WriteString("(assert " + o.PC + ")\n")
	}
	for _, x := range os {
		b.WriteString("(push 1)\n(assert (not " + x.Goal + "))\n(check-sat)\n(pop 1)\n")
	}
	return b.String()
}

// Script renders the SMT-LIB2 script of an obligation.
func (vc *VC) Script(o *Obligation, withModel bool) string {
	return vc.ScriptOpt(o, withModel, false)
}

func (vc *VC) ScriptOpt(o *Obligation, withModel, sliced bool) string {
	var inc []bool
	if sliced {
		inc = vc.sliceFacts(o)
		// facts guarded by a path condition that the obligation's path does not imply cannot take part in its proof
		vc.mu.Lock()
		imp := vc.impliedSet(o.PC)
		for i := 0; i < o.NFact; i++ {
			if g, ok := vc.factGuard[i]; ok && inc[i] && !imp[g] && guardFilter {
				inc[i] = false
			}
		}
		vc.mu.Unlock()
	}
	var b strings.Builder
	if withModel {
		b.WriteString("(set-option :produce-models true)\n")
	}
	b.WriteString("(set-logic ALL)\n")
	b.WriteString("; obligation " + o.Name + "\n")
	if o.Pos.IsValid() {
		b.WriteString("; at " + o.Pos.String() + "\n")
	}
	for _, d := range vc.decls[:o.NDecl] {
		b.WriteString(d)
		b.WriteByte('\n')
	}
	seenFact := map[string]bool{}
	for fi, f := range vc.facts[:o.NFact] {
		if inc != nil && !inc[fi] {
			continue
		}
		if seenFact[f] {
			continue
		}
		seenFact[f] = true
		if o.Cover && (strings.Contains(f, "(forall ") || strings.Contains(f, "(exists ")) {
			// reachability queries are posed over the quantifier-free part (DESIGN 2.9)
			continue
		}
		b.WriteString(f)
		b.WriteByte('\n')
	}
	if o.Cover {
		b.WriteString("(assert " + And(o.PC, o.Goal) + ")\n")
	} else {
		b.WriteString("(assert (not " + Imp(o.PC, o.Goal) + "))\n")
	}
	b.WriteString("(check-sat)\n")
	if withModel {
		for _, w := range o.Watch {
			b.WriteString("(get-value (" + w.Term + "))\n")
		}
	}
	return b.String()
}

// ---------------------------------------------------------------------------
// Heap classes

func (vc *VC) newEpoch() *heapBase {
	vc.nEpoch++
	return &heapBase{epoch: vc.nEpoch, memo: map[string]T{}}
}

func (vc *VC) initialHeap(b *heapBase, class string) T {
	if t, ok := b.memo[class]; ok {
		return t
	}
	sort := vc.classSort[class]
	var t T
	if b.parent != nil {
		hit := false
		for _, p := range b.prefixes {
			if matchClass(p, class) {
				hit = true
				break
			}
		}
		if !hit {
			t = vc.initialHeap(b.parent, class)
			b.memo[class] = t
			return t
		}
	}
	if b.alts == nil {
		name := fmt.Sprintf("H%d_%s", b.epoch, smtName(class))
		if _, seen := vc.declSet[name]; !seen && b.epoch == 0 && strings.HasPrefix(class, "G|") && sort == SortArr(SortRef, SortFSet) {
			// ghost sets only ever receive references of existing objects (store hooks on those objects): A-GHOST
			vc.declare(name, sort)
			vc.facts = append(vc.facts, "(assert (forall ((r (_ BitVec 64)) (x (_ BitVec 64))) (! (=> (select (select "+name+" r) x) (select alive0 x)) :pattern ((select (select "+name+" r) x)))))")
		}
		vc.declare(name, sort)
		t = name
	} else {
		t = vc.initialHeap(b.alts[len(b.alts)-1], class)
		for i := len(b.alts) - 2; i >= 0; i-- {
			t = Ite(b.conds[i], vc.initialHeap(b.alts[i], class), t)
		}
		t = vc.define("Hm_"+class, sort, t)
	}
	b.memo[class] = t
	return t
}

func (vc *VC) heapGet(st *State, class, sort string) T {
	if old, ok := vc.classSort[class]; ok {
		if old != sort {
			panic(fmt.Sprintf("class %s: sort %s vs %s", class, old, sort))
		}
	} else {
		vc.classSort[class] = sort
	}
	if t, ok := st.heap[class]; ok {
		return t
	}
	return vc.initialHeap(st.base, class)
}

func (vc *VC) heapSet(st *State, class, sort string, t T) {
	vc.classSort[class] = sort
	st.heap[class] = vc.define("H_"+class, sort, t)
}

func (vc *VC) newState() *State {
	st := &State{heap: map[string]T{}, base: &heapBase{epoch: 0, memo: map[string]T{}}, cells: map[*Cell][]T{}, ghost: map[string][]T{}}
	vc.declare("alive0", SortArr(SortRef, SortBool))
	st.alive = "alive0"
	return st
}

// havocAll forgets the whole heap (unknown code ran).
func (vc *VC) havocAll(st *State) {
	st.heap = map[string]T{}
	st.base = vc.newEpoch()
}

// mergeStates builds the state holding st[i] under conds[i] (conds are assumed exhaustive and exclusive).
func (vc *VC) mergeStates(conds []T, sts []*State) *State {
	if len(sts) == 1 {
		return sts[0].clone()
	}
	out := &State{heap: map[string]T{}, cells: map[*Cell][]T{}, ghost: map[string][]T{}}
	// base
	same := true
	for _, s := range sts[1:] {
		if s.base != sts[0].base {
			same = false
		}
	}
	if same {
		out.base = sts[0].base
	} else {
		hb := &heapBase{memo: map[string]T{}}
		for i, s := range sts {
			hb.conds = append(hb.conds, conds[i])
			hb.alts = append(hb.alts, s.base)
		}
		out.base = hb
	}
	classes := map[string]bool{}
	for _, s := range sts {
		for k := range s.heap {
			classes[k] = true
		}
	}
	var keys []string
	for k := range classes {
		keys = append(keys, k)
	}
	sort.Strings(keys)
	for _, k := range keys {
		srt := vc.classSort[k]
		t := vc.heapGet(sts[len(sts)-1], k, srt)
		allSame := true
		for i := len(sts) - 2; i >= 0; i-- {
			ti := vc.heapGet(sts[i], k, srt)
			if ti != t {
				allSame = false
			}
			t = Ite(conds[i], ti, t)
		}
		if allSame {
			t = vc.heapGet(sts[0], k, srt)
		}
		out.heap[k] = vc.define("H_"+k, srt, t)
	}
	// cells
	cellSet := map[*Cell]bool{}
	for _, s := range sts {
		for c := range s.cells {
			cellSet[c] = true
		}
	}
	var cells []*Cell
	for c := range cellSet {
		cells = append(cells, c)
	}
	sort.Slice(cells, func(i, j int) bool { return cells[i].ID < cells[j].ID })
	for _, c := range cells {
		leaves := vc.E.leavesOf(c.Typ)
		var vals [][]T
		for _, s := range sts {
			v, ok := s.cells[c]
			if !ok {
				v = vc.zeroLeaves(c.Typ)
			}
			vals = append(vals, v)
		}
		res := make([]T, len(leaves))
		for li := range leaves {
			t := vals[len(sts)-1][li]
			for i := len(sts) - 2; i >= 0; i-- {
				t = Ite(conds[i], vals[i][li], t)
			}
			res[li] = vc.define("c_"+c.Name, leaves[li].Sort, t)
		}
		out.cells[c] = res
	}
	// ghost
	gset := map[string]bool{}
	for _, s := range sts {
		for g := range s.ghost {
			gset[g] = true
		}
	}
	var gs []string
	for g := range gset {
		gs = append(gs, g)
	}
	sort.Strings(gs)
	for _, g := range gs {
		leaves := vc.leavesOfGhost(vc.ghostTypes[g])
		res := make([]T, len(leaves))
		at := func(s *State, li int) T {
			if gv := s.ghost[g]; li < len(gv) {
				return gv[li]
			}
			// a path that has not reached the statement introducing this ghost (map-range key sets): its initial value
			if leaves[li].Sort == SortFSet {
				return "((as const " + SortFSet + ") false)"
			}
			return zeroOfSort(leaves[li].Sort)
		}
		for li := range leaves {
			t := at(sts[len(sts)-1], li)
			for i := len(sts) - 2; i >= 0; i-- {
				t = Ite(conds[i], at(sts[i], li), t)
			}
			res[li] = vc.define("g_"+g, leaves[li].Sort, t)
		}
		out.ghost[g] = res
	}
	// alive
	t := sts[len(sts)-1].alive
	for i := len(sts) - 2; i >= 0; i-- {
		t = Ite(conds[i], sts[i].alive, t)
	}
	out.alive = vc.define("alive", SortArr(SortRef, SortBool), t)
	return out
}

func (vc *VC) zeroLeaves(t types.Type) []T {
	ls := vc.E.leavesOf(t)
	out := make([]T, len(ls))
	for i, l := range ls {
		out[i] = zeroOfSort(l.Sort)
	}
	return out
}

func (vc *VC) zeroVal(t types.Type) Val { return Val{Typ: t, Ts: vc.zeroLeaves(t)} }

func (vc *VC) freshVal(hint string, t types.Type) Val {
	ls := vc.E.leavesOf(t)
	out := make([]T, len(ls))
	for i, l := range ls {
		out[i] = vc.fresh(hint+l.Path, l.Sort)
	}
	return Val{Typ: t, Ts: out}
}

// class names
func (vc *VC) classField(st types.Type, fname, leaf string) string {
	return "F|" + vc.E.typeStr(st) + "|" + fname + leaf
}
func (vc *VC) classCell(t types.Type, leaf string) string { return "C|" + vc.E.typeStr(t) + leaf }
func (vc *VC) classSlice(t types.Type, leaf string) string {
	return "S|" + vc.E.typeStr(t) + leaf
}
func (vc *VC) classMap(t types.Type, what string) string { return "M|" + vc.E.typeStr(t) + "|" + what }

// Channel closedness: one heap class per channel element type, ref -> closed?. `make(chan T)` yields a fresh open
// channel, close(ch) sets the bit (and, under nopanic, must find it unset and ch non-nil), contracts read it with closed(ch).
func (e *Engine) classChanClosed(t types.Type) string {
	if ct, ok := t.Underlying().(*types.Chan); ok {
		return "K|chan|" + e.typeStr(ct.Elem())
	}
	return "K|chan|?"
}

var sortChanClosed = SortArr(SortRef, SortBool)

// subRef is the injective derived reference of a by-value nested field.
func (vc *VC) subRef(st types.Type, fname string, ref T) T {
	fn := "gv_sub_" + smtName(vc.E.typeStr(st)) + "_" + smtName(fname)
	inv := fn + "_inv"
	vc.declareFun(fn, []string{SortRef}, SortRef)
	vc.declareFun(inv, []string{SortRef}, SortRef)
	vc.declareFun("gv_subtag", []string{SortRef}, SortBV(64))
	t := app(fn, ref)
	if !vc.subSeen[t] && vc.inQuant == 0 {
		vc.subSeen[t] = true
		tag := vc.E.TypeID(types.NewPointer(st))
		// tag differs per (struct, field)
		tagT := BVBig(hashBig(fn), 64)
		_ = tag
		vc.facts = append(vc.facts, "(assert (and (= "+app(inv, t)+" "+ref+") (= (gv_subtag "+t+") "+tagT+") (=> (not (= "+ref+" "+BV(0, 64)+")) (not (= "+t+" "+BV(0, 64)+"))) (=> (select alive0 "+ref+") (select alive0 "+t+"))))")
	}
	return t
}

// elemRef is the injective reference of a struct-typed slice element.
func (vc *VC) elemRef(base, idx T) T {
	vc.declareFun("gv_elem", []string{SortRef, SortBV(64)}, SortRef)
	vc.declareFun("gv_elem_base", []string{SortRef}, SortRef)
	vc.declareFun("gv_elem_idx", []string{SortRef}, SortBV(64))
	vc.declareFun("gv_subtag", []string{SortRef}, SortBV(64))
	t := app("gv_elem", base, idx)
	if !vc.subSeen[t] && vc.inQuant == 0 {
		vc.subSeen[t] = true
		vc.facts = append(vc.facts, "(assert (and (= (gv_elem_base "+t+") "+base+") (= (gv_elem_idx "+t+") "+idx+") (= (gv_subtag "+t+") "+BV(7, 64)+") (not (= "+t+" "+BV(0, 64)+"))))")
	}
	return t
}

// ---------------------------------------------------------------------------
// Loads and stores

func structOf(t types.Type) (*types.Struct, bool) {
	s, ok := t.Underlying().(*types.Struct)
	return s, ok
}

func (vc *VC) loadAddr(st *State, a *Addr) Val {
	e := vc.E
	switch a.Kind {
	case aLocal:
		n := len(e.leavesOf(a.Typ))
		cur, ok := st.cells[a.Cell]
		if !ok {
			cur = vc.zeroLeaves(a.Cell.Typ)
			st.cells[a.Cell] = cur
		}
		return Val{Typ: a.Typ, Ts: append([]T(nil), cur[a.Off:a.Off+n]...)}
	case aLocalElem:
		cur, ok := st.cells[a.Cell]
		if !ok {
			cur = vc.zeroLeaves(a.Cell.Typ)
			st.cells[a.Cell] = cur
		}
		ls := e.leavesOf(a.Typ)
		out := make([]T, len(ls))
		for i := range ls {
			out[i] = Sel(cur[a.Off+i], a.Index)
		}
		return Val{Typ: a.Typ, Ts: out}
	case aGlobalVal:
		return vc.globalValue(a.Global)
	case aGhost:
		return vc.loadGhostField(st, a.GhostKey, a.Typ, a.Ref)
	case aField:
		sty, _ := structOf(a.Struct)
		f := sty.Field(a.Idx)
		ft := f.Type()
		switch ft.Underlying().(type) {
		case *types.Struct:
			return vc.loadAddr(st, &Addr{Kind: aCell, Typ: ft, Ref: vc.subRef(a.Struct, f.Name(), a.Ref)})
		case *types.Array:
			return vc.loadAddr(st, &Addr{Kind: aCell, Typ: ft, Ref: vc.subRef(a.Struct, f.Name(), a.Ref)})
		}
		if e.addrTaken[structKey(e, a.Struct)+"|"+f.Name()] {
			return vc.loadAddr(st, &Addr{Kind: aCell, Typ: ft, Ref: vc.subRef(a.Struct, f.Name(), a.Ref)})
		}
		ls := e.leavesOf(ft)
		out := make([]T, len(ls))
		for i, l := range ls {
			out[i] = Sel(vc.heapGet(st, vc.classField(a.Struct, f.Name(), l.Path), SortArr(SortRef, l.Sort)), a.Ref)
		}
		return Val{Typ: ft, Ts: out}
	case aCell:
		if sty, ok := structOf(a.Typ); ok {
			var out []T
			for i := 0; i < sty.NumFields(); i++ {
				v := vc.loadAddr(st, &Addr{Kind: aField, Typ: sty.Field(i).Type(), Ref: a.Ref, Struct: a.Typ, Idx: i})
				out = append(out, v.Ts...)
			}
			return Val{Typ: a.Typ, Ts: out}
		}
		if at, ok := a.Typ.Underlying().(*types.Array); ok {
			ls := e.leavesOf(at.Elem())
			out := make([]T, len(ls))
			for i, l := range ls {
				out[i] = Sel(vc.heapGet(st, vc.classSlice(at.Elem(), l.Path), SortArr(SortRef, SortArr(SortBV(64), l.Sort))), a.Ref)
			}
			return Val{Typ: a.Typ, Ts: out}
		}
		ls := e.leavesOf(a.Typ)
		out := make([]T, len(ls))
		for i, l := range ls {
			out[i] = Sel(vc.heapGet(st, vc.classCell(a.Typ, l.Path), SortArr(SortRef, l.Sort)), a.Ref)
		}
		return Val{Typ: a.Typ, Ts: out}
	case aElem:
		if _, ok := structOf(a.Typ); ok {
			return vc.loadAddr(st, &Addr{Kind: aCell, Typ: a.Typ, Ref: vc.elemRef(a.Base, a.Index)})
		}
		if _, ok := a.Typ.Underlying().(*types.Array); ok {
			return vc.loadAddr(st, &Addr{Kind: aCell, Typ: a.Typ, Ref: vc.elemRef(a.Base, a.Index)})
		}
		ls := e.leavesOf(a.Typ)
		out := make([]T, len(ls))
		for i, l := range ls {
			out[i] = Sel(Sel(vc.heapGet(st, vc.classSlice(a.Typ, l.Path), SortArr(SortRef, SortArr(SortBV(64), l.Sort))), a.Base), a.Index)
		}
		return Val{Typ: a.Typ, Ts: out}
	}
	panic("loadAddr: bad kind")
}

func (vc *VC) storeAddr(st *State, a *Addr, v Val) {
	e := vc.E
	switch a.Kind {
	case aLocal:
		cur, ok := st.cells[a.Cell]
		if !ok {
			cur = vc.zeroLeaves(a.Cell.Typ)
		}
		n := append([]T(nil), cur...)
		copy(n[a.Off:], v.Ts)
		st.cells[a.Cell] = n
	case aLocalElem:
		cur, ok := st.cells[a.Cell]
		if !ok {
			cur = vc.zeroLeaves(a.Cell.Typ)
		}
		n := append([]T(nil), cur...)
		for i := range v.Ts {
			n[a.Off+i] = Sto(cur[a.Off+i], a.Index, v.Ts[i])
		}
		st.cells[a.Cell] = n
	case aGlobalVal:
		vc.imprecise("store to immutable global %s", a.Global.Name())
	case aGhost:
		vc.storeGhostField(st, a.GhostKey, a.Typ, a.Ref, v)
	case aField:
		sty, _ := structOf(a.Struct)
		f := sty.Field(a.Idx)
		ft := f.Type()
		switch ft.Underlying().(type) {
		case *types.Struct, *types.Array:
			vc.storeAddr(st, &Addr{Kind: aCell, Typ: ft, Ref: vc.subRef(a.Struct, f.Name(), a.Ref)}, v)
			return
		}
		if e.addrTaken[structKey(e, a.Struct)+"|"+f.Name()] {
			vc.storeAddr(st, &Addr{Kind: aCell, Typ: ft, Ref: vc.subRef(a.Struct, f.Name(), a.Ref)}, v)
			return
		}
		ls := e.leavesOf(ft)
		for i, l := range ls {
			cl := vc.classField(a.Struct, f.Name(), l.Path)
			srt := SortArr(SortRef, l.Sort)
			vc.heapSet(st, cl, srt, Sto(vc.heapGet(st, cl, srt), a.Ref, v.Ts[i]))
		}
	case aCell:
		if sty, ok := structOf(a.Typ); ok {
			off := 0
			for i := 0; i < sty.NumFields(); i++ {
				n := len(e.leavesOf(sty.Field(i).Type()))
				vc.storeAddr(st, &Addr{Kind: aField, Typ: sty.Field(i).Type(), Ref: a.Ref, Struct: a.Typ, Idx: i}, Val{Typ: sty.Field(i).Type(), Ts: v.Ts[off : off+n]})
				off += n
			}
			return
		}
		if at, ok := a.Typ.Underlying().(*types.Array); ok {
			ls := e.leavesOf(at.Elem())
			for i, l := range ls {
				cl := vc.classSlice(at.Elem(), l.Path)
				srt := SortArr(SortRef, SortArr(SortBV(64), l.Sort))
				vc.heapSet(st, cl, srt, Sto(vc.heapGet(st, cl, srt), a.Ref, v.Ts[i]))
			}
			return
		}
		ls := e.leavesOf(a.Typ)
		for i, l := range ls {
			cl := vc.classCell(a.Typ, l.Path)
			srt := SortArr(SortRef, l.Sort)
			vc.heapSet(st, cl, srt, Sto(vc.heapGet(st, cl, srt), a.Ref, v.Ts[i]))
		}
	case aElem:
		if _, ok := structOf(a.Typ); ok {
			vc.storeAddr(st, &Addr{Kind: aCell, Typ: a.Typ, Ref: vc.elemRef(a.Base, a.Index)}, v)
			return
		}
		if _, ok := a.Typ.Underlying().(*types.Array); ok {
			vc.storeAddr(st, &Addr{Kind: aCell, Typ: a.Typ, Ref: vc.elemRef(a.Base, a.Index)}, v)
			return
		}
		ls := e.leavesOf(a.Typ)
		for i, l := range ls {
			cl := vc.classSlice(a.Typ, l.Path)
			srt := SortArr(SortRef, SortArr(SortBV(64), l.Sort))
			h := vc.heapGet(st, cl, srt)
			vc.heapSet(st, cl, srt, Sto(h, a.Base, Sto(Sel(h, a.Base), a.Index, v.Ts[i])))
		}
	}
}

// materialize turns an address descriptor into a reference value (BV64), where possible.
func (vc *VC) materialize(v Val) T {
	if v.Addr == nil {
		if len(v.Ts) == 1 {
			return v.Ts[0]
		}
		panic("materialize: not a pointer value")
	}
	a := v.Addr
	switch a.Kind {
	case aCell:
		return a.Ref
	case aField:
		sty, _ := structOf(a.Struct)
		f := sty.Field(a.Idx)
		switch f.Type().Underlying().(type) {
		case *types.Struct, *types.Array:
			return vc.subRef(a.Struct, f.Name(), a.Ref)
		}
		if !vc.E.addrTaken[structKey(vc.E, a.Struct)+"|"+f.Name()] {
			vc.imprecise("address of field %s.%s escapes but was not marked address-taken", vc.E.typeStr(a.Struct), f.Name())
		}
		return vc.subRef(a.Struct, f.Name(), a.Ref)
	case aElem:
		return vc.elemRef(a.Base, a.Index)
	case aGlobalVal:
		return vc.globalRef(a.Global)
	}
	vc.imprecise("address of local cell escapes")
	return vc.fresh("escaped", SortRef)
}

// addrOfPointer interprets a pointer value (without descriptor) by its static pointee type.
func (vc *VC) addrOfPointer(v Val, pointee types.Type) *Addr {
	if v.Addr != nil {
		return v.Addr
	}
	return &Addr{Kind: aCell, Typ: pointee, Ref: v.Ts[0]}
}

// ---------------------------------------------------------------------------
// Globals and strings

func (vc *VC) globalRef(g *ssa.Global) T {
	name := "gv_glob_" + smtName(keyPkgName(g.Pkg.Pkg)+"."+g.Name())
	if _, ok := vc.declSet[name]; !ok {
		vc.declare(name, SortRef)
		h := hashBig(g.Pkg.Pkg.Path() + "." + g.Name())
		// globals live at fixed distinct addresses in a reserved range
		addr := BVBig(h, 64)
		vc.facts = append(vc.facts, "(assert (= "+name+" "+addr+"))")
		vc.facts = append(vc.facts, "(assert (select alive0 "+name+"))")
	}
	return name
}

func (vc *VC) globalValue(g *ssa.Global) Val {
	t := g.Type().(*types.Pointer).Elem()
	ls := vc.E.leavesOf(t)
	out := make([]T, len(ls))
	first := false
	for i, l := range ls {
		name := "gv_gval_" + smtName(keyPkgName(g.Pkg.Pkg)+"."+g.Name()+l.Path)
		if _, ok := vc.declSet[name]; !ok {
			first = true
			vc.declare(name, l.Sort)
		}
		out[i] = name
	}
	if first {
		if _, isIface := t.Underlying().(*types.Interface); isIface {
			isErr := types.Implements(t, errorIface())
			if isErr || vc.E.errorGlobals[g] > 0 {
				// sentinel error: non-nil, payload is a distinct live object
				h := hashBig("errval:" + g.Pkg.Pkg.Path() + "." + g.Name())
				vc.facts = append(vc.facts, "(assert (and (not (= "+out[0]+" "+BV(0, 64)+")) (= "+out[1]+" "+BVBig(h, 64)+") (select alive0 "+out[1]+")))")
			}
		}
	}
	return Val{Typ: t, Ts: out}
}

func errorIface() *types.Interface {
	return types.Universe.Lookup("error").Type().Underlying().(*types.Interface)
}

func (vc *VC) strFuns() {
	vc.declareFun("gv_strlen", []string{SortRef}, SortBV(64))
	vc.declareFun("gv_strdata", []string{SortRef}, SortArr(SortBV(64), SortBV(8)))
}

func (vc *VC) strConst(s string) T {
	vc.strFuns()
	if s == "" {
		if !vc.funSeen["emptystr"] {
			vc.funSeen["emptystr"] = true
			vc.facts = append(vc.facts, "(assert (= (gv_strlen "+BV(0, 64)+") "+BV(0, 64)+"))")
		}
		return BV(0, 64)
	}
	if t, ok := vc.strIDs[s]; ok {
		return t
	}
	h := hashBig("str:" + s)
	t := BVBig(h, 64)
	vc.strIDs[s] = t
	fact := "(= (gv_strlen " + t + ") " + BV(int64(len(s)), 64) + ")"
	if len(s) <= 16 {
		for i := 0; i < len(s); i++ {
			fact += " (= (select (gv_strdata " + t + ") " + BV(int64(i), 64) + ") " + BV(int64(s[i]), 8) + ")"
		}
	}
	vc.facts = append(vc.facts, "(assert (and "+fact+"))")
	return t
}

// strCat: string concatenation as an uninterpreted function of the two operands (so that contracts can name the
// same value as the code); only its length is axiomatised.
func (vc *VC) strCat(pc, a, b T) T {
	vc.strFuns()
	vc.declareFun("gv_strcat", []string{SortRef, SortRef}, SortRef)
	r := app("gv_strcat", a, b)
	vc.assume(pc, Eq(vc.strLen(r), app("bvadd", vc.strLen(a), vc.strLen(b))))
	return r
}

func (vc *VC) strLen(sid T) T {
	vc.strFuns()
	if sid == BV(0, 64) {
		return BV(0, 64)
	}
	t := app("gv_strlen", sid)
	if !vc.subSeen[t] && vc.inQuant == 0 {
		vc.subSeen[t] = true
		// lengths are non-negative ints; the empty string is canonical
		vc.facts = append(vc.facts, "(assert (and (bvsge "+t+" "+BV(0, 64)+") (= (= "+t+" "+BV(0, 64)+") (= "+sid+" "+BV(0, 64)+"))))")
	}
	return t
}
