package vc

import (
	"fmt"
	"go/constant"
	"go/token"
	"go/types"
	"strings"

	"golang.org/x/tools/go/ssa"
)

// callName gives the name under which a call is known to `on call` clauses and evidence.
func (fr *Frame) callName(c *ssa.CallCommon, callee *ssa.Function) string {
	if callee != nil {
		return FuncKey(callee)
	}
	if c.IsInvoke() {
		t := types.Unalias(c.Value.Type()) // os.DirEntry = fs.DirEntry
		if n, ok := t.(*types.Named); ok {
			pk := ""
			if n.Obj().Pkg() != nil {
				pk = keyPkgName(n.Obj().Pkg()) + "."
			}
			return pk + n.Obj().Name() + "." + c.Method.Name()
		}
		return "interface." + c.Method.Name()
	}
	if b, ok := c.Value.(*ssa.Builtin); ok {
		return "builtin." + b.Name()
	}
	// a function value loaded from a struct field: named after the field (contracts may be attached to it)
	if u, ok := c.Value.(*ssa.UnOp); ok && u.Op == token.MUL {
		if fa, ok := u.X.(*ssa.FieldAddr); ok {
			if pt, ok := fa.X.Type().Underlying().(*types.Pointer); ok {
				if sty, ok := structOf(pt.Elem()); ok {
					tn := "struct"
					if n, ok := pt.Elem().(*types.Named); ok {
						tn = n.Obj().Name()
					}
					return "field." + tn + "." + sty.Field(fa.Field).Name()
				}
			}
		}
	}
	// a function-valued parameter: named after the function and the parameter (contracts may be attached to it:
	// `//@ func param.AcquireWriteLock.fn`); they are assumptions about the callbacks callers pass
	if p, ok := c.Value.(*ssa.Parameter); ok && p.Parent() != nil {
		return "param." + p.Parent().Name() + "." + p.Name()
	}
	return "dyn." + exprName(c.Value)
}

func nameMatches(pattern, name string) bool {
	if pattern == name {
		return true
	}
	if strings.HasSuffix(name, "."+pattern) {
		return true
	}
	// "db.os.Rename" style dynamic names: allow suffix match on last components
	return false
}

// opConst returns the constant string value of the first string-typed constant argument (the `op` of OS calls).
func opConst(c *ssa.CallCommon) string {
	for _, a := range c.Args {
		if k, ok := a.(*ssa.Const); ok && k.Value != nil && k.Value.Kind() == constant.String {
			return constant.StringVal(k.Value)
		}
	}
	return ""
}

func (fr *Frame) doCall(c *ssa.CallCommon, instr ssa.Instruction, st *State, pc T, pos token.Pos) (Val, T) {
	var args []Val
	for _, a := range c.Args {
		args = append(args, fr.get(a))
	}
	return fr.doCallWith(c, instr, fr.get(c.Value), args, st, pc, pos)
}

func resultType(c *ssa.CallCommon) types.Type {
	sig := c.Signature()
	switch sig.Results().Len() {
	case 0:
		return nil
	case 1:
		return sig.Results().At(0).Type()
	}
	return sig.Results()
}

func (vc *VC) freshResult(hint string, rt types.Type) Val {
	if rt == nil {
		return Val{}
	}
	if tt, ok := rt.(*types.Tuple); ok {
		v := Val{Typ: rt}
		for i := 0; i < tt.Len(); i++ {
			v.Tuple = append(v.Tuple, vc.freshVal(fmt.Sprintf("%s_r%d", hint, i), tt.At(i).Type()))
		}
		return v
	}
	return vc.freshVal(hint+"_r", rt)
}

func (fr *Frame) doCallWith(c *ssa.CallCommon, instr ssa.Instruction, fnVal Val, args []Val, st *State, pc T, pos token.Pos) (Val, T) {
	vc := fr.vc
	e := vc.E
	rt := resultType(c)

	bi, isBuiltin := c.Value.(*ssa.Builtin)
	if isBuiltin && (vc.RootFC == nil || len(vc.RootFC.Of("oncall")) == 0) {
		return fr.builtin(bi, c, args, st, pc, pos, rt)
	}
	callee := c.StaticCallee()
	var bindings []Val
	if fnVal.Clo != nil && !c.IsInvoke() {
		if callee == nil {
			callee = fnVal.Clo.Fn
		}
		bindings = fnVal.Clo.Bindings
	}
	name := fr.callName(c, callee)
	op := opConst(c)

	// receiver of an invoke is args[-1] conceptually; keep separately
	var recv *Val
	if c.IsInvoke() {
		recv = &fnVal
		if fr.nopanic {
			goal := Not(Eq(fnVal.Ts[0], BV(0, 64)))
			vc.oblige("nil", FuncKey(fr.fn)+"/nil/"+exprName(c.Value)+"."+c.Method.Name(), fr.tags, pc, goal, pos, "method call on nil interface")
			vc.assume(pc, goal)
		}
	}

	hooks := fr.matchingHooks(name, op)
	if c.StaticCallee() == nil && callee != nil && !c.IsInvoke() {
		// a dynamic call whose target is statically known here (a callback passed into an inlined function):
		// `on call` clauses written against the syntactic name (param.F.p, field.T.f) apply as well
		if syn := fr.callName(c, nil); syn != name {
			for _, h := range fr.matchingHooks(syn, op) {
				dup := false
				for _, x := range hooks {
					if x == h {
						dup = true
					}
				}
				if !dup {
					hooks = append(hooks, h)
				}
			}
		}
	}
	ord := 0
	if len(hooks) > 0 || true {
		fr.rootFrame().callOrd[name]++
		ord = fr.rootFrame().callOrd[name]
	}
	for _, h := range hooks {
		if h.Ordinal != 0 && h.Ordinal != ord {
			continue
		}
		if h.Expr != nil {
			env := fr.rootFrame().contractEnv(st, pc)
			env.callArgs = args
			env.callRecv = recv
			g, err := env.evalBool(h.Expr)
			if err != nil {
				vc.contractError(h, err)
			} else if h.GhostName == "assume" {
				vc.assume(pc, g)
				vc.UsedAssumed["assumption at call "+h.Callee+" in "+vc.RootKey+": "+h.Expr.String()] = true
			} else {
				hn := h.Callee
				if h.Op != "" {
					hn += "[" + h.Op + "]"
				}
				vc.oblige("protocol", fmt.Sprintf("%s/call/%s/assert", vc.RootKey, hn), h.Tags, pc, g, pos, h.Text)
				// vacuity guard: an asserted call site in the root function's own body must be reachable under the
				// facts assumed so far (sites inside inlined callees may be legitimately dead for the given arguments,
				// and `assert false` states unreachability itself)
				_, isPlainCall := instr.(*ssa.Call)
				if fr.isRoot && g != False && isPlainCall {
					cv := vc.oblige("cover", fmt.Sprintf("%s/cover/call/%s", vc.RootKey, hn), h.Tags, pc, True, pos, "the asserted call site is reachable (not a vacuous protocol obligation)")
					cv.Cover = true
					cv.SiteCover = true
				}
			}
		}
	}

	var res Val
	npc := pc
	switch {
	case isBuiltin:
		// builtins (close, append, ...) are visible to `on call builtin.<name>` hooks
		res, npc = fr.builtin(bi, c, args, st, pc, pos, rt)
	case callee != nil:
		res, npc = fr.staticCall(callee, bindings, c, args, st, pc, pos, rt, name)
	case c.IsInvoke():
		res, npc = fr.invokeCall(c, fnVal, args, st, pc, pos, rt, name)
	default:
		// dynamic function value
		if strings.HasSuffix(name, ".Exit") {
			// process exit (Store.Exit = os.Exit in production): does not return, whatever contract the field has
			vc.UsedAssumed["dyn "+name+" does not return"] = true
			res, npc = vc.freshResult("dyn", rt), False
			break
		}
		if fc := e.contractFor(name); fc != nil {
			res, npc = fr.applyContract(fc, nil, args, nil, st, pc, pos, rt, name)
			vc.UsedAssumed["contract on function-valued field "+name] = true
			break
		}
		if fr.calleeDeclaredPure(name) {
			vc.UsedAssumed["call "+name+" in "+FuncKey(fr.fn)+" assumed to have no heap effect (callee ... pure)"] = true
			res = vc.freshResult("dyn", rt)
			fr.assumeAliveResult(st, pc, res)
			break
		}
		if n, ok := c.Value.Type().(*types.Named); ok && n.Obj().Pkg() != nil && n.Obj().Pkg().Path() == "context" && n.Obj().Name() == "CancelFunc" {
			// a context.CancelFunc only cancels its context: no effect on the program's heap
			vc.UsedAssumed["context.CancelFunc has no heap effect"] = true
			res = vc.freshResult("dyn", rt)
			break
		}
		if isContextCancel(c.Value) {
			// cancel function of a context.With* call: context-package state only
			vc.UsedAssumed["context cancel functions have no effect on program state"] = true
			res = vc.freshResult("dyn", rt)
			break
		}
		if isContextCancelFunc(c.Value.Type()) {
			// context.CancelFunc / CancelCauseFunc: cancels a context (an event), no effect on program state
			vc.UsedAssumed["context cancel functions have no effect on program state"] = true
			res = vc.freshResult("cancel", rt)
			break
		}
		if strings.HasSuffix(name, ".Exit") {
			// process exit: does not return (os.Exit in production)
			vc.UsedAssumed["dyn "+name+" does not return"] = true
			res, npc = vc.freshResult("dyn", rt), False
			break
		}
		vc.Unmodelled[name+" (dynamic call: whole heap havocked)"] = true
		vc.havocAll(st)
		res = vc.freshResult("dyn", rt)
		fr.assumeAliveResult(st, pc, res)
	}

	for _, h := range hooks {
		if h.Ordinal != 0 && h.Ordinal != ord {
			continue
		}
		if len(h.Then) == 0 {
			continue
		}
		root := fr.rootFrame()
		env := root.contractEnv(st, npc)
		env.callArgs = args
		env.callRecv = recv
		env.callRes = &res
		for _, u := range h.Then {
			v, err := env.eval(u.Val)
			if err != nil {
				vc.contractError(h, err)
				continue
			}
			gt, ok := vc.ghostTypes[u.Name]
			if !ok {
				vc.contractError(h, fmt.Errorf("unknown ghost variable %s", u.Name))
				continue
			}
			v = env.coerce(v, gt)
			st.ghost[u.Name] = v.Ts
		}
	}
	return res, npc
}

func (fr *Frame) calleeDeclaredPure(name string) bool {
	fc := fr.vc.E.Contracts[FuncKey(fr.fn)]
	if fc == nil {
		return false
	}
	for _, c := range fc.Clauses {
		if c.Kind == "calleepure" && nameMatches(c.Callee, name) {
			return true
		}
	}
	return false
}

func isContextCancelFunc(t types.Type) bool {
	if n, ok := t.(*types.Named); ok && n.Obj().Pkg() != nil && n.Obj().Pkg().Path() == "context" {
		return n.Obj().Name() == "CancelFunc" || n.Obj().Name() == "CancelCauseFunc"
	}
	return false
}

func (fr *Frame) rootFrame() *Frame {
	return fr.vc.rootFrame
}

func (fr *Frame) matchingHooks(name, op string) []*Clause {
	vc := fr.vc
	if vc.RootFC == nil {
		return nil
	}
	var out []*Clause
	for _, c := range vc.RootFC.Clauses {
		if c.Kind != "oncall" {
			continue
		}
		if !nameMatches(c.Callee, name) {
			continue
		}
		if c.Op != "" && c.Op != op {
			continue
		}
		if vc.hookMatched == nil {
			vc.hookMatched = map[*Clause]bool{}
		}
		vc.hookMatched[c] = true
		out = append(out, c)
	}
	return out
}

func (fr *Frame) markAliveResult(st *State, v Val) {
	if len(v.Tuple) > 0 {
		for _, x := range v.Tuple {
			fr.markAliveResult(st, x)
		}
		return
	}
	if v.Typ == nil || len(v.Ts) == 0 {
		return
	}
	vc := fr.vc
	switch t := v.Typ.Underlying().(type) {
	case *types.Pointer:
		st.alive = vc.define("alive", SortArr(SortRef, SortBool), Sto(st.alive, v.Ts[0], True))
		fr.markNested(st, t.Elem(), v.Ts[0], 0)
	case *types.Map, *types.Chan:
		st.alive = vc.define("alive", SortArr(SortRef, SortBool), Sto(st.alive, v.Ts[0], True))
	case *types.Slice:
		st.alive = vc.define("alive", SortArr(SortRef, SortBool), Sto(st.alive, v.Ts[0], True))
		vc.assume(True, And(app("bvsge", v.Ts[1], BV(0, 64)), app("bvsge", v.Ts[2], BV(0, 64)), app("bvsle", v.Ts[2], v.Ts[3]), app("bvsle", v.Ts[3], BVu(1<<48, 64)), app("bvsle", v.Ts[1], BVu(1<<48, 64))))
	case *types.Interface:
		st.alive = vc.define("alive", SortArr(SortRef, SortBool), Sto(st.alive, v.Ts[1], True))
		vc.assume(True, Imp(Eq(v.Ts[0], BV(0, 64)), Eq(v.Ts[1], BV(0, 64))))
	}
}

func (fr *Frame) markNested(st *State, t types.Type, ref T, depth int) {
	vc := fr.vc
	sty, ok := structOf(t)
	if !ok || depth > 3 {
		return
	}
	for i := 0; i < sty.NumFields(); i++ {
		f := sty.Field(i)
		switch f.Type().Underlying().(type) {
		case *types.Struct, *types.Array:
			sub := vc.subRef(t, f.Name(), ref)
			st.alive = vc.define("alive", SortArr(SortRef, SortBool), Sto(st.alive, sub, True))
			fr.markNested(st, f.Type(), sub, depth+1)
		}
	}
}

func (fr *Frame) assumeAliveResult(st *State, pc T, v Val) {
	if len(v.Tuple) > 0 {
		for _, x := range v.Tuple {
			fr.assumeAlive(st, pc, x)
		}
		return
	}
	fr.assumeAlive(st, pc, v)
}

func (fr *Frame) staticCall(callee *ssa.Function, bindings []Val, c *ssa.CallCommon, args []Val, st *State, pc T, pos token.Pos, rt types.Type, name string) (Val, T) {
	vc := fr.vc
	e := vc.E
	key := FuncKey(callee)
	full := callee.String()

	// assert(cond, msg)
	if callee.Name() == "assert" && e.fnInModule(callee) && len(args) >= 1 && isBoolType(args[0].Typ) {
		if fr.nopanic {
			vc.oblige("assert", FuncKey(fr.fn)+"/assert/"+exprName(c.Args[0]), fr.tags, pc, args[0].Ts[0], pos, "assert() may fail")
		}
		vc.assume(pc, args[0].Ts[0])
		return Val{}, pc
	}
	if res, npc, ok := fr.modelExternal(callee, full, c, args, st, pc, pos, rt); ok {
		return res, npc
	}
	// A modular contract cannot describe what a callback passed by the caller does (its writes to the caller's
	// captured variables, its result): when a statically known closure is passed, the body is inlined instead
	// (with the callee's loop invariants), and the callback runs where the callee calls it.
	passesClosure := false
	for _, a := range args {
		if a.Clo != nil && a.Clo.Fn != nil && a.Clo.Fn.Parent() != nil {
			passesClosure = true
		}
	}
	if passesClosure && e.fnInModule(callee) && callee.Blocks != nil && e.Contracts[key] != nil && fr.depth < maxInlineDepth {
		return fr.inline(callee, bindings, args, st, pc)
	}
	if fc := e.Contracts[key]; fc != nil && !fc.Has("inline") && (len(fc.Of("requires"))+len(fc.Of("ensures"))+len(fc.Of("modifies")) > 0 || fc.Has("pure") || fc.Has("opaque") || fc.Has("havoc")) {
		if fc.Assumed && !fc.Has("pure") && !e.fnInModule(callee) {
			// assumed contract of an external taking interface-boxed pointers (binary.Read(r, bo, &x)): the
			// pointee is written by the callee although the parameter type (`any`) does not show it.
			// Exactly that pointee is havocked (not its whole heap class).
			for _, a := range c.Args {
				if mi, ok := a.(*ssa.MakeInterface); ok {
					if pt, ok := mi.X.Type().Underlying().(*types.Pointer); ok {
						vc.storeAddr(st, vc.addrOfPointer(fr.get(mi.X), pt.Elem()), vc.freshVal("hv", pt.Elem()))
					} else {
						ms := map[string]bool{}
						e.pointeeEffects(ms, mi.X.Type())
						vc.havocClasses(st, ms)
					}
				}
			}
		}
		res, npc := fr.applyContract(fc, callee, args, nil, st, pc, pos, rt, name)
		if e.fnInModule(callee) && !fc.Has("pure") && !fc.Has("modifies") {
			fr.havocFuncArgs(c, st)
		}
		return res, npc
	}
	if e.fnInModule(callee) && callee.Blocks != nil {
		if fr.canInline(callee) {
			return fr.inline(callee, bindings, args, st, pc)
		}
		// mod-set havoc
		vc.Havocked[key] = true
		vc.havocClasses(st, e.ModSet(callee))
		fr.havocFuncArgs(c, st)
		res := vc.freshResult(callee.Name(), rt)
		fr.assumeAliveResult(st, pc, res)
		return res, pc
	}
	// closures defined in module functions (callee.Pkg == nil but parent in module) handled by fnInModule
	// external
	if isNoReturn(full) {
		return vc.freshResult("nr", rt), False
	}
	if !isNoEffectExternal(full) {
		vc.Unmodelled[full] = true
		ms := map[string]bool{}
		for k := range e.ModSet(callee) {
			ms[k] = true
		}
		for _, a := range c.Args {
			if mc, ok := a.(*ssa.MakeClosure); ok {
				for k := range e.ModSet(mc.Fn.(*ssa.Function)) {
					ms[k] = true
				}
				fr.havocCaptured(&ssa.CallCommon{Value: mc}, st)
			}
			// interface-boxed pointers (binary.Read(r, bo, &x))
			if mi, ok := a.(*ssa.MakeInterface); ok {
				e.pointeeEffects(ms, mi.X.Type())
			}
		}
		vc.havocClasses(st, ms)
	}
	res := vc.freshResult(callee.Name(), rt)
	fr.assumeAliveResult(st, pc, res)
	fr.externalResultFacts(full, res, args, st, pc)
	return res, pc
}

func isNoReturn(full string) bool {
	switch full {
	case "os.Exit", "log.Fatal", "log.Fatalf", "log.Fatalln", "(*log.Logger).Fatal", "(*log.Logger).Fatalf", "log.Panicf", "log.Panic", "runtime.Goexit":
		return true
	}
	return false
}

func (fr *Frame) canInline(callee *ssa.Function) bool {
	if fr.depth >= maxInlineDepth {
		return false
	}
	for _, f := range fr.stack {
		if f == callee {
			return false
		}
	}
	if fc := fr.vc.E.Contracts[FuncKey(callee)]; fc != nil && fc.Has("inline") {
		return true
	}
	// closures are always inlined (they share the parent's cells)
	if callee.Parent() != nil {
		return true
	}
	n := 0
	for _, b := range callee.Blocks {
		n += len(b.Instrs)
	}
	if n > maxInlineInstrs {
		return false
	}
	// loops without invariants make inlining pointless but still sound
	return true
}

func (fr *Frame) inline(callee *ssa.Function, bindings []Val, args []Val, st *State, pc T) (Val, T) {
	vc := fr.vc
	vc.Inlined[FuncKey(callee)] = true
	sub := vc.newFrame(callee, fr)
	sub.bindings = bindings
	for i, p := range callee.Params {
		if i < len(args) {
			sub.regs[p] = args[i]
		}
	}
	start := st.clone()
	sub.entry = start.clone() // old()/unchanged() in the inlined function's loop invariants refer to its own entry
	sub.run(start, pc)
	rt := callee.Signature.Results()
	if len(sub.exits) == 0 {
		var rtt types.Type
		if rt.Len() == 1 {
			rtt = rt.At(0).Type()
		} else if rt.Len() > 1 {
			rtt = rt
		}
		return vc.freshResult("noret", rtt), False
	}
	var conds []T
	var sts []*State
	for _, ex := range sub.exits {
		conds = append(conds, ex.pc)
		sts = append(sts, ex.st)
	}
	merged := vc.mergeStates(conds, sts)
	*st = *merged
	npc := vc.define("pc_ret_"+callee.Name(), SortBool, Or(conds...))
	// results
	var res Val
	mergeAt := func(i int, t types.Type) Val {
		ls := vc.E.leavesOf(t)
		out := make([]T, len(ls))
		for li := range ls {
			tm := sub.exits[len(sub.exits)-1].rets[i].Ts[li]
			for k := len(sub.exits) - 2; k >= 0; k-- {
				tm = Ite(sub.exits[k].pc, sub.exits[k].rets[i].Ts[li], tm)
			}
			out[li] = vc.define("ret_"+callee.Name(), ls[li].Sort, tm)
		}
		v := Val{Typ: t, Ts: out}
		if len(sub.exits) == 1 {
			v.Clo = sub.exits[0].rets[i].Clo
		}
		return v
	}
	switch rt.Len() {
	case 0:
	case 1:
		res = mergeAt(0, rt.At(0).Type())
	default:
		res = Val{Typ: rt}
		for i := 0; i < rt.Len(); i++ {
			res.Tuple = append(res.Tuple, mergeAt(i, rt.At(i).Type()))
		}
	}
	return res, npc
}

func (fr *Frame) invokeCall(c *ssa.CallCommon, recv Val, args []Val, st *State, pc T, pos token.Pos, rt types.Type, name string) (Val, T) {
	vc := fr.vc
	e := vc.E
	// contract on the interface method (assumed or in-module)
	if fc := e.contractFor(name); fc != nil {
		return fr.applyContract(fc, nil, args, &recv, st, pc, pos, rt, name)
	}
	if res, npc, ok := fr.modelInvoke(c, name, recv, args, st, pc, pos, rt); ok {
		return res, npc
	}
	ms := map[string]bool{}
	impls := e.implementers(c.Value.Type(), c.Method)
	for _, f := range impls {
		for k := range e.ModSet(f) {
			ms[k] = true
		}
	}
	for _, a := range c.Args {
		e.pointeeEffects(ms, a.Type())
	}
	vc.Unmodelled["invoke "+name] = true
	vc.havocClasses(st, ms)
	res := vc.freshResult(c.Method.Name(), rt)
	fr.assumeAliveResult(st, pc, res)
	return res, pc
}

// contractFor finds a contract by call name allowing suffix match ("OS.Rename" for "litefs.OS.Rename").
func (e *Engine) contractFor(name string) *FuncContract {
	if fc, ok := e.Contracts[name]; ok {
		return fc
	}
	// wildcard over the methods of an interface / type: "litefs.OS.*"
	if k := strings.LastIndex(name, "."); k > 0 {
		if fc, ok := e.Contracts[name[:k]+".*"]; ok {
			return fc
		}
	}
	return nil
}

// applyContract: modular call — assert requires, havoc modifies, assume ensures.
func (fr *Frame) applyContract(fc *FuncContract, callee *ssa.Function, args []Val, recv *Val, st *State, pc T, pos token.Pos, rt types.Type, name string) (Val, T) {
	vc := fr.vc
	e := vc.E
	if fc.Assumed {
		vc.UsedAssumed[fc.Key] = true
	}
	old := st.clone()
	env := fr.calleeEnv(fc, callee, args, recv, old, pc)
	for i, cl := range fc.Of("requires") {
		gs, err := env.evalConjuncts(cl.Expr)
		if err != nil {
			vc.contractError(cl, err)
			continue
		}
		tags := unionTags(fr.tags, cl.Tags)
		for j, g := range gs {
			vc.oblige("pre", fmt.Sprintf("%s/call/%s/pre#%d.%d", FuncKey(fr.fn), fc.Key, i+1, j+1), tags, pc, g, pos, cl.Text)
		}
		for _, g := range gs {
			vc.assume(pc, g)
		}
	}
	// frame
	switch {
	case fc.Has("pure"):
	case fc.Has("modifies"):
		for _, cl := range fc.Of("modifies") {
			for _, loc := range cl.Locs {
				if err := env.havocLoc(loc, st); err != nil {
					vc.contractError(cl, err)
				}
			}
		}
	default:
		if callee != nil {
			if e.fnInModule(callee) {
				vc.havocClasses(st, e.ModSet(callee))
			} else if !isNoEffectExternal(callee.String()) {
				vc.havocClasses(st, e.ModSet(callee))
			}
		} else {
			ms := map[string]bool{}
			for _, a := range args {
				if a.Typ != nil {
					e.pointeeEffects(ms, a.Typ)
				}
			}
			vc.havocClasses(st, ms)
		}
	}
	res := vc.freshResult(shortName(fc.Key), rt)
	// a pointer result that the contract declares unconditionally non-nil and fresh is treated exactly like an
	// allocation made here (same syntactic distinctness from every other object as `new`)
	for _, i := range freshResults(fc, callee, rt) {
		slot := &res
		var t types.Type = rt
		if tt, ok := rt.(*types.Tuple); ok {
			slot, t = &res.Tuple[i], tt.At(i).Type()
		}
		if pt, ok := t.Underlying().(*types.Pointer); ok {
			slot.Ts = []T{fr.alloc(st, pc, pt.Elem(), "res", false)}
		}
	}
	// results may be objects the callee allocated: they are alive from now on (not necessarily before the call)
	fr.markAliveResult(st, res)
	env2 := fr.calleeEnv(fc, callee, args, recv, st, pc)
	env2.old = old
	env2.bindResults(callee, rt, res)
	for _, cl := range fc.Of("ensures") {
		if len(cl.Tags) == 0 && !fc.Assumed && callee != nil && e.fnInModule(callee) {
			// a clause of an untagged block is never an obligation of any property: it is an assumption about a module function
			vc.UsedAssumed["unchecked (untagged) postcondition of "+fc.Key+" assumed by its callers: "+cl.Expr.String()] = true
		}
		if freshOnHeap(cl.Expr) {
			// fresh(x.f) in an exported postcondition would contradict the allocation facts of the caller
			// (its allocation array does not record the callee's allocations): must be a `proves` clause
			vc.contractError(cl, fmt.Errorf("fresh() of a heap location in an exported `ensures` of %s: use `proves` (not exported) and export a weaker fact", fc.Key))
			continue
		}
		g, err := env2.evalBool(cl.Expr)
		if err != nil {
			vc.contractError(cl, err)
			continue
		}
		vc.assume(pc, g)
	}
	// `trusts`: a postcondition that is NOT proved for the callee (engine limit), assumed at call sites and listed
	for _, cl := range fc.Of("trusts") {
		g, err := env2.evalBool(cl.Expr)
		if err != nil {
			vc.contractError(cl, err)
			continue
		}
		vc.assume(pc, g)
		vc.UsedAssumed["unproved postcondition of "+fc.Key+" assumed by its callers: "+cl.Expr.String()] = true
	}
	return res, pc
}

// freshResults: indices of results for which the ensures clauses contain the top-level conjuncts `fresh(r)` and `r != nil`.
func freshResults(fc *FuncContract, callee *ssa.Function, rt types.Type) []int {
	if rt == nil {
		return nil
	}
	n := 1
	if tt, ok := rt.(*types.Tuple); ok {
		n = tt.Len()
	}
	idx := func(name string) int {
		if name == "result" {
			return 0
		}
		for i := 0; i < n; i++ {
			if name == fmt.Sprintf("result%d", i) || name == fmt.Sprintf("ret%d", i) {
				return i
			}
			if callee != nil && callee.Signature.Results().Len() == n && callee.Signature.Results().At(i).Name() == name {
				return i
			}
		}
		return -1
	}
	isFresh, nonNil := map[int]bool{}, map[int]bool{}
	var conj func(e Expr)
	conj = func(e Expr) {
		switch x := e.(type) {
		case *EBinary:
			switch x.Op {
			case "&&":
				conj(x.X)
				conj(x.Y)
			case "!=":
				if id, ok := x.X.(*EIdent); ok {
					_, isNil := x.Y.(*ENil)
					if nl, ok := x.Y.(*EIdent); ok && nl.Name == "nil" {
						isNil = true
					}
					if isNil {
						if i := idx(id.Name); i >= 0 {
							nonNil[i] = true
						}
					}
				}
			}
		case *ECall:
			if f, ok := x.Fun.(*EIdent); ok && f.Name == "fresh" && len(x.Args) == 1 {
				if id, ok := x.Args[0].(*EIdent); ok {
					if i := idx(id.Name); i >= 0 {
						isFresh[i] = true
					}
				}
			}
		}
	}
	for _, cl := range fc.Of("ensures") {
		conj(cl.Expr)
	}
	var out []int
	for i := 0; i < n; i++ {
		if isFresh[i] && nonNil[i] {
			out = append(out, i)
		}
	}
	return out
}

// freshOnHeap: the expression applies fresh() to something that is not a plain identifier (result/parameter).
func freshOnHeap(e Expr) bool {
	found := false
	walkExpr(e, func(x Expr) {
		if c, ok := x.(*ECall); ok {
			if id, ok := c.Fun.(*EIdent); ok && id.Name == "fresh" && len(c.Args) == 1 {
				switch a := c.Args[0].(type) {
				case *EIdent:
				case *ECall:
					// fresh(addr(result.f)): a by-value part of a returned object (marked alive with it);
					// fresh(as(result, *T)): the result itself, unboxed
					id2, ok := a.Fun.(*EIdent)
					switch {
					case ok && id2.Name == "addr" && len(a.Args) == 1:
						// only a direct by-value field of a plain name (result.header): deeper paths go through pointers
						sel, isSel := a.Args[0].(*ESel)
						if !isSel {
							found = true
						} else if _, plain := sel.X.(*EIdent); !plain {
							found = true
						}
					case ok && id2.Name == "as" && len(a.Args) == 2:
						if _, plain := a.Args[0].(*EIdent); !plain {
							found = true
						}
					default:
						found = true
					}
				default:
					found = true
				}
			}
		}
	})
	return found
}

// ensuresFreshInHeap: some `ensures` of fc applies fresh() to something other than a plain result name.
func ensuresFreshInHeap(fc *FuncContract) bool {
	found := false
	for _, cl := range fc.Of("ensures") {
		walkExpr(cl.Expr, func(e Expr) {
			if c, ok := e.(*ECall); ok {
				if id, ok := c.Fun.(*EIdent); ok && id.Name == "fresh" && len(c.Args) == 1 {
					arg := c.Args[0]
					if a, ok := arg.(*ECall); ok && len(a.Args) == 2 {
						if aid, ok := a.Fun.(*EIdent); ok && aid.Name == "as" {
							arg = a.Args[0] // fresh(as(result, *T)): still the result itself
						}
					}
					if _, plain := arg.(*EIdent); !plain {
						found = true
					}
				}
			}
		})
	}
	return found
}

func shortName(key string) string {
	if k := strings.LastIndex(key, "."); k >= 0 {
		return key[k+1:]
	}
	return key
}

func unionTags(a, b []string) []string {
	out := append([]string(nil), a...)
	for _, t := range b {
		if !containsStr(out, t) {
			out = append(out, t)
		}
	}
	return out
}

// ---------------------------------------------------------------------------
// Builtins

func (fr *Frame) builtin(b *ssa.Builtin, c *ssa.CallCommon, args []Val, st *State, pc T, pos token.Pos, rt types.Type) (Val, T) {
	vc := fr.vc
	switch b.Name() {
	case "len", "cap":
		x := args[0]
		switch xt := c.Args[0].Type().Underlying().(type) {
		case *types.Slice:
			if b.Name() == "len" {
				return Val{Typ: rt, Ts: []T{x.Ts[2]}}, pc
			}
			return Val{Typ: rt, Ts: []T{x.Ts[3]}}, pc
		case *types.Basic:
			return Val{Typ: rt, Ts: []T{vc.strLen(x.Ts[0])}}, pc
		case *types.Array:
			return Val{Typ: rt, Ts: []T{BV(xt.Len(), 64)}}, pc
		case *types.Pointer:
			if at, ok := xt.Elem().Underlying().(*types.Array); ok {
				return Val{Typ: rt, Ts: []T{BV(at.Len(), 64)}}, pc
			}
		case *types.Map:
			return Val{Typ: rt, Ts: []T{vc.mapLen(st, c.Args[0].Type(), x.Ts[0])}}, pc
		case *types.Chan:
			v := vc.freshVal("chanlen", rt)
			vc.assume(pc, app("bvsge", v.Ts[0], BV(0, 64)))
			return v, pc
		}
	case "append":
		return fr.builtinAppend(c, args, st, pc, rt), pc
	case "copy":
		return fr.builtinCopy(c, args, st, pc, rt), pc
	case "delete":
		mt := c.Args[0].Type().Underlying().(*types.Map)
		m := args[0].Ts[0]
		k := fr.mapKey(mt, args[1])
		ks := vc.mapKeySort(mt)
		dcl := vc.classMap(c.Args[0].Type(), "dom")
		dsort := SortArr(SortRef, SortArr(ks, SortBool))
		d := vc.heapGet(st, dcl, dsort)
		vc.heapSet(st, dcl, dsort, Sto(d, m, Sto(Sel(d, m), k, False)))
		return Val{}, pc
	case "clear":
		ms := map[string]bool{}
		vc.E.pointeeEffects(ms, c.Args[0].Type())
		vc.havocClasses(st, ms)
		return Val{}, pc
	case "close":
		ch := args[0].Ts[0]
		ccl := vc.E.classChanClosed(c.Args[0].Type())
		h := vc.heapGet(st, ccl, sortChanClosed)
		if fr.nopanic {
			what := exprName(c.Args[0])
			g1 := Not(Eq(ch, BV(0, 64)))
			vc.oblige("nil", FuncKey(fr.fn)+"/close/nil/"+what, fr.tags, pc, g1, pos, "close of nil channel "+what)
			vc.assume(pc, g1)
			g2 := Not(Sel(h, ch))
			vc.oblige("panic", FuncKey(fr.fn)+"/close/closed/"+what, fr.tags, pc, g2, pos, "close of closed channel "+what)
			vc.assume(pc, g2)
		}
		vc.heapSet(st, ccl, sortChanClosed, Sto(h, ch, True))
		return Val{}, pc
	case "panic":
		if fr.nopanic {
			vc.oblige("panic", FuncKey(fr.fn)+"/panic", fr.tags, pc, False, pos, "panic reachable")
		}
		return Val{}, False
	case "print", "println":
		return Val{}, pc
	case "min", "max":
		if len(args) == 2 && intWidth(rt) > 0 {
			lt := "bvslt"
			if isUnsigned(rt) {
				lt = "bvult"
			}
			a, bb := args[0].Ts[0], args[1].Ts[0]
			if b.Name() == "min" {
				return Val{Typ: rt, Ts: []T{Ite(app(lt, a, bb), a, bb)}}, pc
			}
			return Val{Typ: rt, Ts: []T{Ite(app(lt, a, bb), bb, a)}}, pc
		}
	case "new":
	case "recover":
		return vc.zeroVal(rt), pc
	case "ssa:wrapnilchk":
		return args[0], pc
	}
	vc.imprecise("builtin %s", b.Name())
	return vc.freshResult(b.Name(), rt), pc
}

func (vc *VC) mapLen(st *State, mt types.Type, m T) T {
	ks := vc.mapKeySort(mt.Underlying().(*types.Map))
	dsort := SortArr(ks, SortBool)
	fn := "gv_maplen_" + smtName(ks)
	if _, seen := vc.declSet[fn]; !seen {
		vc.declareFun(fn, []string{dsort}, SortBV(64))
		// len of the empty map is 0 (ground fact; growth facts are added per insertion in mapUpdate)
		vc.facts = append(vc.facts, "(assert (= ("+fn+" ((as const "+dsort+") false)) (_ bv0 64)))")
	}
	dcl := vc.classMap(mt, "dom")
	d := Sel(vc.heapGet(st, dcl, SortArr(SortRef, dsort)), m)
	t := app(fn, d)
	if !vc.subSeen[t] {
		vc.subSeen[t] = true
		vc.facts = append(vc.facts, "(assert (bvsge "+t+" "+BV(0, 64)+"))")
	}
	return Ite(Eq(m, BV(0, 64)), BV(0, 64), t)
}

func (fr *Frame) builtinAppend(c *ssa.CallCommon, args []Val, st *State, pc T, rt types.Type) Val {
	vc := fr.vc
	s := args[0]
	sl := c.Args[0].Type().Underlying().(*types.Slice)
	et := sl.Elem()
	// second arg: slice or string
	var n T
	var src Val
	srcIsStr := false
	if isStringType(c.Args[1].Type()) {
		n = vc.strLen(args[1].Ts[0])
		srcIsStr = true
	} else {
		src = args[1]
		n = src.Ts[2]
	}
	newLen := vc.define("applen", SortBV(64), bvAdd(s.Ts[2], n))
	fits := app("bvsle", newLen, s.Ts[3])
	// When the result does not fit, a new backing array is allocated. The model copies the whole old backing
	// array value and keeps the offset (the position of a slice inside its backing array is not observable).
	nb := fr.alloc(st, pc, types.NewArray(et, 0), "append", false)
	ncap := vc.fresh("appcap", SortBV(64))
	vc.assume(pc, app("bvsge", ncap, newLen))
	base := vc.define("appbase", SortRef, Ite(fits, s.Ts[0], nb))
	cp := vc.define("appcap", SortBV(64), Ite(fits, s.Ts[3], ncap))
	if _, isStruct := structOf(et); isStruct {
		ms := map[string]bool{}
		vc.E.addStructAll(ms, et, 0)
		vc.havocClasses(st, ms)
		return Val{Typ: rt, Ts: []T{base, s.Ts[1], newLen, cp}}
	}
	start := vc.define("appstart", SortBV(64), bvAdd(s.Ts[1], s.Ts[2]))
	nConst, isConst := bvLiteral(n)
	for _, l := range vc.E.leavesOf(et) {
		cl := vc.classSlice(et, l.Path)
		srt := SortArr(SortRef, SortArr(SortBV(64), l.Sort))
		h := vc.heapGet(st, cl, srt)
		oldArr := Sel(h, s.Ts[0])
		var srcAt func(k T) T
		if srcIsStr {
			vc.strFuns()
			srcAt = func(k T) T { return Sel(app("gv_strdata", args[1].Ts[0]), k) }
		} else {
			srcArr := Sel(h, src.Ts[0])
			srcAt = func(k T) T { return Sel(srcArr, bvAdd(src.Ts[1], k)) }
		}
		var na T
		if isConst && nConst <= 16 {
			na = oldArr
			for k := int64(0); k < nConst; k++ {
				na = Sto(na, bvAdd(start, BV(k, 64)), srcAt(BV(k, 64)))
			}
		} else {
			na = vc.fresh("apparr", SortArr(SortBV(64), l.Sort))
			in := And(app("bvsge", "k", start), app("bvslt", "k", bvAdd(start, n)))
			body := Ite(in, Eq(Sel(na, "k"), srcAt(app("bvsub", "k", start))), Eq(Sel(na, "k"), Sel(oldArr, "k")))
			vc.assume(pc, "(forall ((k (_ BitVec 64))) (! "+body+" :pattern ((select "+na+" k))))")
		}
		vc.heapSet(st, cl, srt, Sto(h, base, na))
	}
	return Val{Typ: rt, Ts: []T{base, s.Ts[1], newLen, cp}}
}

// bvLiteral parses "(_ bvN 64)".
func bvLiteral(t T) (int64, bool) {
	var n int64
	var w int
	if _, err := fmt.Sscanf(t, "(_ bv%d %d)", &n, &w); err == nil {
		return n, true
	}
	return 0, false
}

func bvAdd(a, b T) T {
	if x, ok := bvLiteral(a); ok && x == 0 {
		return b
	}
	if y, ok := bvLiteral(b); ok && y == 0 {
		return a
	}
	if x, ok := bvLiteral(a); ok {
		if y, ok := bvLiteral(b); ok {
			return BV(x+y, 64)
		}
	}
	return app("bvadd", a, b)
}

func bvSub(a, b T) T {
	if y, ok := bvLiteral(b); ok && y == 0 {
		return a
	}
	if x, ok := bvLiteral(a); ok {
		if y, ok := bvLiteral(b); ok && x >= y {
			return BV(x-y, 64)
		}
	}
	return app("bvsub", a, b)
}

func (fr *Frame) builtinCopy(c *ssa.CallCommon, args []Val, st *State, pc T, rt types.Type) Val {
	vc := fr.vc
	dst := args[0]
	sl := c.Args[0].Type().Underlying().(*types.Slice)
	et := sl.Elem()
	var n T
	srcIsStr := isStringType(c.Args[1].Type())
	if srcIsStr {
		n = vc.strLen(args[1].Ts[0])
	} else {
		n = args[1].Ts[2]
	}
	cnt := vc.define("copyn", SortBV(64), Ite(app("bvslt", dst.Ts[2], n), dst.Ts[2], n))
	if _, isStruct := structOf(et); isStruct {
		ms := map[string]bool{}
		vc.E.addStructAll(ms, et, 0)
		vc.havocClasses(st, ms)
		return Val{Typ: rt, Ts: []T{cnt}}
	}
	for _, l := range vc.E.leavesOf(et) {
		cl := vc.classSlice(et, l.Path)
		srt := SortArr(SortRef, SortArr(SortBV(64), l.Sort))
		h := vc.heapGet(st, cl, srt)
		oldArr := Sel(h, dst.Ts[0])
		na := vc.fresh("copyarr", SortArr(SortBV(64), l.Sort))
		var srcAt T
		if srcIsStr {
			vc.strFuns()
			srcAt = Sel(app("gv_strdata", args[1].Ts[0]), app("bvsub", "k", dst.Ts[1]))
		} else {
			srcAt = Sel(Sel(h, args[1].Ts[0]), app("bvadd", args[1].Ts[1], app("bvsub", "k", dst.Ts[1])))
		}
		in := And(app("bvsge", "k", dst.Ts[1]), app("bvslt", "k", app("bvadd", dst.Ts[1], cnt)))
		body := Ite(in, Eq(Sel(na, "k"), srcAt), Eq(Sel(na, "k"), Sel(oldArr, "k")))
		vc.assume(pc, "(forall ((k (_ BitVec 64))) "+body+")")
		vc.heapSet(st, cl, srt, Sto(h, dst.Ts[0], na))
	}
	return Val{Typ: rt, Ts: []T{cnt}}
}

// ---------------------------------------------------------------------------
// Store hooks and allocation hooks

func (fr *Frame) storeHooksFor(a *Addr) []*StoreHook {
	if a.Kind != aField {
		return nil
	}
	e := fr.vc.E
	n, ok := a.Struct.(*types.Named)
	if !ok {
		return nil
	}
	sty, _ := structOf(a.Struct)
	pk := ""
	if n.Obj().Pkg() != nil {
		pk = n.Obj().Pkg().Name()
	}
	return e.StoreHooks[pk+"."+n.Obj().Name()+"."+sty.Field(a.Idx).Name()]
}

func (fr *Frame) runStoreHook(h *StoreHook, a *Addr, old, nv Val, st *State, pc T) {
	vc := fr.vc
	env := &Env{vc: vc, fr: fr, st: st, old: st, pc: pc, vars: map[string]Val{}, pkg: vc.E.hookPkg[h]}
	env.vars["self"] = Val{Typ: types.NewPointer(a.Struct), Ts: []T{a.Ref}}
	env.vars["oldval"] = old
	env.vars["newval"] = nv
	for _, u := range h.Then {
		v, err := env.eval(u.Val)
		if err != nil {
			vc.Dropped = append(vc.Dropped, fmt.Sprintf("store hook line %d: %v", h.Line, err))
			continue
		}
		addr, err := env.evalLoc(u.Loc)
		if err != nil {
			vc.Dropped = append(vc.Dropped, fmt.Sprintf("store hook line %d: %v", h.Line, err))
			continue
		}
		v = env.coerce(v, addr.Typ)
		vc.storeAddr(st, addr, v)
	}
}

// allocHook emits the K9 allocation-size obligation when the root contract asks for it.
func (fr *Frame) allocHook(instr ssa.Instruction, ln, cp T, st *State, pc T) {
	vc := fr.vc
	if vc.RootFC == nil {
		return
	}
	for _, c := range vc.RootFC.Clauses {
		if c.Kind != "allocbound" {
			continue
		}
		env := fr.rootFrame().contractEnv(st, pc)
		env.vars["size"] = Val{Typ: types.Typ[types.Int], Ts: []T{cp}}
		g, err := env.evalBool(c.Expr)
		if err != nil {
			vc.contractError(c, err)
			continue
		}
		vc.oblige("alloc", FuncKey(fr.fn)+"/alloc", c.Tags, pc, g, instr.Pos(), c.Text)
	}
}
