package vc

import (
	"fmt"
	"go/constant"
	"go/token"
	"go/types"
	"math/big"
	"strings"

	"golang.org/x/tools/go/ssa"
)

// Env evaluates contract expressions over a symbolic state.
type Env struct {
	vc   *VC
	fr   *Frame
	st   *State
	old  *State
	pc   T
	vars map[string]Val
	pkg  string

	callArgs []Val
	callRecv *Val
	callRes  *Val
	depth    int
	at       *ssa.BasicBlock // evaluation point (for resolving source-level names to SSA values)
}

func (env *Env) clone() *Env {
	n := *env
	n.vars = map[string]Val{}
	for k, v := range env.vars {
		n.vars[k] = v
	}
	return &n
}

// contractEnv: environment of the frame's own function (params, named results, locals, ghost).
func (fr *Frame) contractEnv(st *State, pc T) *Env {
	pkg := "litefs"
	if p := fnPackage(fr.fn); p != nil {
		pkg = p.Name()
	}
	env := &Env{vc: fr.vc, fr: fr, st: st, old: fr.entry, pc: pc, vars: map[string]Val{}, pkg: pkg, at: fr.curBlock}
	if env.old == nil {
		env.old = st
	}
	return env
}

func fnPackage(fn *ssa.Function) *types.Package {
	for f := fn; f != nil; f = f.Parent() {
		if f.Pkg != nil {
			return f.Pkg.Pkg
		}
		if f.Object() != nil && f.Object().Pkg() != nil {
			return f.Object().Pkg()
		}
	}
	return nil
}

// calleeEnv binds a callee's parameters (by name) to the argument values.
func (fr *Frame) calleeEnv(fc *FuncContract, callee *ssa.Function, args []Val, recv *Val, st *State, pc T) *Env {
	pkg := fc.Key
	if k := strings.Index(pkg, "."); k >= 0 {
		pkg = pkg[:k]
	}
	env := &Env{vc: fr.vc, fr: nil, st: st, old: st, pc: pc, vars: map[string]Val{}, pkg: pkg}
	// ghost locals of the callee are existential for its callers
	for _, c := range fc.Of("ghost") {
		if t, err := fr.vc.E.resolveType(pkg, c.GhostType); err == nil {
			env.vars[c.GhostName] = fr.vc.freshVal("cg_"+c.GhostName, t)
		}
	}
	if callee != nil {
		sig := callee.Signature
		i := 0
		if sig.Recv() != nil {
			if i < len(args) {
				v := args[i]
				if v.Addr != nil {
					v = Val{Typ: sig.Recv().Type(), Ts: []T{fr.vc.materialize(v)}}
				}
				if sig.Recv().Name() != "" {
					env.vars[sig.Recv().Name()] = v
				}
				env.vars["recv"] = v
			}
			i++
		}
		for j := 0; j < sig.Params().Len(); j++ {
			if i < len(args) {
				v := args[i]
				if v.Addr != nil {
					v = Val{Typ: sig.Params().At(j).Type(), Ts: []T{fr.vc.materialize(v)}}
				}
				if n := sig.Params().At(j).Name(); n != "" && n != "_" {
					env.vars[n] = v
				}
				env.vars[fmt.Sprintf("arg%d", j)] = v
			}
			i++
		}
	} else {
		for j, a := range args {
			v := a
			if v.Addr != nil && v.Typ != nil {
				v = Val{Typ: v.Typ, Ts: []T{fr.vc.materialize(v)}}
			}
			env.vars[fmt.Sprintf("arg%d", j)] = v
		}
		if recv != nil {
			env.vars["recv"] = *recv
		}
	}
	return env
}

func (env *Env) bindResults(callee *ssa.Function, rt types.Type, res Val) {
	if rt == nil {
		return
	}
	var results *types.Tuple
	if callee != nil {
		results = callee.Signature.Results()
	}
	if tt, ok := rt.(*types.Tuple); ok {
		for i := 0; i < tt.Len(); i++ {
			env.vars[fmt.Sprintf("result%d", i)] = res.Tuple[i]
			env.vars[fmt.Sprintf("ret%d", i)] = res.Tuple[i]
			if results != nil && results.At(i).Name() != "" {
				env.vars[results.At(i).Name()] = res.Tuple[i]
			}
			if i == tt.Len()-1 && isErrorType(tt.At(i).Type()) {
				if _, ok := env.vars["err"]; !ok {
					env.vars["err"] = res.Tuple[i]
				}
			}
		}
		env.vars["result"] = res.Tuple[0]
		return
	}
	env.vars["result"] = res
	env.vars["result0"] = res
	env.vars["ret0"] = res
	if results != nil && results.Len() == 1 && results.At(0).Name() != "" {
		env.vars[results.At(0).Name()] = res
	}
	if isErrorType(rt) {
		if _, ok := env.vars["err"]; !ok {
			env.vars["err"] = res
		}
	}
}

func isErrorType(t types.Type) bool {
	n, ok := t.(*types.Named)
	return ok && n.Obj().Pkg() == nil && n.Obj().Name() == "error"
}

func (env *Env) evalBool(e Expr) (T, error) {
	v, err := env.eval(e)
	if err != nil {
		return "", err
	}
	if len(v.Ts) != 1 || (v.Typ != nil && !isBoolType(v.Typ)) {
		return "", fmt.Errorf("expected boolean expression: %s", e)
	}
	return v.Ts[0], nil
}

// evalConjuncts evaluates a boolean expression into its top-level conjuncts, unfolding
// non-recursive predicates, so that each conjunct can be discharged as its own obligation.
func (env *Env) evalConjuncts(e Expr) ([]T, error) {
	switch x := e.(type) {
	case *EBinary:
		if x.Op == "&&" {
			a, err := env.evalConjuncts(x.X)
			if err != nil {
				return nil, err
			}
			b, err := env.evalConjuncts(x.Y)
			if err != nil {
				return nil, err
			}
			return append(a, b...), nil
		}
		if x.Op == "==>" {
			// a ==> (b && c)  splits into  a ==> b, a ==> c
			a, err := env.evalBool(x.X)
			if err != nil {
				return nil, err
			}
			bs, err := env.evalConjuncts(x.Y)
			if err != nil {
				return nil, err
			}
			out := make([]T, len(bs))
			for i, b := range bs {
				out[i] = Imp(a, b)
			}
			return out, nil
		}
	case *ECall:
		if id, ok := x.Fun.(*EIdent); ok && env.depth < 8 {
			if pd := env.vc.E.lookupPred(env.pkg, id.Name); pd != nil && !pd.Uninterp && !pd.Rec && pd.Ret == "" && len(x.Args) == len(pd.Params) {
				sub := env.clone()
				sub.vars = map[string]Val{}
				sub.fr = nil
				sub.pkg = pd.Pkg
				sub.depth = env.depth + 1
				for i, a := range x.Args {
					v, err := env.eval(a)
					if err != nil {
						return nil, err
					}
					pt, err := env.vc.E.resolveType(pd.Pkg, pd.Params[i].Type)
					if err != nil {
						return nil, err
					}
					v = env.coerce(v, pt)
					v.Typ = pt
					sub.vars[pd.Params[i].Name] = v
				}
				return sub.evalConjuncts(pd.Body)
			}
		}
	}
	g, err := env.evalBool(e)
	if err != nil {
		return nil, err
	}
	return []T{g}, nil
}

var boolT = types.Typ[types.Bool]
var intT = types.Typ[types.Int]

func untypedInt(text string) Val {
	s := text
	return Val{Untyped: true, ConstInt: &s}
}

func parseIntLit(text string) (*big.Int, bool) {
	bi := new(big.Int)
	if _, ok := bi.SetString(text, 0); ok {
		return bi, true
	}
	return nil, false
}

// coerce converts untyped constants to type t; otherwise checks leaf compatibility.
func (env *Env) coerce(v Val, t types.Type) Val {
	if v.Untyped && v.ConstInt != nil {
		bi, _ := parseIntLit(*v.ConstInt)
		if bi == nil {
			bi = big.NewInt(0)
		}
		if t == nil {
			t = intT
		}
		w := intWidth(t)
		if w == 0 {
			w = 64
		}
		return Val{Typ: t, Ts: []T{BVBig(bi, w)}}
	}
	if v.Untyped && len(v.Ts) == 0 && t != nil {
		// untyped nil
		return env.vc.zeroVal(t)
	}
	if v.Addr != nil && len(v.Ts) == 0 {
		return Val{Typ: v.Typ, Ts: []T{env.vc.materialize(v)}}
	}
	return v
}

func (env *Env) eval(e Expr) (Val, error) {
	vc := env.vc
	switch x := e.(type) {
	case *EBool:
		if x.Val {
			return Val{Typ: boolT, Ts: []T{True}}, nil
		}
		return Val{Typ: boolT, Ts: []T{False}}, nil
	case *EInt:
		if _, ok := parseIntLit(x.Text); !ok {
			return Val{}, fmt.Errorf("bad integer literal %s", x.Text)
		}
		return untypedInt(x.Text), nil
	case *EString:
		return Val{Typ: types.Typ[types.String], Ts: []T{vc.strConst(x.Val)}}, nil
	case *ENil:
		return Val{Untyped: true}, nil
	case *EIdent:
		return env.evalIdent(x.Name)
	case *EUnary:
		v, err := env.eval(x.X)
		if err != nil {
			return Val{}, err
		}
		switch x.Op {
		case "!":
			if len(v.Ts) != 1 {
				return Val{}, fmt.Errorf("! on non-bool")
			}
			return Val{Typ: boolT, Ts: []T{Not(v.Ts[0])}}, nil
		case "-":
			if v.Untyped {
				s := "-" + *v.ConstInt
				return Val{Untyped: true, ConstInt: &s}, nil
			}
			return Val{Typ: v.Typ, Ts: []T{app("bvneg", v.Ts[0])}}, nil
		case "^":
			v = env.coerce(v, intT)
			return Val{Typ: v.Typ, Ts: []T{app("bvnot", v.Ts[0])}}, nil
		}
	case *EDeref:
		v, err := env.eval(x.X)
		if err != nil {
			return Val{}, err
		}
		pt, ok := v.Typ.Underlying().(*types.Pointer)
		if !ok {
			return Val{}, fmt.Errorf("deref of non-pointer %s", x.X)
		}
		return vc.loadAddr(env.st, vc.addrOfPointer(v, pt.Elem())), nil
	case *EBinary:
		return env.evalBinary(x)
	case *ECond:
		c, err := env.evalBool(x.C)
		if err != nil {
			return Val{}, err
		}
		a, err := env.eval(x.A)
		if err != nil {
			return Val{}, err
		}
		b, err := env.eval(x.B)
		if err != nil {
			return Val{}, err
		}
		a, b = env.unify(a, b)
		if len(a.Ts) != len(b.Ts) {
			return Val{}, fmt.Errorf("conditional branches differ in type: %s", e)
		}
		out := make([]T, len(a.Ts))
		for i := range a.Ts {
			out[i] = Ite(c, a.Ts[i], b.Ts[i])
		}
		return Val{Typ: a.Typ, Ts: out}, nil
	case *ESel:
		return env.evalSel(x)
	case *EIndex:
		return env.evalIndex(x)
	case *ECall:
		return env.evalCall(x)
	case *EQuant:
		return env.evalQuant(x)
	case *ESlice:
		return env.evalSliceExpr(x)
	}
	return Val{}, fmt.Errorf("cannot evaluate %s", e)
}

func (env *Env) unify(a, b Val) (Val, Val) {
	if a.Untyped && !b.Untyped {
		a = env.coerce(a, b.Typ)
	} else if b.Untyped && !a.Untyped {
		b = env.coerce(b, a.Typ)
	} else if a.Untyped && b.Untyped {
		a = env.coerce(a, intT)
		b = env.coerce(b, intT)
	}
	if a.Addr != nil && len(a.Ts) == 0 {
		a = Val{Typ: a.Typ, Ts: []T{env.vc.materialize(a)}}
	}
	if b.Addr != nil && len(b.Ts) == 0 {
		b = Val{Typ: b.Typ, Ts: []T{env.vc.materialize(b)}}
	}
	return a, b
}

func (env *Env) evalBinary(x *EBinary) (Val, error) {
	switch x.Op {
	case "&&", "||", "==>", "<==>":
		a, err := env.evalBool(x.X)
		if err != nil {
			return Val{}, err
		}
		b, err := env.evalBool(x.Y)
		if err != nil {
			return Val{}, err
		}
		switch x.Op {
		case "&&":
			return Val{Typ: boolT, Ts: []T{And(a, b)}}, nil
		case "||":
			return Val{Typ: boolT, Ts: []T{Or(a, b)}}, nil
		case "==>":
			return Val{Typ: boolT, Ts: []T{Imp(a, b)}}, nil
		default:
			return Val{Typ: boolT, Ts: []T{Eq(a, b)}}, nil
		}
	}
	a, err := env.eval(x.X)
	if err != nil {
		return Val{}, err
	}
	b, err := env.eval(x.Y)
	if err != nil {
		return Val{}, err
	}
	// constant folding of untyped ints
	if a.Untyped && b.Untyped && a.ConstInt != nil && b.ConstInt != nil {
		ai, _ := parseIntLit(*a.ConstInt)
		bi, _ := parseIntLit(*b.ConstInt)
		r := new(big.Int)
		ok := true
		switch x.Op {
		case "+":
			r.Add(ai, bi)
		case "-":
			r.Sub(ai, bi)
		case "*":
			r.Mul(ai, bi)
		case "/":
			if bi.Sign() == 0 {
				return Val{}, fmt.Errorf("constant division by zero")
			}
			r.Quo(ai, bi)
		case "<<":
			r.Lsh(ai, uint(bi.Uint64()))
		case ">>":
			r.Rsh(ai, uint(bi.Uint64()))
		case "|":
			r.Or(ai, bi)
		case "&":
			r.And(ai, bi)
		default:
			ok = false
		}
		if ok {
			s := r.String()
			return Val{Untyped: true, ConstInt: &s}, nil
		}
	}
	if x.Op == "<<" || x.Op == ">>" {
		if a.Untyped {
			a = env.coerce(a, intT)
		}
		if b.Untyped {
			b = env.coerce(b, a.Typ)
		}
	} else {
		a, b = env.unify(a, b)
	}
	switch x.Op {
	case "==", "!=":
		if len(a.Ts) != len(b.Ts) {
			return Val{}, fmt.Errorf("comparison of different shapes: %s", x)
		}
		var parts []T
		for i := range a.Ts {
			parts = append(parts, Eq(a.Ts[i], b.Ts[i]))
		}
		r := And(parts...)
		if x.Op == "!=" {
			r = Not(r)
		}
		return Val{Typ: boolT, Ts: []T{r}}, nil
	}
	if len(a.Ts) != 1 || len(b.Ts) != 1 {
		return Val{}, fmt.Errorf("arithmetic on composite values: %s", x)
	}
	t := a.Typ
	if t == nil {
		t = intT
	}
	if isBoolType(t) {
		return Val{}, fmt.Errorf("arithmetic on booleans: %s", x)
	}
	if isStringType(t) && x.Op == "+" {
		return Val{Typ: t, Ts: []T{env.vc.strCat(env.pc, a.Ts[0], b.Ts[0])}}, nil
	}
	w := bvWidth(sortOfTerm(env.vc, a, t))
	uns := isUnsigned(t)
	A, B := a.Ts[0], b.Ts[0]
	pick := func(s, u string) T {
		if uns {
			return app(u, A, B)
		}
		return app(s, A, B)
	}
	switch x.Op {
	case "<":
		return Val{Typ: boolT, Ts: []T{pick("bvslt", "bvult")}}, nil
	case "<=":
		return Val{Typ: boolT, Ts: []T{pick("bvsle", "bvule")}}, nil
	case ">":
		return Val{Typ: boolT, Ts: []T{pick("bvsgt", "bvugt")}}, nil
	case ">=":
		return Val{Typ: boolT, Ts: []T{pick("bvsge", "bvuge")}}, nil
	case "+":
		return Val{Typ: t, Ts: []T{app("bvadd", A, B)}}, nil
	case "-":
		return Val{Typ: t, Ts: []T{app("bvsub", A, B)}}, nil
	case "*":
		return Val{Typ: t, Ts: []T{app("bvmul", A, B)}}, nil
	case "/":
		return Val{Typ: t, Ts: []T{pick("bvsdiv", "bvudiv")}}, nil
	case "%":
		return Val{Typ: t, Ts: []T{pick("bvsrem", "bvurem")}}, nil
	case "&":
		return Val{Typ: t, Ts: []T{app("bvand", A, B)}}, nil
	case "|":
		return Val{Typ: t, Ts: []T{app("bvor", A, B)}}, nil
	case "^":
		return Val{Typ: t, Ts: []T{app("bvxor", A, B)}}, nil
	case "&^":
		return Val{Typ: t, Ts: []T{app("bvand", A, app("bvnot", B))}}, nil
	case "<<", ">>":
		wb := intWidthOr64(b.Typ)
		cnt := B
		if wb > w {
			cnt = app(fmt.Sprintf("(_ extract %d 0)", w-1), B)
		} else if wb < w {
			cnt = app(fmt.Sprintf("(_ zero_extend %d)", w-wb), B)
		}
		if x.Op == "<<" {
			return Val{Typ: t, Ts: []T{app("bvshl", A, cnt)}}, nil
		}
		if uns {
			return Val{Typ: t, Ts: []T{app("bvlshr", A, cnt)}}, nil
		}
		return Val{Typ: t, Ts: []T{app("bvashr", A, cnt)}}, nil
	}
	return Val{}, fmt.Errorf("unknown operator %s", x.Op)
}

func sortOfTerm(vc *VC, v Val, t types.Type) string {
	if t != nil {
		ls := vc.E.leavesOf(t)
		if len(ls) == 1 {
			return ls[0].Sort
		}
	}
	return SortBV(64)
}

func (env *Env) evalIdent(name string) (Val, error) {
	vc := env.vc
	if v, ok := env.vars[name]; ok {
		return v, nil
	}
	if g, ok := env.st.ghost[name]; ok {
		return Val{Typ: vc.ghostTypes[name], Ts: g}, nil
	}
	if env.callArgs != nil {
		var idx int
		if n, _ := fmt.Sscanf(name, "arg%d", &idx); n == 1 && fmt.Sprintf("arg%d", idx) == name {
			if idx < len(env.callArgs) {
				v := env.callArgs[idx]
				if v.Addr != nil && len(v.Ts) == 0 {
					v = Val{Typ: v.Typ, Ts: []T{vc.materialize(v)}}
				}
				return v, nil
			}
			return Val{}, fmt.Errorf("%s: call has %d arguments", name, len(env.callArgs))
		}
	}
	if env.callRes != nil {
		var idx int
		if name == "ret" {
			name = "ret0"
		}
		if n, _ := fmt.Sscanf(name, "ret%d", &idx); n == 1 {
			if len(env.callRes.Tuple) > 0 {
				if idx < len(env.callRes.Tuple) {
					return env.callRes.Tuple[idx], nil
				}
			} else if idx == 0 && env.callRes.Typ != nil {
				return *env.callRes, nil
			}
			return Val{}, fmt.Errorf("%s: no such result", name)
		}
		if name == "reterr" {
			if len(env.callRes.Tuple) > 0 {
				return env.callRes.Tuple[len(env.callRes.Tuple)-1], nil
			}
			return *env.callRes, nil
		}
	}
	if name == "recv" && env.callRecv != nil {
		return *env.callRecv, nil
	}
	if env.fr != nil {
		if v, ok := env.fr.lookupLocal(name, env.st, env.at); ok {
			return v, nil
		}
	}
	// package scope
	if p := vc.E.pkgByName[env.pkg]; p != nil {
		if obj := p.Types.Scope().Lookup(name); obj != nil {
			return env.objValue(obj)
		}
	}
	if obj := types.Universe.Lookup(name); obj != nil {
		if c, ok := obj.(*types.Const); ok {
			return env.constValue(c)
		}
	}
	return Val{}, fmt.Errorf("unknown identifier %q", name)
}

func (env *Env) objValue(obj types.Object) (Val, error) {
	vc := env.vc
	switch o := obj.(type) {
	case *types.Const:
		return env.constValue(o)
	case *types.Var:
		// package-level variable
		for _, sp := range vc.E.Prog.AllPackages() {
			if sp.Pkg == o.Pkg() {
				if g, ok := sp.Members[o.Name()].(*ssa.Global); ok {
					if vc.E.immutableGlobals[g] {
						return vc.globalValue(g), nil
					}
					return vc.loadAddr(env.st, &Addr{Kind: aCell, Typ: o.Type(), Ref: vc.globalRef(g)}), nil
				}
			}
		}
	}
	return Val{}, fmt.Errorf("cannot use %s in a contract", obj.Name())
}

func (env *Env) constValue(c *types.Const) (Val, error) {
	vc := env.vc
	t := c.Type()
	switch c.Val().Kind() {
	case constant.Bool:
		if constant.BoolVal(c.Val()) {
			return Val{Typ: t, Ts: []T{True}}, nil
		}
		return Val{Typ: t, Ts: []T{False}}, nil
	case constant.String:
		return Val{Typ: t, Ts: []T{vc.strConst(constant.StringVal(c.Val()))}}, nil
	case constant.Int:
		if b, ok := t.Underlying().(*types.Basic); ok && b.Info()&types.IsUntyped != 0 {
			return untypedInt(c.Val().ExactString()), nil
		}
		bi, _ := new(big.Int).SetString(c.Val().ExactString(), 10)
		return Val{Typ: t, Ts: []T{BVBig(bi, intWidth(t))}}, nil
	}
	return Val{}, fmt.Errorf("unsupported constant %s", c.Name())
}

// lookupLocal resolves a source-level name inside the frame's function.
func (fr *Frame) lookupLocal(name string, st *State, at *ssa.BasicBlock) (Val, bool) {
	vc := fr.vc
	for _, p := range fr.fn.Params {
		if p.Name() == name {
			v := fr.regs[p]
			return v, true
		}
	}
	for i, fv := range fr.fn.FreeVars {
		if fv.Name() == name && i < len(fr.bindings) {
			b := fr.bindings[i]
			if b.Addr != nil {
				return vc.loadAddr(st, b.Addr), true
			}
			return b, true
		}
	}
	// named locals held in cells (named results, captured variables)
	var found *ssa.Alloc
	for a := range fr.locals {
		if a.Comment == name {
			if found != nil && found != a {
				// several cells of that name: prefer the one declared first
				if a.Pos() < found.Pos() {
					found = a
				}
				continue
			}
			found = a
		}
	}
	if found != nil {
		c := fr.locals[found]
		return vc.loadAddr(st, &Addr{Kind: aLocal, Typ: c.Typ, Cell: c}), true
	}
	// heap-allocated named variables
	for v, val := range fr.regs {
		if a, ok := v.(*ssa.Alloc); ok && a.Comment == name && val.Addr != nil {
			return vc.loadAddr(st, val.Addr), true
		}
	}
	// phis named after the variable: prefer the one in the innermost loop header being processed
	// phis named after the variable: the closest one that dominates the evaluation point
	var phi *ssa.Phi
	for v := range fr.regs {
		p, ok := v.(*ssa.Phi)
		if !ok || p.Comment != name {
			continue
		}
		if at != nil && p.Block() != at && !p.Block().Dominates(at) {
			continue
		}
		if phi == nil || phi.Block().Dominates(p.Block()) {
			phi = p
		}
	}
	if phi == nil && at == nil {
		for v := range fr.regs {
			if p, ok := v.(*ssa.Phi); ok && p.Comment == name {
				if phi == nil || p.Block().Index > phi.Block().Index {
					phi = p
				}
			}
		}
	}
	// while the clauses of a loop are evaluated, a phi of that loop's header wins (two `range` loops both have a
	// phi called rangeindex; the blocks of a later loop may already have been visited)
	if fr.curLoop != nil {
		for v := range fr.regs {
			if p, ok := v.(*ssa.Phi); ok && p.Comment == name && p.Block() == fr.curLoop {
				phi = p
			}
		}
	}
	if phi != nil {
		return fr.regs[phi], true
	}
	if v, ok := fr.staleDbg[name]; ok {
		return v, true
	}
	if v, ok := fr.dbgVals[name]; ok {
		if val, ok2 := fr.regs[v]; ok2 {
			if val.Addr != nil {
				return Val{Typ: v.Type(), Ts: []T{vc.materialize(val)}}, true
			}
			return val, true
		}
		if c, ok2 := v.(*ssa.Const); ok2 {
			return vc.constVal(c), true
		}
	}
	return Val{}, false
}

func (env *Env) importedPackage(name string) *types.Package {
	if p := env.vc.E.pkgByName[env.pkg]; p != nil {
		for _, imp := range p.Types.Imports() {
			if imp.Name() == name {
				return imp
			}
		}
	}
	// any known package with that name (assumed contracts refer to dependencies directly); several packages may
	// share a name (litefs and litefs-go are both `litefs`): prefer the module's own package, then the smallest
	// path, so that the choice does not depend on map iteration order
	if p := env.vc.E.pkgByName[name]; p != nil && p.Types != nil {
		return p.Types
	}
	var best *types.Package
	for _, tp := range env.vc.E.allPkgs {
		if tp.Name() == name && (best == nil || tp.Path() < best.Path()) {
			best = tp
		}
	}
	return best
}

func (env *Env) ghostFieldFor(t types.Type, name string) (GhostField, string, bool) {
	n, ok := t.(*types.Named)
	if !ok {
		return GhostField{}, "", false
	}
	pk := ""
	if n.Obj().Pkg() != nil {
		pk = n.Obj().Pkg().Name()
	}
	key := pk + "." + n.Obj().Name() + "." + name
	g, ok := env.vc.E.GhostFields[key]
	return g, key, ok
}

func (env *Env) evalSel(x *ESel) (Val, error) {
	vc := env.vc
	if id, ok := x.X.(*EIdent); ok {
		if _, shadow := env.vars[id.Name]; !shadow {
			if _, isLocal := env.tryIdent(id.Name); !isLocal {
				if p := env.importedPackage(id.Name); p != nil {
					if obj := p.Scope().Lookup(x.Name); obj != nil {
						return env.objValue(obj)
					}
					return Val{}, fmt.Errorf("%s.%s not found", id.Name, x.Name)
				}
			}
		}
	}
	v, err := env.eval(x.X)
	if err != nil {
		return Val{}, err
	}
	if v.Typ == nil {
		return Val{}, fmt.Errorf("selector on untyped value %s", x.X)
	}
	if pt, ok := v.Typ.Underlying().(*types.Pointer); ok {
		if g, key, ok := env.ghostFieldFor(pt.Elem(), x.Name); ok {
			gt, err := vc.E.resolveType(env.pkg, g.Type)
			if err != nil {
				return Val{}, err
			}
			ref := vc.materialize(v)
			return vc.loadGhostField(env.st, key, gt, ref), nil
		}
		sty, ok := structOf(pt.Elem())
		if !ok {
			return Val{}, fmt.Errorf("%s is not a pointer to struct", x.X)
		}
		idx, chain := findField(sty, x.Name)
		if idx < 0 {
			return Val{}, fmt.Errorf("no field %s in %s", x.Name, vc.E.typeStr(pt.Elem()))
		}
		if v.Addr != nil && v.Addr.Kind == aLocal {
			off, n := vc.E.fieldRange(sty, idx)
			cur := env.st.cells[v.Addr.Cell]
			return Val{Typ: sty.Field(idx).Type(), Ts: cur[v.Addr.Off+off : v.Addr.Off+off+n]}, nil
		}
		_ = chain
		ref := vc.materialize(v)
		ft := sty.Field(idx).Type()
		res := vc.loadAddr(env.st, &Addr{Kind: aField, Typ: ft, Ref: ref, Struct: pt.Elem(), Idx: idx})
		if vc.inQuant == 0 && vc.rootFrame != nil {
			// references stored in the heap denote objects allocated before the state was reached
			vc.rootFrame.assumeAlive(env.st, True, res)
		}
		return res, nil
	}
	if sty, ok := structOf(v.Typ); ok {
		idx, _ := findField(sty, x.Name)
		if idx < 0 {
			return Val{}, fmt.Errorf("no field %s in %s", x.Name, vc.E.typeStr(v.Typ))
		}
		off, n := vc.E.fieldRange(sty, idx)
		return Val{Typ: sty.Field(idx).Type(), Ts: v.Ts[off : off+n]}, nil
	}
	return Val{}, fmt.Errorf("cannot select .%s from %s", x.Name, vc.E.typeStr(v.Typ))
}

func (env *Env) tryIdent(name string) (Val, bool) {
	if v, ok := env.vars[name]; ok {
		return v, true
	}
	if env.fr != nil {
		if v, ok := env.fr.lookupLocal(name, env.st, env.at); ok {
			return v, true
		}
	}
	return Val{}, false
}

func findField(sty *types.Struct, name string) (int, []int) {
	for i := 0; i < sty.NumFields(); i++ {
		if sty.Field(i).Name() == name {
			return i, nil
		}
	}
	return -1, nil
}

func (vc *VC) loadGhostField(st *State, key string, gt types.Type, ref T) Val {
	ls := vc.leavesOfGhost(gt)
	out := make([]T, len(ls))
	for i, l := range ls {
		out[i] = Sel(vc.heapGet(st, "G|"+key+l.Path, SortArr(SortRef, l.Sort)), ref)
	}
	return Val{Typ: gt, Ts: out}
}

func (vc *VC) storeGhostField(st *State, key string, gt types.Type, ref T, v Val) {
	ls := vc.leavesOfGhost(gt)
	for i, l := range ls {
		cl := "G|" + key + l.Path
		srt := SortArr(SortRef, l.Sort)
		vc.heapSet(st, cl, srt, Sto(vc.heapGet(st, cl, srt), ref, v.Ts[i]))
	}
}

func (vc *VC) leavesOfGhost(t types.Type) []Leaf {
	if t == fsetType {
		vc.fsetTheory()
		return []Leaf{{"", SortFSet, nil}}
	}
	return vc.E.leavesOf(t)
}

func (env *Env) evalIndex(x *EIndex) (Val, error) {
	vc := env.vc
	v, err := env.eval(x.X)
	if err != nil {
		return Val{}, err
	}
	i, err := env.eval(x.I)
	if err != nil {
		return Val{}, err
	}
	if v.Typ == nil {
		return Val{}, fmt.Errorf("index of untyped value")
	}
	switch t := v.Typ.Underlying().(type) {
	case *types.Slice:
		i = env.coerce(i, intT)
		idx := env.to64(i)
		return vc.loadAddr(env.st, &Addr{Kind: aElem, Typ: t.Elem(), Base: v.Ts[0], Index: bvAdd(v.Ts[1], idx)}), nil
	case *types.Map:
		i = env.coerce(i, t.Key())
		var k T
		if len(i.Ts) == 1 {
			k = i.Ts[0]
		} else {
			return Val{}, fmt.Errorf("composite map keys unsupported in contracts")
		}
		val, _ := vc.mapLookup(env.st, v.Typ, v.Ts[0], k)
		return val, nil
	case *types.Basic:
		if isStringType(v.Typ) {
			i = env.coerce(i, intT)
			vc.strFuns()
			return Val{Typ: types.Typ[types.Byte], Ts: []T{Sel(app("gv_strdata", v.Ts[0]), env.to64(i))}}, nil
		}
	case *types.Array:
		i = env.coerce(i, intT)
		ls := vc.E.leavesOf(t.Elem())
		out := make([]T, len(ls))
		for k := range ls {
			out[k] = Sel(v.Ts[k], env.to64(i))
		}
		return Val{Typ: t.Elem(), Ts: out}, nil
	case *types.Pointer:
		if at, ok := t.Elem().Underlying().(*types.Array); ok {
			i = env.coerce(i, intT)
			return vc.loadAddr(env.st, &Addr{Kind: aElem, Typ: at.Elem(), Base: vc.materialize(v), Index: env.to64(i)}), nil
		}
	}
	return Val{}, fmt.Errorf("cannot index %s", vc.E.typeStr(v.Typ))
}

func (env *Env) to64(v Val) T {
	w := intWidthOr64(v.Typ)
	if w == 64 {
		return v.Ts[0]
	}
	if v.Typ != nil && isUnsigned(v.Typ) {
		return app(fmt.Sprintf("(_ zero_extend %d)", 64-w), v.Ts[0])
	}
	return app(fmt.Sprintf("(_ sign_extend %d)", 64-w), v.Ts[0])
}

func (env *Env) evalSliceExpr(x *ESlice) (Val, error) {
	v, err := env.eval(x.X)
	if err != nil {
		return Val{}, err
	}
	if v.Typ == nil {
		return Val{}, fmt.Errorf("slice of untyped")
	}
	if at, ok := v.Typ.Underlying().(*types.Array); ok {
		// slicing an addressable array (a by-value array field such as r.b[:]): the backing array is the
		// array object itself, exactly as ssa's `slice &r.b[lo:hi]` is executed
		a, err := env.evalLoc(x.X)
		if err != nil {
			return Val{}, err
		}
		n := BV(at.Len(), 64)
		v = Val{Typ: types.NewSlice(at.Elem()), Ts: []T{env.vc.materialize(Val{Addr: a}), BV(0, 64), n, n}}
	}
	if _, ok := v.Typ.Underlying().(*types.Slice); !ok {
		return Val{}, fmt.Errorf("slice expression on %s unsupported", env.vc.E.typeStr(v.Typ))
	}
	lo := BV(0, 64)
	hi := v.Ts[2]
	if x.Lo != nil {
		l, err := env.eval(x.Lo)
		if err != nil {
			return Val{}, err
		}
		lo = env.to64(env.coerce(l, intT))
	}
	if x.Hi != nil {
		h, err := env.eval(x.Hi)
		if err != nil {
			return Val{}, err
		}
		hi = env.to64(env.coerce(h, intT))
	}
	return Val{Typ: v.Typ, Ts: []T{v.Ts[0], app("bvadd", v.Ts[1], lo), app("bvsub", hi, lo), app("bvsub", v.Ts[3], lo)}}, nil
}

func (env *Env) evalQuant(x *EQuant) (Val, error) {
	vc := env.vc
	sub := env.clone()
	var binders []string
	for _, p := range x.Vars {
		t, err := vc.E.resolveType(env.pkg, p.Type)
		if err != nil {
			return Val{}, err
		}
		ls := vc.leavesOfGhost(t)
		if len(ls) != 1 {
			return Val{}, fmt.Errorf("quantified variable %s must be scalar", p.Name)
		}
		vc.n++
		name := fmt.Sprintf("q_%s!%d", smtName(p.Name), vc.n)
		binders = append(binders, "("+name+" "+ls[0].Sort+")")
		sub.vars[p.Name] = Val{Typ: t, Ts: []T{name}}
	}
	vc.inQuant++
	body, err := sub.evalBool(x.Body)
	vc.inQuant--
	if err != nil {
		return Val{}, err
	}
	q := "exists"
	if x.Forall {
		q = "forall"
	}
	return Val{Typ: boolT, Ts: []T{"(" + q + " (" + strings.Join(binders, " ") + ") " + body + ")"}}, nil
}

func (env *Env) evalCall(x *ECall) (Val, error) {
	vc := env.vc
	// qualified call: pkg.Func(...) or conversion pkg.Type(x)
	if sel, ok := x.Fun.(*ESel); ok {
		if id, ok := sel.X.(*EIdent); ok {
			if _, isVar := env.tryIdent(id.Name); !isVar {
				if p := env.importedPackage(id.Name); p != nil {
					if obj := p.Scope().Lookup(sel.Name); obj != nil {
						if tn, ok := obj.(*types.TypeName); ok {
							return env.conversion(tn.Type(), x.Args)
						}
						return env.pureCall(p.Name()+"."+sel.Name, x.Args)
					}
				}
			}
		}
		return Val{}, fmt.Errorf("unsupported call %s", x)
	}
	id, ok := x.Fun.(*EIdent)
	if !ok {
		return Val{}, fmt.Errorf("unsupported call %s", x)
	}
	switch id.Name {
	case "cur":
		// cur(p): the current value of the Go variable p when p is a parameter that the body reassigns
		// (`p = p[len(chunk):]`): a bare `p` always denotes the parameter's entry value, cur(p) the SSA phi
		// carrying the variable (in the innermost loop header reached so far).
		if len(x.Args) != 1 {
			return Val{}, fmt.Errorf("cur(x)")
		}
		if id, ok := x.Args[0].(*EIdent); ok && env.fr != nil {
			var phi *ssa.Phi
			for v := range env.fr.regs {
				if p, ok := v.(*ssa.Phi); ok && p.Comment == id.Name {
					if phi == nil || p.Block().Index > phi.Block().Index {
						phi = p
					}
				}
			}
			if phi != nil {
				return env.fr.regs[phi], nil
			}
		}
		return env.eval(x.Args[0])
	case "old", "entry":
		if len(x.Args) != 1 {
			return Val{}, fmt.Errorf("old(e)")
		}
		sub := env.clone()
		sub.st = env.old
		return sub.eval(x.Args[0])
	case "unchanged":
		var parts []T
		for _, a := range x.Args {
			now, err := env.eval(a)
			if err != nil {
				return Val{}, err
			}
			sub := env.clone()
			sub.st = env.old
			was, err := sub.eval(a)
			if err != nil {
				return Val{}, err
			}
			for i := range now.Ts {
				parts = append(parts, Eq(now.Ts[i], was.Ts[i]))
			}
		}
		return Val{Typ: boolT, Ts: []T{And(parts...)}}, nil
	case "len", "cap":
		if len(x.Args) != 1 {
			return Val{}, fmt.Errorf("len(x)")
		}
		v, err := env.eval(x.Args[0])
		if err != nil {
			return Val{}, err
		}
		switch t := v.Typ.Underlying().(type) {
		case *types.Slice:
			if id.Name == "len" {
				return Val{Typ: intT, Ts: []T{v.Ts[2]}}, nil
			}
			return Val{Typ: intT, Ts: []T{v.Ts[3]}}, nil
		case *types.Basic:
			return Val{Typ: intT, Ts: []T{vc.strLen(v.Ts[0])}}, nil
		case *types.Array:
			return Val{Typ: intT, Ts: []T{BV(t.Len(), 64)}}, nil
		case *types.Map:
			return Val{Typ: intT, Ts: []T{vc.mapLen(env.st, v.Typ, v.Ts[0])}}, nil
		}
		return Val{}, fmt.Errorf("len of %s", vc.E.typeStr(v.Typ))
	case "has":
		if len(x.Args) != 2 {
			return Val{}, fmt.Errorf("has(m, k)")
		}
		m, err := env.eval(x.Args[0])
		if err != nil {
			return Val{}, err
		}
		mt, ok := m.Typ.Underlying().(*types.Map)
		if !ok {
			return Val{}, fmt.Errorf("has: not a map")
		}
		k, err := env.eval(x.Args[1])
		if err != nil {
			return Val{}, err
		}
		k = env.coerce(k, mt.Key())
		_, present := vc.mapLookup(env.st, m.Typ, m.Ts[0], k.Ts[0])
		return Val{Typ: boolT, Ts: []T{present}}, nil
	case "isnil":
		v, err := env.eval(x.Args[0])
		if err != nil {
			return Val{}, err
		}
		return Val{Typ: boolT, Ts: []T{Eq(v.Ts[0], zeroOfSort(sortOfLeaf(vc, v, 0)))}}, nil
	case "typeis":
		// typeis(iface, T)
		if len(x.Args) != 2 {
			return Val{}, fmt.Errorf("typeis(iface, T)")
		}
		v, err := env.eval(x.Args[0])
		if err != nil {
			return Val{}, err
		}
		t, err := vc.E.resolveType(env.pkg, x.Args[1].String())
		if err != nil {
			return Val{}, err
		}
		vc.noteConcrete(t)
		return Val{Typ: boolT, Ts: []T{Eq(v.Ts[0], vc.E.TypeID(t))}}, nil
	case "errorsAs":
		// errorsAs(err, T): errors.As(err, &x) with x of type T succeeds (same uninterpreted function as the model of errors.As)
		if len(x.Args) != 2 {
			return Val{}, fmt.Errorf("errorsAs(err, T)")
		}
		v, err := env.eval(x.Args[0])
		if err != nil {
			return Val{}, err
		}
		t, err := vc.E.resolveType(env.pkg, x.Args[1].String())
		if err != nil {
			return Val{}, err
		}
		if len(v.Ts) != 2 {
			return Val{}, fmt.Errorf("errorsAs: not an interface value")
		}
		okT, _ := vc.errorsAsTerms(v, t)
		return Val{Typ: boolT, Ts: []T{okT}}, nil
	case "implements":
		// implements(iface, T): the (non-nil) dynamic type of the interface value implements interface type T,
		// i.e. the Go type assertion iface.(T) succeeds
		if len(x.Args) != 2 {
			return Val{}, fmt.Errorf("implements(iface, T)")
		}
		v, err := env.eval(x.Args[0])
		if err != nil {
			return Val{}, err
		}
		t, err := vc.E.resolveType(env.pkg, x.Args[1].String())
		if err != nil {
			return Val{}, err
		}
		if len(v.Ts) != 2 {
			return Val{}, fmt.Errorf("implements: not an interface value")
		}
		vc.declareFun("gv_implements", []string{SortBV(64), SortBV(64)}, SortBool)
		vc.noteIface(t)
		return Val{Typ: boolT, Ts: []T{And(Not(Eq(v.Ts[0], BV(0, 64))), app("gv_implements", v.Ts[0], vc.E.TypeID(t)))}}, nil
	case "sameArray":
		// sameArray(a, b): the two slices share their backing array
		if len(x.Args) != 2 {
			return Val{}, fmt.Errorf("sameArray(a, b)")
		}
		a, err := env.eval(x.Args[0])
		if err != nil {
			return Val{}, err
		}
		b, err := env.eval(x.Args[1])
		if err != nil {
			return Val{}, err
		}
		if len(a.Ts) != 4 || len(b.Ts) != 4 {
			return Val{}, fmt.Errorf("sameArray: slices expected")
		}
		return Val{Typ: boolT, Ts: []T{Eq(a.Ts[0], b.Ts[0])}}, nil
	case "aload":
		// aload(x.f): the interface value held by the sync/atomic.Value field f (modelled as a plain cell)
		a, err := env.evalLoc(x.Args[0])
		if err != nil {
			return Val{}, err
		}
		ref := vc.materialize(Val{Addr: a})
		// typed atomics (sync/atomic.Uint32, Int64, Bool ...): same plain-cell class as the model of Load/Store
		if nt, ok := a.Typ.(*types.Named); ok && nt.Obj().Pkg() != nil && nt.Obj().Pkg().Path() == "sync/atomic" && nt.Obj().Name() != "Value" {
			for i := 0; i < nt.NumMethods(); i++ {
				if m := nt.Method(i); m.Name() == "Load" {
					elem := m.Type().(*types.Signature).Results().At(0).Type()
					ct := types.NewNamed(types.NewTypeName(token.NoPos, nil, "atomic_"+vc.E.typeStr(elem), nil), elem.Underlying(), nil)
					v := vc.loadAddr(env.st, &Addr{Kind: aCell, Typ: ct, Ref: ref})
					v.Typ = elem
					return v, nil
				}
			}
		}
		v := vc.loadAddr(env.st, &Addr{Kind: aCell, Typ: emptyIface, Ref: ref})
		return v, nil
	case "as":
		// as(iface, T): the value of dynamic type T held by an interface
		if len(x.Args) != 2 {
			return Val{}, fmt.Errorf("as(iface, T)")
		}
		v, err := env.eval(x.Args[0])
		if err != nil {
			return Val{}, err
		}
		t, err := vc.E.resolveType(env.pkg, x.Args[1].String())
		if err != nil {
			return Val{}, err
		}
		if len(v.Ts) != 2 {
			return Val{}, fmt.Errorf("as: not an interface value")
		}
		return vc.unbox(v.Ts[1], t), nil
	case "mem", "ins", "del", "card", "empty":
		return env.fsetCall(id.Name, x.Args)
	case "alive":
		v, err := env.eval(x.Args[0])
		if err != nil {
			return Val{}, err
		}
		return Val{Typ: boolT, Ts: []T{Sel(env.st.alive, v.Ts[0])}}, nil
	case "visited":
		// visited(N, k): key k has been produced by the map range of loop N (in the function under verification) so far.
		// After the loop every key still present in the ranged map has been produced (if the body does not insert).
		if len(x.Args) != 2 || env.fr == nil {
			return Val{}, fmt.Errorf("visited(loop, key)")
		}
		lit, ok := x.Args[0].(*EInt)
		if !ok {
			return Val{}, fmt.Errorf("visited: the loop number must be a literal")
		}
		var num int
		fmt.Sscanf(lit.Text, "%d", &num)
		var name string
		var ksort string
		for hdr, li := range env.fr.loops {
			if li.num != num {
				continue
			}
			_ = hdr
			for blk := range li.body {
				for _, ins := range blk.Instrs {
					if nx, ok := ins.(*ssa.Next); ok && !nx.IsString {
						if rg, ok := nx.Iter.(*ssa.Range); ok && name == "" {
							name = vc.rangeGhost[rg]
							if mt, ok := rg.X.Type().Underlying().(*types.Map); ok {
								ksort = vc.mapKeySort(mt)
							}
						}
					}
				}
			}
		}
		if name == "" {
			return Val{}, fmt.Errorf("visited(%d, ...): loop %d is not a range over a map with a scalar key", num, num)
		}
		kv, err := env.eval(x.Args[1])
		if err != nil {
			return Val{}, err
		}
		if len(kv.Ts) != 1 {
			return Val{}, fmt.Errorf("visited: scalar key expected")
		}
		kt := kv.Ts[0]
		if ks := sortOfLeaf(vc, kv, 0); ks != ksort {
			// untyped constants / other integer widths: coerce through the key sort's width
			if bvWidth(ks) > 0 && bvWidth(ksort) > 0 && bvWidth(ks) > bvWidth(ksort) {
				kt = app(fmt.Sprintf("(_ extract %d 0)", bvWidth(ksort)-1), kt)
			} else if bvWidth(ks) > 0 && bvWidth(ksort) > bvWidth(ks) {
				kt = app(fmt.Sprintf("(_ zero_extend %d)", bvWidth(ksort)-bvWidth(ks)), kt)
			}
		}
		k64, ok2 := key64(kt, ksort)
		if !ok2 {
			return Val{}, fmt.Errorf("visited: unsupported key sort")
		}
		g, has := env.st.ghost[name]
		if !has {
			// before the range statement was reached: nothing produced yet
			return Val{Typ: boolT, Ts: []T{False}}, nil
		}
		return Val{Typ: boolT, Ts: []T{Sel(g[0], k64)}}, nil
	case "closed":
		// closed(ch): the channel has been closed
		if len(x.Args) != 1 {
			return Val{}, fmt.Errorf("closed(ch)")
		}
		v, err := env.eval(x.Args[0])
		if err != nil {
			return Val{}, err
		}
		if _, ok := v.Typ.Underlying().(*types.Chan); !ok {
			return Val{}, fmt.Errorf("closed: not a channel")
		}
		return Val{Typ: boolT, Ts: []T{Sel(vc.heapGet(env.st, vc.E.classChanClosed(v.Typ), sortChanClosed), v.Ts[0])}}, nil
	case "fresh":
		// fresh(p): p was not allocated at entry
		v, err := env.eval(x.Args[0])
		if err != nil {
			return Val{}, err
		}
		return Val{Typ: boolT, Ts: []T{Not(Sel(env.old.alive, v.Ts[0]))}}, nil
	case "addr":
		// addr(p.f): the reference of a by-value nested field
		a, err := env.evalLoc(x.Args[0])
		if err != nil {
			return Val{}, err
		}
		return Val{Typ: types.NewPointer(a.Typ), Ts: []T{vc.materialize(Val{Addr: a})}}, nil
	}
	// predicates and spec functions
	if pd := vc.E.lookupPred(env.pkg, id.Name); pd != nil {
		return env.callPred(pd, x.Args)
	}
	// conversions to local / universe types
	if t, err := vc.E.resolveType(env.pkg, id.Name); err == nil {
		return env.conversion(t, x.Args)
	}
	// package-local pure Go function
	return env.pureCall(env.pkg+"."+id.Name, x.Args)
}

func sortOfLeaf(vc *VC, v Val, i int) string {
	if v.Typ != nil {
		ls := vc.leavesOfGhost(v.Typ)
		if i < len(ls) {
			return ls[i].Sort
		}
	}
	return SortRef
}

func (env *Env) conversion(t types.Type, args []Expr) (Val, error) {
	if len(args) != 1 {
		return Val{}, fmt.Errorf("conversion needs one argument")
	}
	v, err := env.eval(args[0])
	if err != nil {
		return Val{}, err
	}
	if v.Untyped {
		return env.coerce(v, t), nil
	}
	fw, tw := intWidth(v.Typ), intWidth(t)
	if fw > 0 && tw > 0 {
		tm := v.Ts[0]
		switch {
		case fw > tw:
			tm = app(fmt.Sprintf("(_ extract %d 0)", tw-1), tm)
		case fw < tw && isUnsigned(v.Typ):
			tm = app(fmt.Sprintf("(_ zero_extend %d)", tw-fw), tm)
		case fw < tw:
			tm = app(fmt.Sprintf("(_ sign_extend %d)", tw-fw), tm)
		}
		return Val{Typ: t, Ts: []T{tm}}, nil
	}
	if len(v.Ts) == len(env.vc.E.leavesOf(t)) {
		v.Typ = t
		return v, nil
	}
	return Val{}, fmt.Errorf("unsupported conversion to %s", env.vc.E.typeStr(t))
}

func (env *Env) callPred(pd *PredDef, args []Expr) (Val, error) {
	vc := env.vc
	if len(args) != len(pd.Params) {
		return Val{}, fmt.Errorf("%s expects %d arguments", pd.Name, len(pd.Params))
	}
	if env.depth > 12 {
		return Val{}, fmt.Errorf("predicate expansion too deep at %s", pd.Name)
	}
	var argv []Val
	for i, a := range args {
		v, err := env.eval(a)
		if err != nil {
			return Val{}, err
		}
		pt, err := vc.E.resolveType(pd.Pkg, pd.Params[i].Type)
		if err != nil {
			return Val{}, err
		}
		v = env.coerce(v, pt)
		if v.Typ == nil {
			v.Typ = pt
		}
		if len(v.Ts) != len(vc.leavesOfGhost(pt)) {
			return Val{}, fmt.Errorf("%s: argument %d has the wrong shape", pd.Name, i)
		}
		v.Typ = pt
		argv = append(argv, v)
	}
	if pd.Uninterp || pd.Rec {
		return env.callUninterp(pd, argv)
	}
	sub := env.clone()
	sub.vars = map[string]Val{}
	sub.fr = nil
	sub.pkg = pd.Pkg
	sub.depth = env.depth + 1
	for i, p := range pd.Params {
		sub.vars[p.Name] = argv[i]
	}
	res, err := sub.eval(pd.Body)
	if err != nil {
		return Val{}, fmt.Errorf("in %s: %v", pd.Name, err)
	}
	if pd.Ret != "" {
		rt, err := vc.E.resolveType(pd.Pkg, pd.Ret)
		if err != nil {
			return Val{}, err
		}
		res = env.coerce(res, rt)
		res.Typ = rt
	}
	return res, nil
}

// callUninterp: uninterpreted (or recursive, axiomatised) spec function over scalar arguments.
func (env *Env) callUninterp(pd *PredDef, argv []Val) (Val, error) {
	vc := env.vc
	rtName := pd.Ret
	if rtName == "" {
		rtName = "bool"
	}
	rt, err := vc.E.resolveType(pd.Pkg, rtName)
	if err != nil {
		return Val{}, err
	}
	rls := vc.leavesOfGhost(rt)
	if len(rls) != 1 {
		return Val{}, fmt.Errorf("spec func %s must return a scalar", pd.Name)
	}
	var sorts []string
	var terms []T
	for _, a := range argv {
		for i := range a.Ts {
			sorts = append(sorts, sortOfLeaf(vc, a, i))
			terms = append(terms, a.Ts[i])
		}
	}
	fn := "gv_spec_" + smtName(pd.Pkg+"."+pd.Name)
	first := false
	if _, ok := vc.declSet[fn]; !ok {
		first = true
		vc.declareFun(fn, sorts, rls[0].Sort)
	}
	if first {
		// axioms (quantified over the parameters)
		var binders []string
		sub := &Env{vc: vc, st: env.st, old: env.old, pc: True, vars: map[string]Val{}, pkg: pd.Pkg}
		for _, p := range pd.Params {
			pt, _ := vc.E.resolveType(pd.Pkg, p.Type)
			var ts []T
			for _, l := range vc.leavesOfGhost(pt) {
				vc.n++
				name := fmt.Sprintf("ax_%s%s!%d", smtName(p.Name), smtName(l.Path), vc.n)
				binders = append(binders, "("+name+" "+l.Sort+")")
				ts = append(ts, name)
			}
			sub.vars[p.Name] = Val{Typ: pt, Ts: ts}
		}
		vc.inQuant++
		if pd.Rec && pd.Body != nil {
			body, err := sub.eval(pd.Body)
			if err == nil {
				body = sub.coerce(body, rt)
				var all []T
				for _, p := range pd.Params {
					all = append(all, sub.vars[p.Name].Ts...)
				}
				lhs := fn
				if len(all) > 0 {
					lhs = app(fn, all...)
				}
				ax := Eq(lhs, body.Ts[0])
				if len(binders) > 0 {
					ax = "(forall (" + strings.Join(binders, " ") + ") (! " + ax + " :pattern (" + lhs + ")))"
				}
				vc.facts = append(vc.facts, "(assert "+ax+")")
			} else {
				vc.Dropped = append(vc.Dropped, fmt.Sprintf("spec func %s: %v", pd.Name, err))
			}
		}
		for _, axe := range pd.Axioms {
			b, err := sub.evalBool(axe)
			if err != nil {
				vc.Dropped = append(vc.Dropped, fmt.Sprintf("axiom of %s: %v", pd.Name, err))
				continue
			}
			if len(binders) > 0 {
				b = "(forall (" + strings.Join(binders, " ") + ") " + b + ")"
			}
			vc.facts = append(vc.facts, "(assert "+b+")")
		}
		vc.inQuant--
	}
	t := fn
	if len(terms) > 0 {
		t = app(fn, terms...)
	}
	return Val{Typ: rt, Ts: []T{t}}, nil
}

// pureCall: a Go function usable in contracts through its built-in model.
func (env *Env) pureCall(name string, args []Expr) (Val, error) {
	var argv []Val
	for _, a := range args {
		v, err := env.eval(a)
		if err != nil {
			return Val{}, err
		}
		argv = append(argv, v)
	}
	if v, ok := env.vc.pureModel(name, argv, env); ok {
		return v, nil
	}
	return Val{}, fmt.Errorf("function %s has no pure model usable in contracts", name)
}

// evalLoc evaluates an l-value expression to an address.
func (env *Env) evalLoc(e Expr) (*Addr, error) {
	vc := env.vc
	switch x := e.(type) {
	case *ESel:
		// base that is itself a by-value struct location: s.pending.state
		switch x.X.(type) {
		case *ESel, *EIndex, *EDeref:
			if ba, err := env.evalLoc(x.X); err == nil {
				if sty, ok := structOf(ba.Typ); ok && ba.Kind != aGhost {
					idx, _ := findField(sty, x.Name)
					if idx < 0 {
						return nil, fmt.Errorf("no field %s", x.Name)
					}
					if ba.Kind == aLocal {
						off, _ := vc.E.fieldRange(sty, idx)
						return &Addr{Kind: aLocal, Typ: sty.Field(idx).Type(), Cell: ba.Cell, Off: ba.Off + off}, nil
					}
					return &Addr{Kind: aField, Typ: sty.Field(idx).Type(), Ref: vc.materialize(Val{Addr: ba}), Struct: ba.Typ, Idx: idx}, nil
				}
			}
		}
		v, err := env.eval(x.X)
		if err != nil {
			return nil, err
		}
		if v.Typ == nil {
			return nil, fmt.Errorf("location %s: untyped base", e)
		}
		pt, ok := v.Typ.Underlying().(*types.Pointer)
		if !ok {
			return nil, fmt.Errorf("location %s: base is not a pointer", e)
		}
		if g, key, ok := env.ghostFieldFor(pt.Elem(), x.Name); ok {
			gt, err := vc.E.resolveType(env.pkg, g.Type)
			if err != nil {
				return nil, err
			}
			return &Addr{Kind: aGhost, Typ: gt, Ref: vc.materialize(v), GhostKey: key}, nil
		}
		sty, ok := structOf(pt.Elem())
		if !ok {
			return nil, fmt.Errorf("location %s: not a struct", e)
		}
		idx, _ := findField(sty, x.Name)
		if idx < 0 {
			return nil, fmt.Errorf("no field %s", x.Name)
		}
		if v.Addr != nil && v.Addr.Kind == aLocal {
			off, _ := vc.E.fieldRange(sty, idx)
			return &Addr{Kind: aLocal, Typ: sty.Field(idx).Type(), Cell: v.Addr.Cell, Off: v.Addr.Off + off}, nil
		}
		return &Addr{Kind: aField, Typ: sty.Field(idx).Type(), Ref: vc.materialize(v), Struct: pt.Elem(), Idx: idx}, nil
	case *EIndex:
		v, err := env.eval(x.X)
		if err != nil {
			return nil, err
		}
		i, err := env.eval(x.I)
		if err != nil {
			return nil, err
		}
		if sl, ok := v.Typ.Underlying().(*types.Slice); ok {
			i = env.coerce(i, intT)
			return &Addr{Kind: aElem, Typ: sl.Elem(), Base: v.Ts[0], Index: app("bvadd", v.Ts[1], env.to64(i))}, nil
		}
		return nil, fmt.Errorf("location %s unsupported", e)
	case *EDeref:
		v, err := env.eval(x.X)
		if err != nil {
			return nil, err
		}
		pt, ok := v.Typ.Underlying().(*types.Pointer)
		if !ok {
			return nil, fmt.Errorf("deref of non-pointer")
		}
		return vc.addrOfPointer(v, pt.Elem()), nil
	}
	return nil, fmt.Errorf("not a location: %s", e)
}

// havocLoc forgets the contents of a `modifies` location.
func (env *Env) havocLoc(loc Expr, st *State) error {
	vc := env.vc
	if c, ok := loc.(*ECall); ok {
		if id, ok := c.Fun.(*EIdent); ok {
			switch id.Name {
			case "contents":
				v, err := env.eval(c.Args[0])
				if err != nil {
					return err
				}
				switch t := v.Typ.Underlying().(type) {
				case *types.Slice:
					for _, l := range vc.E.leavesOf(t.Elem()) {
						cl := vc.classSlice(t.Elem(), l.Path)
						srt := SortArr(SortRef, SortArr(SortBV(64), l.Sort))
						vc.heapSet(st, cl, srt, Sto(vc.heapGet(st, cl, srt), v.Ts[0], vc.fresh("hv", SortArr(SortBV(64), l.Sort))))
					}
					return nil
				case *types.Map:
					ks := vc.mapKeySort(t)
					dcl := vc.classMap(v.Typ, "dom")
					dsort := SortArr(SortRef, SortArr(ks, SortBool))
					vc.heapSet(st, dcl, dsort, Sto(vc.heapGet(st, dcl, dsort), v.Ts[0], vc.fresh("hv", SortArr(ks, SortBool))))
					for _, l := range vc.E.leavesOf(t.Elem()) {
						cl := vc.classMap(v.Typ, "val"+l.Path)
						srt := SortArr(SortRef, SortArr(ks, l.Sort))
						vc.heapSet(st, cl, srt, Sto(vc.heapGet(st, cl, srt), v.Ts[0], vc.fresh("hv", SortArr(ks, l.Sort))))
					}
					return nil
				}
				return fmt.Errorf("contents() of %s", vc.E.typeStr(v.Typ))
			case "fields":
				v, err := env.eval(c.Args[0])
				if err != nil {
					return err
				}
				pt, ok := v.Typ.Underlying().(*types.Pointer)
				if !ok {
					return fmt.Errorf("fields(p): p must be a pointer")
				}
				a := vc.addrOfPointer(v, pt.Elem())
				vc.storeAddr(st, a, vc.freshVal("hv", pt.Elem()))
				return nil
			case "everything":
				vc.havocAll(st)
				return nil
			case "closed":
				v, err := env.eval(c.Args[0])
				if err != nil {
					return err
				}
				ccl := vc.E.classChanClosed(v.Typ)
				vc.heapSet(st, ccl, sortChanClosed, Sto(vc.heapGet(st, ccl, sortChanClosed), v.Ts[0], vc.fresh("hv", SortBool)))
				return nil
			case "class":
				// class("F|litefs.DB|pageN") – havoc a whole heap class by name
				if s, ok := c.Args[0].(*EString); ok {
					vc.havocClasses(st, map[string]bool{s.Val: true})
					return nil
				}
			}
		}
	}
	if id, ok := loc.(*EIdent); ok {
		if _, isGhost := st.ghost[id.Name]; isGhost {
			st.ghost[id.Name] = vc.freshVal("g_"+id.Name, vc.ghostTypes[id.Name]).Ts
			return nil
		}
	}
	a, err := env.evalLoc(loc)
	if err != nil {
		return err
	}
	if a.Kind == aGhost {
		vc.storeGhostField(st, a.GhostKey, a.Typ, a.Ref, Val{Typ: a.Typ, Ts: vc.freshLeavesGhost(a.Typ)})
		return nil
	}
	vc.storeAddr(st, a, vc.freshVal("hv", a.Typ))
	return nil
}

func (vc *VC) freshLeavesGhostNamed(hint string, t types.Type) []T {
	ls := vc.leavesOfGhost(t)
	out := make([]T, len(ls))
	for i, l := range ls {
		out[i] = vc.fresh(hint+l.Path, l.Sort)
	}
	return out
}

// key64 widens a map key (a single bit-vector leaf of at most 64 bits) to the index sort of a ghost key set.
func key64(k T, sort string) (T, bool) {
	w := bvWidth(sort)
	switch {
	case w == 64:
		return k, true
	case w > 0 && w < 64:
		return app(fmt.Sprintf("(_ zero_extend %d)", 64-w), k), true
	}
	return "", false
}

func (vc *VC) freshLeavesGhost(t types.Type) []T {
	ls := vc.leavesOfGhost(t)
	out := make([]T, len(ls))
	for i, l := range ls {
		out[i] = vc.fresh("hvg", l.Sort)
	}
	return out
}

// ---------------------------------------------------------------------------
// Finite sets of references (ghost): theory and operations

func (vc *VC) fsetTheory() {
	if vc.fsetDeclared {
		return
	}
	vc.fsetDeclared = true
	// A finite set of references is an array Ref -> Bool; only its cardinality is axiomatised.
	vc.declareFun("gv_fs_card", []string{SortFSet}, SortBV(64))
	vc.declareFun("gv_fs_any", []string{SortFSet}, SortRef)
	vc.declareFun("gv_fs_other", []string{SortFSet, SortRef}, SortRef)
	vc.UsedLemmas["finite-set cardinality axioms (trusted theory; statements in lean/CountedSet.lean)"] = true
	S := SortFSet
	ax := []string{
		"(= (gv_fs_card ((as const " + S + ") false)) (_ bv0 64))",
		"(forall ((s " + S + ")) (! (and (bvsge (gv_fs_card s) (_ bv0 64)) (bvslt (gv_fs_card s) (_ bv4611686018427387904 64))) :pattern ((gv_fs_card s))))",
		"(forall ((s " + S + ") (x (_ BitVec 64))) (! (= (gv_fs_card (store s x true)) (ite (select s x) (gv_fs_card s) (bvadd (gv_fs_card s) (_ bv1 64)))) :pattern ((gv_fs_card (store s x true)))))",
		"(forall ((s " + S + ") (x (_ BitVec 64))) (! (= (gv_fs_card (store s x false)) (ite (select s x) (bvsub (gv_fs_card s) (_ bv1 64)) (gv_fs_card s))) :pattern ((gv_fs_card (store s x false)))))",
		"(forall ((s " + S + ") (x (_ BitVec 64))) (! (=> (select s x) (bvsge (gv_fs_card s) (_ bv1 64))) :pattern ((select s x) (gv_fs_card s))))",
		"(forall ((s " + S + ") (x (_ BitVec 64)) (y (_ BitVec 64))) (! (=> (and (select s x) (select s y) (not (= x y))) (bvsge (gv_fs_card s) (_ bv2 64))) :pattern ((select s x) (select s y) (gv_fs_card s))))",
		"(forall ((s " + S + ")) (! (=> (bvsge (gv_fs_card s) (_ bv1 64)) (select s (gv_fs_any s))) :pattern ((gv_fs_card s))))",
		"(forall ((s " + S + ") (x (_ BitVec 64))) (! (=> (and (bvsge (gv_fs_card s) (_ bv2 64)) (select s x)) (and (select s (gv_fs_other s x)) (not (= (gv_fs_other s x) x)))) :pattern ((select s x) (gv_fs_card s))))",
	}
	for _, a := range ax {
		vc.facts = append(vc.facts, "(assert "+a+")")
	}
}

func (env *Env) fsetCall(name string, args []Expr) (Val, error) {
	vc := env.vc
	vc.fsetTheory()
	var argv []Val
	for _, a := range args {
		v, err := env.eval(a)
		if err != nil {
			return Val{}, err
		}
		if v.Addr != nil && len(v.Ts) == 0 {
			v = Val{Typ: v.Typ, Ts: []T{vc.materialize(v)}}
		}
		if v.Untyped {
			v = Val{Typ: types.Typ[types.UnsafePointer], Ts: []T{BV(0, 64)}}
		}
		argv = append(argv, v)
	}
	switch name {
	case "empty":
		return Val{Typ: fsetType, Ts: []T{"((as const " + SortFSet + ") false)"}}, nil
	case "mem":
		return Val{Typ: boolT, Ts: []T{Sel(argv[0].Ts[0], argv[1].Ts[0])}}, nil
	case "ins":
		return Val{Typ: fsetType, Ts: []T{Sto(argv[0].Ts[0], argv[1].Ts[0], True)}}, nil
	case "del":
		return Val{Typ: fsetType, Ts: []T{Sto(argv[0].Ts[0], argv[1].Ts[0], False)}}, nil
	case "card":
		return Val{Typ: intT, Ts: []T{app("gv_fs_card", argv[0].Ts[0])}}, nil
	}
	return Val{}, fmt.Errorf("unknown set operation %s", name)
}
