package vc

import (
	"fmt"
	"os"
	"strconv"
	"strings"
	"unicode"
)

// ---------------------------------------------------------------------------
// Contract language (GVC): AST

type Expr interface{ String() string }

type (
	EIdent  struct{ Name string }
	EInt    struct{ Text string }
	EString struct{ Val string }
	EBool   struct{ Val bool }
	ENil    struct{}
	EUnary  struct {
		Op string
		X  Expr
	}
	EBinary struct {
		Op   string
		X, Y Expr
	}
	ESel struct {
		X    Expr
		Name string
	}
	EIndex struct{ X, I Expr }
	ESlice struct{ X, Lo, Hi Expr }
	ECall  struct {
		Fun  Expr
		Args []Expr
	}
	ECond  struct{ C, A, B Expr }
	EQuant struct {
		Forall bool
		Vars   []Param
		Body   Expr
	}
	EDeref struct{ X Expr }
)

func (e *EIdent) String() string  { return e.Name }
func (e *EInt) String() string    { return e.Text }
func (e *EString) String() string { return strconv.Quote(e.Val) }
func (e *EBool) String() string   { return fmt.Sprint(e.Val) }
func (e *ENil) String() string    { return "nil" }
func (e *EUnary) String() string  { return e.Op + e.X.String() }
func (e *EBinary) String() string { return "(" + e.X.String() + " " + e.Op + " " + e.Y.String() + ")" }
func (e *ESel) String() string    { return e.X.String() + "." + e.Name }
func (e *EIndex) String() string  { return e.X.String() + "[" + e.I.String() + "]" }
func (e *ESlice) String() string {
	s := e.X.String() + "["
	if e.Lo != nil {
		s += e.Lo.String()
	}
	s += ":"
	if e.Hi != nil {
		s += e.Hi.String()
	}
	return s + "]"
}
func (e *ECall) String() string {
	var as []string
	for _, a := range e.Args {
		as = append(as, a.String())
	}
	return e.Fun.String() + "(" + strings.Join(as, ", ") + ")"
}
func (e *ECond) String() string {
	return "(" + e.C.String() + " ? " + e.A.String() + " : " + e.B.String() + ")"
}
func (e *EQuant) String() string {
	q := "exists"
	if e.Forall {
		q = "forall"
	}
	var vs []string
	for _, v := range e.Vars {
		vs = append(vs, v.Name+" "+v.Type)
	}
	return "(" + q + " " + strings.Join(vs, ", ") + " :: " + e.Body.String() + ")"
}
func (e *EDeref) String() string { return "*" + e.X.String() }

type Param struct {
	Name string
	Type string // Go type expression text
}

// ---------------------------------------------------------------------------
// Lexer

type tok struct {
	kind string // ident int string op eof
	text string
	pos  int
}

func lex(src string) ([]tok, error) {
	var toks []tok
	i := 0
	ops := []string{"<==>", "==>", "&^=", "<<=", ">>=", "::", "&&", "||", "==", "!=", "<=", ">=", "<<", ">>", "&^", "+", "-", "*", "/", "%", "&", "|", "^", "<", ">", "!", "(", ")", "[", "]", "{", "}", ",", ".", ":", "?", "=", ";", "#"}
	for i < len(src) {
		c := src[i]
		if c == ' ' || c == '\t' || c == '\n' || c == '\r' {
			i++
			continue
		}
		if c == '/' && i+1 < len(src) && src[i+1] == '/' {
			// comment to end of line
			j := strings.IndexByte(src[i:], '\n')
			if j < 0 {
				i = len(src)
			} else {
				i += j
			}
			continue
		}
		if unicode.IsLetter(rune(c)) || c == '_' || c == '$' {
			j := i
			for j < len(src) && (unicode.IsLetter(rune(src[j])) || unicode.IsDigit(rune(src[j])) || src[j] == '_' || src[j] == '$') {
				j++
			}
			toks = append(toks, tok{"ident", src[i:j], i})
			i = j
			continue
		}
		if unicode.IsDigit(rune(c)) {
			j := i
			for j < len(src) && (unicode.IsDigit(rune(src[j])) || unicode.IsLetter(rune(src[j])) || src[j] == '_') {
				j++
			}
			toks = append(toks, tok{"int", strings.ReplaceAll(src[i:j], "_", ""), i})
			i = j
			continue
		}
		if c == '"' {
			j := i + 1
			for j < len(src) && src[j] != '"' {
				if src[j] == '\\' {
					j++
				}
				j++
			}
			if j >= len(src) {
				return nil, fmt.Errorf("unterminated string at %d", i)
			}
			s, err := strconv.Unquote(src[i : j+1])
			if err != nil {
				return nil, err
			}
			toks = append(toks, tok{"string", s, i})
			i = j + 1
			continue
		}
		matched := false
		for _, op := range ops {
			if strings.HasPrefix(src[i:], op) {
				toks = append(toks, tok{"op", op, i})
				i += len(op)
				matched = true
				break
			}
		}
		if !matched {
			return nil, fmt.Errorf("unexpected character %q at %d in %q", c, i, src)
		}
	}
	toks = append(toks, tok{"eof", "", len(src)})
	return toks, nil
}

// ---------------------------------------------------------------------------
// Parser (Pratt)

type parser struct {
	toks []tok
	p    int
	src  string
}

func (p *parser) peek() tok { return p.toks[p.p] }
func (p *parser) next() tok { t := p.toks[p.p]; p.p++; return t }
func (p *parser) isOp(s string) bool {
	t := p.peek()
	return t.kind == "op" && t.text == s
}
func (p *parser) isIdent(s string) bool {
	t := p.peek()
	return t.kind == "ident" && t.text == s
}
func (p *parser) expectOp(s string) error {
	if !p.isOp(s) {
		return fmt.Errorf("expected %q, got %q at %d in %q", s, p.peek().text, p.peek().pos, p.src)
	}
	p.next()
	return nil
}

var binPrec = map[string]int{
	"<==>": 1, "==>": 2, "||": 3, "&&": 4,
	"==": 5, "!=": 5, "<": 5, "<=": 5, ">": 5, ">=": 5,
	"+": 6, "-": 6, "|": 6, "^": 6,
	"*": 7, "/": 7, "%": 7, "<<": 7, ">>": 7, "&": 7, "&^": 7,
}

func ParseExpr(src string) (Expr, error) {
	toks, err := lex(src)
	if err != nil {
		return nil, err
	}
	p := &parser{toks: toks, src: src}
	e, err := p.parseExpr(0)
	if err != nil {
		return nil, err
	}
	if p.peek().kind != "eof" {
		return nil, fmt.Errorf("trailing input %q at %d in %q", p.peek().text, p.peek().pos, src)
	}
	return e, nil
}

func (p *parser) parseExpr(minPrec int) (Expr, error) {
	// quantifiers bind loosest
	if p.isIdent("forall") || p.isIdent("exists") {
		return p.parseQuant()
	}
	lhs, err := p.parseUnary()
	if err != nil {
		return nil, err
	}
	for {
		t := p.peek()
		if t.kind == "op" && t.text == "?" && minPrec <= 0 {
			p.next()
			a, err := p.parseExpr(0)
			if err != nil {
				return nil, err
			}
			if err := p.expectOp(":"); err != nil {
				return nil, err
			}
			b, err := p.parseExpr(0)
			if err != nil {
				return nil, err
			}
			lhs = &ECond{lhs, a, b}
			continue
		}
		if t.kind != "op" {
			break
		}
		prec, ok := binPrec[t.text]
		if !ok || prec < minPrec {
			break
		}
		p.next()
		var rhs Expr
		if t.text == "==>" {
			// right associative; rhs may be a quantifier
			rhs, err = p.parseExpr(prec)
		} else {
			rhs, err = p.parseExpr(prec + 1)
		}
		if err != nil {
			return nil, err
		}
		lhs = &EBinary{t.text, lhs, rhs}
	}
	return lhs, nil
}

func (p *parser) parseQuant() (Expr, error) {
	q := p.next().text
	var vars []Param
	for {
		if p.peek().kind != "ident" {
			return nil, fmt.Errorf("quantifier: expected variable in %q", p.src)
		}
		name := p.next().text
		ty, err := p.parseTypeText()
		if err != nil {
			return nil, err
		}
		vars = append(vars, Param{name, ty})
		if p.isOp(",") {
			p.next()
			continue
		}
		break
	}
	if err := p.expectOp("::"); err != nil {
		return nil, err
	}
	body, err := p.parseExpr(0)
	if err != nil {
		return nil, err
	}
	return &EQuant{q == "forall", vars, body}, nil
}

// parseTypeText consumes a Go type expression and returns its text.
func (p *parser) parseTypeText() (string, error) {
	var b strings.Builder
	for {
		t := p.peek()
		switch {
		case t.kind == "op" && (t.text == "*"):
			b.WriteString("*")
			p.next()
			continue
		case t.kind == "op" && t.text == "[":
			p.next()
			if p.isOp("]") {
				p.next()
				b.WriteString("[]")
				continue
			}
			if p.peek().kind == "int" {
				n := p.next().text
				if err := p.expectOp("]"); err != nil {
					return "", err
				}
				b.WriteString("[" + n + "]")
				continue
			}
			return "", fmt.Errorf("bad type in %q", p.src)
		case t.kind == "ident" && t.text == "map":
			p.next()
			if err := p.expectOp("["); err != nil {
				return "", err
			}
			k, err := p.parseTypeText()
			if err != nil {
				return "", err
			}
			if err := p.expectOp("]"); err != nil {
				return "", err
			}
			v, err := p.parseTypeText()
			if err != nil {
				return "", err
			}
			b.WriteString("map[" + k + "]" + v)
			return b.String(), nil
		case t.kind == "ident":
			p.next()
			b.WriteString(t.text)
			if p.isOp(".") {
				p.next()
				if p.peek().kind != "ident" {
					return "", fmt.Errorf("bad qualified type in %q", p.src)
				}
				b.WriteString("." + p.next().text)
			}
			return b.String(), nil
		default:
			return "", fmt.Errorf("expected type, got %q in %q", t.text, p.src)
		}
	}
}

func (p *parser) parseUnary() (Expr, error) {
	t := p.peek()
	if t.kind == "op" {
		switch t.text {
		case "!", "-", "^":
			p.next()
			x, err := p.parseUnary()
			if err != nil {
				return nil, err
			}
			return &EUnary{t.text, x}, nil
		case "*":
			p.next()
			x, err := p.parseUnary()
			if err != nil {
				return nil, err
			}
			return &EDeref{x}, nil
		}
	}
	return p.parsePostfix()
}

func (p *parser) parsePostfix() (Expr, error) {
	x, err := p.parsePrimary()
	if err != nil {
		return nil, err
	}
	for {
		switch {
		case p.isOp("."):
			p.next()
			if p.peek().kind != "ident" {
				return nil, fmt.Errorf("expected field name after '.' in %q", p.src)
			}
			x = &ESel{x, p.next().text}
		case p.isOp("["):
			p.next()
			var lo Expr
			if !p.isOp(":") {
				lo, err = p.parseExpr(0)
				if err != nil {
					return nil, err
				}
			}
			if p.isOp(":") {
				p.next()
				var hi Expr
				if !p.isOp("]") {
					hi, err = p.parseExpr(0)
					if err != nil {
						return nil, err
					}
				}
				if err := p.expectOp("]"); err != nil {
					return nil, err
				}
				x = &ESlice{x, lo, hi}
			} else {
				if err := p.expectOp("]"); err != nil {
					return nil, err
				}
				x = &EIndex{x, lo}
			}
		case p.isOp("("):
			p.next()
			var args []Expr
			for !p.isOp(")") {
				a, err := p.parseExpr(0)
				if err != nil {
					return nil, err
				}
				args = append(args, a)
				if p.isOp(",") {
					p.next()
				} else {
					break
				}
			}
			if err := p.expectOp(")"); err != nil {
				return nil, err
			}
			x = &ECall{x, args}
		default:
			return x, nil
		}
	}
}

func (p *parser) parsePrimary() (Expr, error) {
	t := p.next()
	switch t.kind {
	case "ident":
		switch t.text {
		case "true":
			return &EBool{true}, nil
		case "false":
			return &EBool{false}, nil
		case "nil":
			return &ENil{}, nil
		}
		return &EIdent{t.text}, nil
	case "int":
		return &EInt{t.text}, nil
	case "string":
		return &EString{t.text}, nil
	case "op":
		if t.text == "(" {
			e, err := p.parseExpr(0)
			if err != nil {
				return nil, err
			}
			if err := p.expectOp(")"); err != nil {
				return nil, err
			}
			return e, nil
		}
	}
	return nil, fmt.Errorf("unexpected %q at %d in %q", t.text, t.pos, p.src)
}

// ---------------------------------------------------------------------------
// Contract file structure

type Clause struct {
	Kind string // requires ensures modifies nopanic loopinv loopdec oncall ghost inline opaque assume
	Expr Expr   // main expression (requires/ensures/invariant/assert)
	Tags []string
	Text string
	Line int

	// loop
	Loop int
	// modifies
	Locs []Expr
	// on call
	Callee  string
	Ordinal int // 0 = every
	Op      string
	Then    []GhostUpd
	// ghost local
	GhostName string
	GhostType string
	GhostInit Expr
}

type GhostUpd struct {
	Name string
	Val  Expr
}

type FuncContract struct {
	Key     string // e.g. litefs.RWMutexGuard.tryLock
	Tags    []string
	Clauses []*Clause
	File    string
	Line    int
	Assumed bool // contract for code outside /repo: trusted
}

func (fc *FuncContract) Has(kind string) bool {
	for _, c := range fc.Clauses {
		if c.Kind == kind {
			return true
		}
	}
	return false
}

func (fc *FuncContract) Of(kind string) []*Clause {
	var out []*Clause
	for _, c := range fc.Clauses {
		if c.Kind == kind {
			out = append(out, c)
		}
	}
	return out
}

type PredDef struct {
	Name     string
	Params   []Param
	Ret      string // "" for pred (bool)
	Body     Expr
	Pkg      string
	Rec      bool
	Line     int
	File     string
	Uninterp bool // spec func without body: uninterpreted
	Axioms   []Expr
}

type LemmaDef struct {
	Name    string
	Params  []Param
	Body    Expr
	Pkg     string
	Trusted string // non-empty: trusted, with the stated source (e.g. Lean file)
	Tags    []string
	Line    int
	File    string
}

type ContractFile struct {
	Pkg         string
	Path        string
	Funcs       []*FuncContract
	Preds       []*PredDef
	Lemmas      []*LemmaDef
	GhostFields []GhostField
	StoreHooks  []*StoreHook
}

type GhostField struct {
	Struct string
	Name   string
	Type   string
}

// StoreHook: `on store T.f then ghostfield(expr) = expr` – couples a ghost field to writes of a real field.
type StoreHook struct {
	Struct, Field string
	Then          []GhostUpdLoc
	Line          int
}

type GhostUpdLoc struct {
	Loc Expr
	Val Expr
}

// ParseContractFile reads `//@` lines of a Go file (or any text file).
func ParseContractFile(path string, pkg string, assumed bool) (*ContractFile, error) {
	data, err := os.ReadFile(path)
	if err != nil {
		return nil, err
	}
	return ParseContractText(string(data), path, pkg, assumed)
}

var clauseKeywords = map[string]bool{
	"requires": true, "ensures": true, "proves": true, "trusts": true, "modifies": true, "nopanic": true, "loop": true, "on": true,
	"ghost": true, "inline": true, "opaque": true, "assume": true, "func": true, "pred": true,
	"spec": true, "lemma": true, "axiom": true, "terminates": true, "pure": true, "alloc": true, "mergeexits": true, "thorough": true, "callee": true, "panics": true, "havoc": true, "trusted": true,
}

func ParseContractText(text, path, pkg string, assumed bool) (*ContractFile, error) {
	cf := &ContractFile{Pkg: pkg, Path: path}
	// gather logical lines
	type lline struct {
		text string
		line int
	}
	var lines []lline
	for i, raw := range strings.Split(text, "\n") {
		s := strings.TrimSpace(raw)
		var body string
		switch {
		case strings.HasPrefix(s, "//@"):
			body = s[3:]
		case strings.HasPrefix(s, "// @"):
			body = s[4:]
		default:
			continue
		}
		// strip trailing comment
		if k := strings.Index(body, " // "); k >= 0 {
			body = body[:k]
		}
		b := strings.TrimSpace(body)
		if b == "" {
			continue
		}
		first := b
		if k := strings.IndexAny(b, " \t("); k >= 0 {
			first = b[:k]
		}
		if clauseKeywords[first] || len(lines) == 0 {
			lines = append(lines, lline{b, i + 1})
		} else {
			lines[len(lines)-1].text += " " + b
		}
	}
	var cur *FuncContract
	for _, ll := range lines {
		s := ll.text
		fail := func(err error) error { return fmt.Errorf("%s:%d: %v", path, ll.line, err) }
		word, rest := splitWord(s)
		switch word {
		case "func":
			key, tags, err := parseFuncHeader(rest, pkg)
			if err != nil {
				return nil, fail(err)
			}
			cur = &FuncContract{Key: key, Tags: tags, File: path, Line: ll.line, Assumed: assumed}
			cf.Funcs = append(cf.Funcs, cur)
		case "pred", "spec":
			pd, err := parsePredDef(word, rest, pkg)
			if err != nil {
				return nil, fail(err)
			}
			pd.Line, pd.File = ll.line, path
			cf.Preds = append(cf.Preds, pd)
			cur = nil
		case "axiom":
			// axiom for the most recent uninterpreted spec func
			e, err := ParseExpr(rest)
			if err != nil {
				return nil, fail(err)
			}
			if len(cf.Preds) == 0 {
				return nil, fail(fmt.Errorf("axiom without spec func"))
			}
			pd := cf.Preds[len(cf.Preds)-1]
			pd.Axioms = append(pd.Axioms, e)
		case "lemma":
			ld, err := parseLemma(rest, pkg)
			if err != nil {
				return nil, fail(err)
			}
			ld.Line, ld.File = ll.line, path
			cf.Lemmas = append(cf.Lemmas, ld)
			cur = nil
		case "ghost":
			w2, r2 := splitWord(rest)
			if w2 == "field" {
				// ghost field T.name type
				toks := strings.Fields(r2)
				if len(toks) < 2 || !strings.Contains(toks[0], ".") {
					return nil, fail(fmt.Errorf("ghost field T.name type"))
				}
				k := strings.Index(toks[0], ".")
				cf.GhostFields = append(cf.GhostFields, GhostField{toks[0][:k], toks[0][k+1:], strings.Join(toks[1:], " ")})
				continue
			}
			if cur == nil {
				return nil, fail(fmt.Errorf("ghost outside func"))
			}
			// ghost name type [= init]
			c := &Clause{Kind: "ghost", Text: s, Line: ll.line, Tags: cur.Tags}
			var initText string
			if k := strings.Index(rest, "="); k >= 0 {
				initText = strings.TrimSpace(rest[k+1:])
				rest = strings.TrimSpace(rest[:k])
			}
			toks := strings.Fields(rest)
			if len(toks) != 2 {
				return nil, fail(fmt.Errorf("ghost name type [= init]"))
			}
			c.GhostName, c.GhostType = toks[0], toks[1]
			if initText != "" {
				e, err := ParseExpr(initText)
				if err != nil {
					return nil, fail(err)
				}
				c.GhostInit = e
			}
			cur.Clauses = append(cur.Clauses, c)
		case "on":
			w2, r2 := splitWord(rest)
			if w2 == "store" && cur == nil {
				sh, err := parseStoreHook(r2)
				if err != nil {
					return nil, fail(err)
				}
				sh.Line = ll.line
				cf.StoreHooks = append(cf.StoreHooks, sh)
				continue
			}
			if cur == nil {
				return nil, fail(fmt.Errorf("'on' outside func"))
			}
			if w2 != "call" && w2 != "return" && w2 != "store" {
				return nil, fail(fmt.Errorf("expected 'on call|return|store'"))
			}
			if w2 == "return" {
				r2 = "_return " + r2
			}
			c, err := parseOnCall(r2, cur.Tags)
			if err != nil {
				return nil, fail(err)
			}
			if w2 == "return" {
				c.Kind = "onreturn"
			}
			if w2 == "store" {
				c.Kind = "onstore"
			}
			c.Text, c.Line = s, ll.line
			cur.Clauses = append(cur.Clauses, c)
		default:
			if cur == nil {
				return nil, fail(fmt.Errorf("clause %q outside func", word))
			}
			c := &Clause{Kind: word, Text: s, Line: ll.line}
			rest, c.Tags = splitTags(rest, cur.Tags)
			switch word {
			case "requires", "ensures", "assume", "proves", "trusts":
				e, err := ParseExpr(rest)
				if err != nil {
					return nil, fail(err)
				}
				c.Expr = e
			case "modifies":
				for _, part := range splitTop(rest, ',') {
					part = strings.TrimSpace(part)
					if part == "" {
						continue
					}
					e, err := ParseExpr(part)
					if err != nil {
						return nil, fail(err)
					}
					c.Locs = append(c.Locs, e)
				}
			case "nopanic", "inline", "opaque", "terminates", "pure", "havoc", "trusted", "mergeexits":
			case "callee":
				// callee NAME pure : calls named NAME inside this function have no heap effect (UNCHECKED assumption, listed)
				toks := strings.Fields(rest)
				if len(toks) != 2 || toks[1] != "pure" {
					return nil, fail(fmt.Errorf("callee NAME pure"))
				}
				c.Kind = "calleepure"
				c.Callee = toks[0]
			case "thorough":
				// thorough PATTERN: obligations whose name contains PATTERN are solved in the thorough tier only
				c.Callee = strings.TrimSpace(rest)
			case "alloc":
				// alloc bound EXPR  (EXPR over `size` and the function's variables)
				w2, r2 := splitWord(rest)
				if w2 != "bound" {
					return nil, fail(fmt.Errorf("alloc bound expr"))
				}
				e, err := ParseExpr(r2)
				if err != nil {
					return nil, fail(err)
				}
				c.Kind = "allocbound"
				c.Expr = e
			case "loop":
				// loop N invariant E | loop N decreases E
				toks := strings.SplitN(rest, " ", 3)
				if len(toks) == 2 && toks[1] == "modifies" {
					toks = append(toks, "")
				}
				if len(toks) < 3 {
					return nil, fail(fmt.Errorf("loop N invariant|decreases expr"))
				}
				n, err := strconv.Atoi(toks[0])
				if err != nil {
					return nil, fail(err)
				}
				c.Loop = n
				switch toks[1] {
				case "modifies":
					c.Kind = "loopmod"
					for _, part := range splitTop(toks[2], ',') {
						part = strings.TrimSpace(part)
						if part == "" {
							continue
						}
						e, err := ParseExpr(part)
						if err != nil {
							return nil, fail(err)
						}
						c.Locs = append(c.Locs, e)
					}
					cur.Clauses = append(cur.Clauses, c)
					continue
				case "invariant":
					c.Kind = "loopinv"
				case "decreases":
					c.Kind = "loopdec"
				default:
					return nil, fail(fmt.Errorf("loop N invariant|decreases|modifies expr"))
				}
				e, err := ParseExpr(toks[2])
				if err != nil {
					return nil, fail(err)
				}
				c.Expr = e
			default:
				return nil, fail(fmt.Errorf("unknown clause %q", word))
			}
			cur.Clauses = append(cur.Clauses, c)
		}
	}
	return cf, nil
}

func splitWord(s string) (string, string) {
	s = strings.TrimSpace(s)
	k := strings.IndexAny(s, " \t")
	if k < 0 {
		return s, ""
	}
	return s[:k], strings.TrimSpace(s[k+1:])
}

// splitTags strips a trailing "[C01,C02]" tag list.
func splitTags(s string, def []string) (string, []string) {
	s = strings.TrimSpace(s)
	if strings.HasSuffix(s, "]") {
		k := strings.LastIndex(s, "[")
		if k >= 0 {
			inner := s[k+1 : len(s)-1]
			ok := inner != ""
			var tags []string
			for _, t := range strings.Split(inner, ",") {
				t = strings.TrimSpace(t)
				if t == "thorough" {
					tags = append(tags, t)
					continue
				}
				if len(t) < 3 || t[0] != 'C' || !unicode.IsDigit(rune(t[1])) {
					ok = false
					break
				}
				tags = append(tags, t)
			}
			if ok && (k == 0 || s[k-1] == ' ' || s[k-1] == '\t') {
				return strings.TrimSpace(s[:k]), tags
			}
		}
	}
	return s, def
}

func splitTop(s string, sep byte) []string {
	var out []string
	depth := 0
	start := 0
	inStr := false
	for i := 0; i < len(s); i++ {
		c := s[i]
		if inStr {
			if c == '\\' {
				i++
			} else if c == '"' {
				inStr = false
			}
			continue
		}
		switch c {
		case '"':
			inStr = true
		case '(', '[', '{':
			depth++
		case ')', ']', '}':
			depth--
		default:
			if c == sep && depth == 0 {
				out = append(out, s[start:i])
				start = i + 1
			}
		}
	}
	out = append(out, s[start:])
	return out
}

// parseFuncHeader: "(g *RWMutexGuard) tryLock [C12]" | "WALChecksum [C17]" | "(*DB).checksum" | "ltx.LockPgno" (assumed external).
func parseFuncHeader(s, pkg string) (string, []string, error) {
	s, tags := splitTags(s, nil)
	s = strings.TrimSpace(s)
	if strings.HasPrefix(s, "(") {
		k := strings.Index(s, ")")
		if k < 0 {
			return "", nil, fmt.Errorf("bad receiver in %q", s)
		}
		recv := strings.Fields(strings.TrimSpace(s[1:k]))
		name := strings.TrimSpace(s[k+1:])
		name = strings.TrimPrefix(name, ".")
		if len(recv) == 0 || name == "" {
			return "", nil, fmt.Errorf("bad func header %q", s)
		}
		rt := strings.TrimPrefix(recv[len(recv)-1], "*")
		if strings.Contains(rt, ".") {
			return rt + "." + name, tags, nil
		}
		return pkg + "." + rt + "." + name, tags, nil
	}
	if strings.Contains(s, ".") {
		return s, tags, nil
	}
	return pkg + "." + s, tags, nil
}

func parseParams(s string) ([]Param, error) {
	var ps []Param
	for _, part := range splitTop(s, ',') {
		part = strings.TrimSpace(part)
		if part == "" {
			continue
		}
		k := strings.IndexAny(part, " \t")
		if k < 0 {
			return nil, fmt.Errorf("parameter %q needs a type", part)
		}
		ps = append(ps, Param{part[:k], strings.TrimSpace(part[k+1:])})
	}
	return ps, nil
}

// parsePredDef: pred name(params) = expr ; spec func name(params) type = expr ; spec func name(params) type   (uninterpreted)
func parsePredDef(word, rest, pkg string) (*PredDef, error) {
	pd := &PredDef{Pkg: pkg}
	if word == "spec" {
		w, r := splitWord(rest)
		if w != "func" {
			return nil, fmt.Errorf("expected 'spec func'")
		}
		rest = r
	}
	k := strings.Index(rest, "(")
	if k < 0 {
		return nil, fmt.Errorf("expected '(' in %q", rest)
	}
	pd.Name = strings.TrimSpace(rest[:k])
	// find matching paren
	depth := 0
	end := -1
	for i := k; i < len(rest); i++ {
		if rest[i] == '(' {
			depth++
		} else if rest[i] == ')' {
			depth--
			if depth == 0 {
				end = i
				break
			}
		}
	}
	if end < 0 {
		return nil, fmt.Errorf("unbalanced parens in %q", rest)
	}
	ps, err := parseParams(rest[k+1 : end])
	if err != nil {
		return nil, err
	}
	pd.Params = ps
	tail := strings.TrimSpace(rest[end+1:])
	eq := indexTopEq(tail)
	head := tail
	body := ""
	if eq >= 0 {
		head = strings.TrimSpace(tail[:eq])
		body = strings.TrimSpace(tail[eq+1:])
	}
	if word == "spec" {
		pd.Ret = head
		if pd.Ret == "" {
			return nil, fmt.Errorf("spec func needs a result type")
		}
	} else if head != "" {
		return nil, fmt.Errorf("unexpected %q in pred", head)
	}
	if body == "" {
		if word == "pred" {
			return nil, fmt.Errorf("pred needs a body")
		}
		pd.Uninterp = true
		return pd, nil
	}
	e, err := ParseExpr(body)
	if err != nil {
		return nil, err
	}
	pd.Body = e
	pd.Rec = mentionsCall(e, pd.Name)
	return pd, nil
}

// indexTopEq finds a single '=' (not ==, <=, >=, !=) at top level.
func indexTopEq(s string) int {
	for i := 0; i < len(s); i++ {
		if s[i] == '=' {
			if i+1 < len(s) && s[i+1] == '=' {
				i++
				continue
			}
			if i > 0 && (s[i-1] == '<' || s[i-1] == '>' || s[i-1] == '!' || s[i-1] == '=') {
				continue
			}
			return i
		}
	}
	return -1
}

func mentionsCall(e Expr, name string) bool {
	found := false
	walkExpr(e, func(x Expr) {
		if c, ok := x.(*ECall); ok {
			if id, ok := c.Fun.(*EIdent); ok && id.Name == name {
				found = true
			}
		}
	})
	return found
}

func walkExpr(e Expr, f func(Expr)) {
	if e == nil {
		return
	}
	f(e)
	switch x := e.(type) {
	case *EUnary:
		walkExpr(x.X, f)
	case *EDeref:
		walkExpr(x.X, f)
	case *EBinary:
		walkExpr(x.X, f)
		walkExpr(x.Y, f)
	case *ESel:
		walkExpr(x.X, f)
	case *EIndex:
		walkExpr(x.X, f)
		walkExpr(x.I, f)
	case *ESlice:
		walkExpr(x.X, f)
		if x.Lo != nil {
			walkExpr(x.Lo, f)
		}
		if x.Hi != nil {
			walkExpr(x.Hi, f)
		}
	case *ECall:
		walkExpr(x.Fun, f)
		for _, a := range x.Args {
			walkExpr(a, f)
		}
	case *ECond:
		walkExpr(x.C, f)
		walkExpr(x.A, f)
		walkExpr(x.B, f)
	case *EQuant:
		walkExpr(x.Body, f)
	}
}

// parseLemma: lemma name(params) [trusted "src"] : expr
func parseLemma(rest, pkg string) (*LemmaDef, error) {
	ld := &LemmaDef{Pkg: pkg}
	k := strings.Index(rest, "(")
	if k < 0 {
		return nil, fmt.Errorf("lemma: expected '('")
	}
	ld.Name = strings.TrimSpace(rest[:k])
	end := strings.Index(rest, ")")
	if end < 0 {
		return nil, fmt.Errorf("lemma: expected ')'")
	}
	ps, err := parseParams(rest[k+1 : end])
	if err != nil {
		return nil, err
	}
	ld.Params = ps
	tail := strings.TrimSpace(rest[end+1:])
	if strings.HasPrefix(tail, "trusted") {
		tail = strings.TrimSpace(tail[len("trusted"):])
		if strings.HasPrefix(tail, "\"") {
			j := strings.Index(tail[1:], "\"")
			if j < 0 {
				return nil, fmt.Errorf("lemma: bad trusted source")
			}
			ld.Trusted = tail[1 : j+1]
			tail = strings.TrimSpace(tail[j+2:])
		} else {
			ld.Trusted = "unspecified"
		}
	}
	if !strings.HasPrefix(tail, ":") {
		return nil, fmt.Errorf("lemma: expected ':'")
	}
	body, tags := splitTags(strings.TrimSpace(tail[1:]), nil)
	ld.Tags = tags
	e, err := ParseExpr(body)
	if err != nil {
		return nil, err
	}
	ld.Body = e
	return ld, nil
}

// parseOnCall: CALLEE [#N] [op "X"] [assert EXPR] [; then a = e, b = e] [tags]
func parseOnCall(s string, defTags []string) (*Clause, error) {
	c := &Clause{Kind: "oncall"}
	s, c.Tags = splitTags(s, defTags)
	parts := splitTop(s, ';')
	head := strings.TrimSpace(parts[0])
	for _, p := range parts[1:] {
		p = strings.TrimSpace(p)
		if !strings.HasPrefix(p, "then") {
			return nil, fmt.Errorf("expected 'then' after ';'")
		}
		p = strings.TrimSpace(p[4:])
		for _, u := range splitTop(p, ',') {
			u = strings.TrimSpace(u)
			k := indexTopEq(u)
			if k < 0 {
				return nil, fmt.Errorf("ghost update needs '=' in %q", u)
			}
			e, err := ParseExpr(strings.TrimSpace(u[k+1:]))
			if err != nil {
				return nil, err
			}
			c.Then = append(c.Then, GhostUpd{strings.TrimSpace(u[:k]), e})
		}
	}
	// callee
	w, rest := splitWord(head)
	c.Callee = w
	for rest != "" {
		w, r := splitWord(rest)
		switch {
		case strings.HasPrefix(w, "#"):
			n, err := strconv.Atoi(w[1:])
			if err != nil {
				return nil, err
			}
			c.Ordinal = n
			rest = r
		case w == "op":
			if !strings.HasPrefix(r, "\"") {
				return nil, fmt.Errorf("op needs a string")
			}
			j := strings.Index(r[1:], "\"")
			if j < 0 {
				return nil, fmt.Errorf("op: unterminated string")
			}
			c.Op = r[1 : j+1]
			rest = strings.TrimSpace(r[j+2:])
		case w == "assert":
			e, err := ParseExpr(r)
			if err != nil {
				return nil, err
			}
			c.Expr = e
			rest = ""
		case w == "assume":
			// UNCHECKED assumption at this call (listed in the evidence)
			e, err := ParseExpr(r)
			if err != nil {
				return nil, err
			}
			c.Expr = e
			c.GhostName = "assume"
			rest = ""
		default:
			return nil, fmt.Errorf("unexpected %q in on-call clause", w)
		}
	}
	return c, nil
}

// parseStoreHook: T.f then LOC = EXPR, ...
func parseStoreHook(s string) (*StoreHook, error) {
	k := strings.Index(s, " then ")
	if k < 0 {
		return nil, fmt.Errorf("on store T.f then loc = expr")
	}
	tf := strings.TrimSpace(s[:k])
	d := strings.Index(tf, ".")
	if d < 0 {
		return nil, fmt.Errorf("on store T.f")
	}
	sh := &StoreHook{Struct: tf[:d], Field: tf[d+1:]}
	for _, u := range splitTop(s[k+6:], ',') {
		u = strings.TrimSpace(u)
		q := indexTopEq(u)
		if q < 0 {
			return nil, fmt.Errorf("store hook update needs '='")
		}
		loc, err := ParseExpr(strings.TrimSpace(u[:q]))
		if err != nil {
			return nil, err
		}
		val, err := ParseExpr(strings.TrimSpace(u[q+1:]))
		if err != nil {
			return nil, err
		}
		sh.Then = append(sh.Then, GhostUpdLoc{loc, val})
	}
	return sh, nil
}
