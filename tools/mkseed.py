#!/usr/bin/env python3
"""mkseed.py <PROPERTY_ID> [suffix]: creates a scratch worktree /var/tmp/seed_<ID><suffix> of /repo without the contract files
and writes the prompt for a seeding agent to /var/tmp/seedprompt_<ID><suffix>.md (the agent gets only the property text)."""
import json, sys, subprocess, os, glob
pid = sys.argv[1]; suf = sys.argv[2] if len(sys.argv) > 2 else ''
prop = None
for l in open('/verif/properties.jsonl'):
    d = json.loads(l)
    if d['id'] == pid: prop = d
wt = f'/var/tmp/seed_{pid}{suf}'
subprocess.run(['git', '-C', '/repo', 'worktree', 'remove', '--force', wt], capture_output=True)
subprocess.run(['rm', '-rf', wt, wt + '-out'])
subprocess.check_call(['git', '-C', '/repo', 'worktree', 'add', '-q', '--detach', wt, 'HEAD'])
for f in subprocess.check_output(['git', '-C', wt, 'ls-files', '*zz_contracts*_verif.go'], text=True).split():
    os.remove(os.path.join(wt, f))
subprocess.check_call(['git', '-C', wt, '-c', 'user.email=a@b', '-c', 'user.name=a', 'commit', '-qam', 'scratch base'])
mech = '; '.join(f"{m['name']} @ {m['where']}" for m in prop['anchors']['mechanism'])
tmpl = open('/verif/tools/seedprompt_template.md').read()
# rebuild from the C19 template: replace the property block and the paths
head, rest = tmpl.split('PROPERTY C19', 1)
_, rest = rest.split('YOUR WORKTREE:', 1)
body = f"PROPERTY {pid} — {prop['title']}\nStatement: {prop['statement']}\nQuantifier (what \"all\" ranges over): {prop['quantifier']['text']}\nWhere the mechanism lives: {mech}\n\nYOUR WORKTREE:" + rest
txt = (head + body).replace('/tmp/seed_C19', wt).replace('"C19"', f'"{pid}"')
txt = txt.replace('/verif/tools/run_baseline.sh', '/verif/tools/run_baseline.sh')
open(f'/var/tmp/seedprompt_{pid}{suf}.md', 'w').write(txt)
print(wt)
