#!/usr/bin/env python3
"""merge_assumed.py <agent assumed dir> : merge agent-written assumed contract files into /verif/contracts/assumed.
Blocks are keyed by their `//@ func|spec|pred|ghost|on store` header line; new keys are appended, identical ones skipped,
conflicting ones reported (and the agent's version written to <file>.conflict for manual merge)."""
import sys, os, re
src = sys.argv[1]; dst = '/verif/contracts/assumed'
def blocks(text):
    out = []; cur = None; pre = []
    for ln in text.split('\n'):
        m = re.match(r'\s*//\s?@\s*(func|spec func|pred|ghost field|on store|lemma)\b(.*)', ln)
        if m:
            if cur: out.append(cur)
            key = (m.group(1) + ' ' + re.sub(r'\[.*?\]', '', m.group(2))).split('=')[0].strip()
            key = re.sub(r'\s+', ' ', key)
            cur = [key, pre + [ln]]; pre = []
        elif cur is not None and re.match(r'\s*//\s?@', ln):
            cur[1].append(ln)
        else:
            if cur: out.append(cur); cur = None
            if ln.strip().startswith('//') or not ln.strip():
                pre.append(ln)
            else:
                pre = []
    if cur: out.append(cur)
    return out
def norm(lines): return [re.sub(r'\s+', ' ', l.strip()) for l in lines if re.match(r'\s*//\s?@', l)]
for fn in sorted(os.listdir(src)):
    if not fn.endswith('.gvc'): continue
    a = open(os.path.join(src, fn)).read()
    p = os.path.join(dst, fn)
    if not os.path.exists(p):
        open(p, 'w').write(a); print('new file', fn); continue
    base = open(p).read()
    bb = {k: v for k, v in blocks(base)}
    add = []; conf = []
    for k, v in blocks(a):
        if k not in bb: add.append((k, v))
        elif norm(bb[k]) != norm(v): conf.append((k, v))
    if add:
        with open(p, 'a') as f:
            f.write('\n// ---- merged from ' + src + '\n')
            for k, v in add: f.write('\n'.join(v).strip('\n') + '\n\n')
    print(fn, 'added', [k for k, _ in add], 'conflicts', [k for k, _ in conf])
    if conf:
        with open(p + '.conflict', 'a') as f:
            for k, v in conf: f.write('\n'.join(v) + '\n\n')
