#!/bin/sh
# tools/confirm_seed_wt.sh <seeded dir> : scratch-worktree half of the confirmation of a seeded change
# (demo passes on the clean tree; patch applies; builds; baseline 145/145; demo fails with the patch). Does not touch /repo's working tree.
set -u
D="$1"; NAME=$(basename $D)
export GOFLAGS=-mod=mod GOPROXY=off GOSUMDB=off GOTOOLCHAIN=local
W=/var/tmp/confirm_$NAME
git -C /repo worktree remove --force $W 2>/dev/null
git -C /repo worktree add -q --detach $W HEAD || exit 2
DEMO=$(ls $D/demo_test.go $D/demo*_test.go 2>/dev/null | head -1)
PKG=$(grep -m1 '^package ' $DEMO | awk '{print $2}')
case "$PKG" in
  litefs|litefs_test) SUB=. ;;
  http|http_test) SUB=http ;;
  chunk|chunk_test) SUB=internal/chunk ;;
  internal|internal_test) SUB=internal ;;
  lfsc|lfsc_test) SUB=lfsc ;;
  consul|consul_test) SUB=consul ;;
  *) SUB=. ;;
esac
cp $DEMO $W/$SUB/zz_seed_demo_test.go
echo "== clean tree: demo"
(cd $W/$SUB && go test -vet=off -count=1 -timeout 300s -run 'Demo|demo|C[0-9][0-9]' . 2>&1 | tail -3)
rm $W/$SUB/zz_seed_demo_test.go
echo "== apply patch"
git -C $W apply $D/patch.diff || { echo "PATCH DOES NOT APPLY"; git -C /repo worktree remove --force $W; exit 1; }
(cd $W && go build ./... && echo "build ok")
/verif/tools/run_baseline.sh $W | tail -2
cp $DEMO $W/$SUB/zz_seed_demo_test.go
echo "== with patch: demo"
(cd $W/$SUB && go test -vet=off -count=1 -timeout 300s -run 'Demo|demo|C[0-9][0-9]' . 2>&1 | grep -v "^=== RUN\|^    " | tail -6)
git -C /repo worktree remove --force $W
