#!/bin/sh
# tools/refresh_mirror.sh : copies the contract files of /repo (zz_contracts*_verif.go) into /verif/contracts/mirror/<pkg dir>/
set -e
cd /repo
rm -rf /verif/contracts/mirror
git ls-files '*zz_contracts*_verif.go' | while read f; do
  mkdir -p /verif/contracts/mirror/$(dirname $f)
  cp $f /verif/contracts/mirror/$f
done
find /verif/contracts/mirror -type f | wc -l
