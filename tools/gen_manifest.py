#!/usr/bin/env python3
"""Regenerates /verif/MANIFEST.json from tools/claims.json (what is claimed per property)."""
import json, os, subprocess
here = os.path.dirname(os.path.abspath(__file__))
root = os.path.dirname(here)
claims = json.load(open(os.path.join(here, 'claims.json')))
ids = [json.loads(l)['id'] for l in open(os.path.join(root, 'properties.jsonl'))]
try:
    commits = subprocess.check_output(['git', '-C', '/repo', 'log', '--format=%H %s']).decode().splitlines()
except Exception:
    commits = []
hook_commits = [c.split()[0] for c in commits if c.split(' ', 1)[1].startswith('verif')]
checks = []
na = []
for i in ids:
    c = claims.get(i)
    if not c or not c.get('claimed'):
        na.append({'property_id': i, 'reason': (c or {}).get('reason', 'check not built yet (construction in progress; see DESIGN.md section 4)')})
        continue
    checks.append({
        'property_id': i,
        'quick_cmd': 'bin/check %s quick' % i,
        'thorough_cmd': 'bin/check %s thorough' % i,
        'evidence_file': '/verif/evidence/%s.json' % i,
        'replay_cmd_template': 'bin/check %s --replay {path}' % i,
        'engine': 'govc',
        'level_claimed': {'category': 'proof', 'text': c['text'], 'design_ref': 'DESIGN.md Part I.7 (built system) and section 4, ' + i},
        'level_note': c['note'],
        'technique': c.get('technique', 'contract-based deductive verification: weakest-precondition VCs over go/ssa of the real code, discharged by z3/cvc5'),
    })
m = {
    'version': 1,
    'setup_cmd': 'cd /verif && GOFLAGS=-mod=mod GOPROXY=off GOSUMDB=off GOTOOLCHAIN=local go build -o bin/govc ./cmd/govc',
    'hooks': {
        'guard': 'verif',
        'enable': 'go build -tags verif ./... (the guarded files zz_contracts_verif.go are comment-only contract files; the engine loads /repo with -tags=verif)',
        'baseline_off_cmd': 'cd /repo && GOFLAGS=-mod=mod GOPROXY=off GOSUMDB=off go test -json -vet=off -count=1 -timeout 25m ./...',
        'source_commits': hook_commits,
        'add_only': True,
    },
    'engines': [{'name': 'govc', 'path': '/verif/cmd/govc', 'serves_properties': [c['property_id'] for c in checks],
                 'kind_free_text': 'VC generator over go/ssa (x/tools v0.29.0) with GVC contracts in //@ comments; obligations discharged by z3 5.1.0 / cvc5 1.0 / z3 4.8.12'}],
    'checks': checks,
    'notes': 'See DESIGN.md Part I. Contracts live in /repo/**/zz_contracts*_verif.go (comment-only, build tag verif), mirrored under /verif/contracts/mirror; assumed contracts for code outside /repo under /verif/contracts/assumed; open findings in /verif/known-findings.json; seeded changes and results in /verif/seeded/RESULTS.md.',
    'not_applicable': na,
}
json.dump(m, open(os.path.join(root, 'MANIFEST.json'), 'w'), indent=1)
print('claimed:', [c['property_id'] for c in checks])
