import json,sys,os,shutil
d, result, obl = sys.argv[1], sys.argv[2], sys.argv[3]
a = json.load(open(f'{d}/meta.agent.json'))
a['breaks_property']=a['property']
a['confirmed_by_me']="tools/confirm_seed_wt.sh: scratch worktree of /repo HEAD; demo passes on the clean tree; patch applies; go build ok; run_baseline.sh 145/145; demo fails with the patch"
a['our_check']=f"git -C /repo apply patch.diff; bin/check {a['property']} quick; git -C /repo checkout -- .  (tools/seed_check.sh)"
a['our_check_result']=result
a['caught_by_obligations']=obl
json.dump(a, open(f'{d}/meta.json','w'), indent=1)
os.remove(f'{d}/meta.agent.json')
if os.path.exists(f'{d}/demo_test.go'): os.rename(f'{d}/demo_test.go', f'{d}/demo_test.go.txt')
p=a['property']; n=os.path.basename(d).replace('-','_')
os.makedirs(f'/verif/selftest/mutants/{p}', exist_ok=True)
shutil.copy(f'{d}/patch.diff', f'/verif/selftest/mutants/{p}/seed_{n}.patch')
json.dump({"property":p,"expect_obligation_contains":sys.argv[4],"what":f"seed_{n} (seeded change, see seeded/{os.path.basename(d)})"}, open(f'/verif/selftest/mutants/{p}/seed_{n}.json','w'))
