#!/bin/sh
cd /verif
for p in C01 C02 C03 C04 C05 C06 C07 C08 C09 C10 C11 C12 C13 C14 C15 C16 C17 C18 C19 C20; do
  s=$(date +%s)
  timeout 3600 ./bin/govc -prop $p -write-baseline > /var/tmp/wb_$p.log 2>&1
  e=$(date +%s)
  echo "$p $(grep SUMMARY /var/tmp/wb_$p.log | cut -c1-170) t=$((e-s))s"
done
