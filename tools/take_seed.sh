#!/bin/sh
# tools/take_seed.sh <PROP> <suffix> <seed dir name> : copies an agent's deliverables from /var/tmp/seed_<PROP><suffix>-out into
# /verif/seeded/<name>, confirms them in a scratch worktree (confirm_seed_wt.sh) and runs the property's quick check with
# the patch applied to /repo (seed_check.sh; /repo is restored afterwards). Record the outcome with tools/addseed.py.
set -u
P="$1"; SUF="$2"; N="$3"; D=/verif/seeded/$N; O=/var/tmp/seed_${P}${SUF}-out
mkdir -p $D; cp $O/patch.diff $D/; cp $O/demo_test.go $D/; cp $O/meta.json $D/meta.agent.json
/verif/tools/confirm_seed_wt.sh $D 2>&1 | grep -A1 "clean tree: demo\|baseline tests\|^--- FAIL\|PATCH" | grep -v "^--$"
/verif/tools/seed_check.sh $D 2>&1 | tail -6
