#!/bin/sh
# tools/seed_check.sh <seeded dir> : applies the seeded change to /repo, runs the property's quick check, reverts.
# Prints the VIOLATION lines (or NOT CAUGHT). /repo must be clean.
set -u
D="$1"
PROP=$(python3 -c "import json,sys;print(json.load(open('$D/meta.agent.json' if __import__('os').path.exists('$D/meta.agent.json') else '$D/meta.json'))['property'])")
if [ -n "$(git -C /repo status --porcelain)" ]; then echo "/repo is dirty: commit first"; exit 3; fi
git -C /repo apply "$D/patch.diff" || { echo "PATCH DOES NOT APPLY"; exit 1; }
(cd /verif && bin/check $PROP quick > /var/tmp/seedcheck_$(basename $D).log 2>&1; echo "exit=$?")
git -C /repo checkout -- .
grep "^VIOLATION\|^SUMMARY" /var/tmp/seedcheck_$(basename $D).log | cut -c1-220
grep -q "^VIOLATION" /var/tmp/seedcheck_$(basename $D).log || echo "NOT CAUGHT"
git -C /repo status --short | head -3
