#!/bin/sh
# tools/mkagent.sh NAME : isolated working copy (engine + repository) for one contract-writing agent
set -e
N="$1"; D=/var/tmp/ag_$N
rm -rf "$D"; mkdir -p "$D"
rsync -a --exclude .git --exclude evidence --exclude replays --exclude bin/govc /verif/ "$D/verif/"
rsync -a --exclude .git /repo/ "$D/repo/"
(cd "$D/repo" && git init -q && git add -A && git -c user.email=a@b -c user.name=a commit -qm base)
(cd "$D/verif" && GOFLAGS=-mod=mod GOPROXY=off GOSUMDB=off GOTOOLCHAIN=local go build -o bin/govc ./cmd/govc)
echo "$D"
