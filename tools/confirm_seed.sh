#!/bin/sh
# tools/confirm_seed.sh <out dir with patch.diff, demo_test.go, meta.json> <name>
# Confirms a seeded change in a scratch worktree: demo passes on the clean tree, patch applies, builds, baseline 145/145,
# demo fails with the patch. Then runs our quick check of the property against /repo with the patch applied (and reverts).
set -u
OUT="$1"; NAME="$2"
export GOFLAGS=-mod=mod GOPROXY=off GOSUMDB=off GOTOOLCHAIN=local
PROP=$(python3 -c "import json;print(json.load(open('$OUT/meta.json'))['property'])")
W=/tmp/confirm_$NAME
git -C /repo worktree remove --force $W 2>/dev/null
git -C /repo worktree add -q --detach $W HEAD || exit 2
DEMO=$(ls $OUT/demo_test.go $OUT/demo*_test.go 2>/dev/null | head -1)
PKG=$(grep -m1 '^package ' $DEMO | awk '{print $2}')
case "$PKG" in
  litefs|litefs_test) SUB=. ;;
  http|http_test) SUB=http ;;
  chunk|chunk_test) SUB=internal/chunk ;;
  internal|internal_test) SUB=internal ;;
  *) SUB=. ;;
esac
cp $DEMO $W/$SUB/zz_seed_demo_test.go
echo "== clean tree: demo"
(cd $W/$SUB && go test -vet=off -count=1 -timeout 300s -run 'Demo|demo|C[0-9][0-9]' . 2>&1 | tail -3)
rm $W/$SUB/zz_seed_demo_test.go
echo "== apply patch"
git -C $W apply $OUT/patch.diff || { echo "PATCH DOES NOT APPLY"; git -C /repo worktree remove --force $W; exit 1; }
/verif/tools/run_baseline.sh $W | tail -2
cp $DEMO $W/$SUB/zz_seed_demo_test.go
echo "== with patch: demo"
(cd $W/$SUB && go test -vet=off -count=1 -timeout 300s -run 'Demo|demo|C[0-9][0-9]' . 2>&1 | grep -v "^=== RUN\|^    " | tail -6)
git -C /repo worktree remove --force $W
if [ -n "$(git -C /repo status --porcelain)" ]; then echo "/repo is dirty: commit first"; exit 3; fi
echo "== our check ($PROP quick) with the patch on /repo"
git -C /repo apply $OUT/patch.diff && (cd /verif && bin/check $PROP quick 2>&1 | grep "VIOLATION\|SUMMARY\|KNOWN" | cut -c1-200 | head -8); git -C /repo checkout -- .
git -C /repo status --short | head -3
