#!/bin/sh
cd /verif
for p in C01 C02 C03 C04 C05 C06 C07 C08 C09 C10 C11 C12 C13 C14 C15 C16 C17 C18 C19 C20; do
  s=$(date +%s); bin/check $p quick > /var/tmp/q_$p.log 2>&1; rc=$?
  echo "$p rc=$rc t=$(( $(date +%s)-s ))s $(grep SUMMARY /var/tmp/q_$p.log | cut -c1-150) VIOL=$(grep -c '^VIOLATION' /var/tmp/q_$p.log) UND=$(grep -c '^UNDECIDED' /var/tmp/q_$p.log)"
done
