#!/bin/sh
# tools/run_finding.sh <file in /verif/findings> <TestName> [repo dir]   — runs a demonstration test against a tree through -overlay
set -e
F="$1"; T="$2"; R="${3:-/repo}"
export GOFLAGS=-mod=mod GOPROXY=off GOSUMDB=off GOTOOLCHAIN=local
D=$(mktemp -d /var/tmp/finding.XXXX)
PKG=$(head -1 /verif/findings/$F | awk '{print $2}')
case "$PKG" in
  litefs_test|litefs) DIR="$R";;
  http_test|http) DIR="$R/http";;
  lfsc|lfsc_test) DIR="$R/lfsc";;
  chunk_test|chunk) DIR="$R/internal/chunk";;
  *) DIR="$R";;
esac
cp /verif/findings/$F $D/zz_finding_test.go
printf '{"Replace":{"%s/zz_finding_test.go":"%s/zz_finding_test.go"}}' "$DIR" "$D" > $D/ov.json
(cd "$DIR" && go test -overlay $D/ov.json -vet=off -count=1 -timeout 120s -run "$T" -v . 2>&1 | tail -15)
rm -rf $D
