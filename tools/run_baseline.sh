#!/bin/sh
# /tmp/run_baseline.sh <repo dir> : runs the repository's baseline test suite and reports whether all 145 baseline tests pass
# (76 other tests need a kernel FUSE mount and always fail in this sandbox; they are ignored).
D="${1:?repo dir}"
export GOFLAGS=-mod=mod GOPROXY=off GOSUMDB=off GOTOOLCHAIN=local
cd "$D" || exit 2
go build ./... || { echo "BUILD FAILED"; exit 1; }
go test -json -vet=off -count=1 -timeout 25m ./... 2>/dev/null > /var/tmp/baseline_$$.json
python3 - /var/tmp/baseline_$$.json <<'PY'
import json,sys
base=json.load(open('/root/.vp/BASELINE.json'))['stable_pass']
res={}
for l in open(sys.argv[1]):
    try: e=json.loads(l)
    except: continue
    if e.get('Action') in ('pass','fail') and e.get('Test'):
        res[e['Package']+'::'+e['Test']]=e['Action']
bad=[t for t in base if res.get(t)!='pass']
print('baseline tests passing: %d/%d'%(len(base)-len(bad),len(base)))
for t in bad[:20]: print('  NOT PASSING:',t,res.get(t))
sys.exit(1 if bad else 0)
PY
RC=$?; rm -f /var/tmp/baseline_$$.json; exit $RC
