import subprocess, sys, os, re, json
REPO='/var/tmp/ag_c18/repo'; VERIF='/var/tmp/ag_c18/verif'
env=dict(os.environ, GOFLAGS='-mod=mod', GOPROXY='off', GOSUMDB='off', GOTOOLCHAIN='local')
def run(func):
    p=subprocess.run(['timeout','600','bin/govc','-repo',REPO,'-verif',VERIF,'-prop','C18','-func',func,'-v'],cwd=VERIF,env=env,capture_output=True,text=True)
    out=p.stdout+p.stderr
    bad=[]
    for l in out.splitlines():
        m=re.match(r'^(failed|undecided|vacuous)\s+\S+\s+\S+\s+(\S+)',l)
        if m: bad.append(m.group(1)+' '+m.group(2))
        elif l.startswith('UNDECIDED function') or 'engine-error' in l or l.startswith('note:'): bad.append(l.strip())
    return bad
BASE={}
def baseline(func):
    if func not in BASE: BASE[func]=set(run(func))
    return BASE[func]
muts=json.load(open(sys.argv[1]))
res=[]
for m in muts:
    f=os.path.join(REPO,m['file']); src=open(f).read()
    assert src.count(m['old'])>=1, ('old text not found', m['id'])
    idx=m.get('nth',0)
    pos=-1
    for _ in range(idx+1): pos=src.index(m['old'],pos+1)
    new=src[:pos]+m['new']+src[pos+len(m['old']):]
    base=baseline(m['func'])
    open(f,'w').write(new)
    try:
        b=subprocess.run(['go','build','./...'],cwd=REPO,env=env,capture_output=True,text=True)
        if b.returncode!=0:
            res.append((m['id'],'BUILD FAIL '+b.stderr[:300])); continue
        bad=set(run(m['func']))
        newbad=sorted(bad-base); gone=sorted(base-bad)
        res.append((m['id'],m['desc'],newbad,gone))
    finally:
        open(f,'w').write(src)
for r in res:
    print('###',r[0],'|',r[1])
    if len(r)>2:
        print('   caught by:' if r[2] else '   NOT CAUGHT', '; '.join(r[2][:8]), ('(+%d more)'%(len(r[2])-8) if len(r[2])>8 else ''))
        if r[3]: print('   now passing:', '; '.join(r[3]))
subprocess.run(['git','status','--short'],cwd=REPO)
