#!/bin/bash
# usage: run.sh <name> <file> <func-filter> <python-edit-expr: old|||new>
export GOFLAGS=-mod=mod GOPROXY=off GOSUMDB=off GOTOOLCHAIN=local
name="$1"; file="$2"; filt="$3"; old="$4"; new="$5"
cd /var/tmp/ag_c14/repo
python3 - "$file" "$old" "$new" <<'PY'
import sys
p,old,new=sys.argv[1:4]
s=open(p).read()
if s.count(old)!=1:
    print("EDIT-ERROR: pattern count", s.count(old)); sys.exit(1)
open(p,'w').write(s.replace(old,new))
PY
if [ $? -ne 0 ]; then git checkout -q -- "$file"; exit 1; fi
(cd /var/tmp/ag_c14/repo && go build ./ ./lfsc 2>&1 | head -5)
cd /var/tmp/ag_c14/verif
echo "=== MUTANT $name"
timeout 900 bin/govc -repo /var/tmp/ag_c14/repo -verif /var/tmp/ag_c14/verif -prop C14 -func "$filt" -v 2>&1 | grep "^failed\|^undecided\|SUMMARY\|contract error" | grep -v 'streamBackupDB/return/assert#2 \|streamBackupDBSnapshot/return/assert#2\|FetchSnapshot$2/return/assert#2\|lfsc.BackupClient.PosMap/ensures#1 '
cd /var/tmp/ag_c14/repo && git checkout -q -- "$file"
