MUTS = {
# ReleaseHaltLock
'R1': ('db.go','DB.ReleaseHaltLock','''	} else if curr.haltLock.ID != id {
		TraceLog.Printf("[ReleaseHaltLock.Done(%s)]: not-current-lock", db.name)
		return // not the current lock
	}
''','''	}
'''),
'R2': ('db.go','DB.ReleaseHaltLock','''	db.haltLockAndGuard.CompareAndSwap(curr, (*haltLockAndGuard)(nil))

	// Release the guard set so the database can write again.
	curr.guardSet.Unlock()
''','''	curr.guardSet.Unlock()
	db.haltLockAndGuard.CompareAndSwap(curr, (*haltLockAndGuard)(nil))
'''),
'R3': ('db.go','DB.ReleaseHaltLock','''	// Release the guard set so the database can write again.
	curr.guardSet.Unlock()
''','''	// Release the guard set so the database can write again.
'''),
'R4': ('db.go','DB.ReleaseHaltLock','''	db.haltLockAndGuard.CompareAndSwap(curr, (*haltLockAndGuard)(nil))

	// Release the guard set so''','''	db.haltLockAndGuard.CompareAndSwap(curr, curr)

	// Release the guard set so'''),
# EnforceHaltLockExpiration
'E1': ('db.go','DB.EnforceHaltLockExpiration','''curr.haltLock.Expires == nil || curr.haltLock.Expires.After(time.Now())''','''curr.haltLock.Expires == nil || !curr.haltLock.Expires.After(time.Now())'''),
'E2': ('db.go','DB.EnforceHaltLockExpiration','''curr.haltLock.Expires == nil || curr.haltLock.Expires.After(time.Now())''','''curr.haltLock.Expires.After(time.Now())'''),
'E3': ('db.go','DB.EnforceHaltLockExpiration','''	db.haltLockAndGuard.CompareAndSwap(curr, (*haltLockAndGuard)(nil))
	curr.guardSet.Unlock()
}''','''	db.haltLockAndGuard.CompareAndSwap(curr, (*haltLockAndGuard)(nil))
}'''),
'E4': ('db.go','DB.EnforceHaltLockExpiration','''	db.haltLockAndGuard.CompareAndSwap(curr, (*haltLockAndGuard)(nil))
	curr.guardSet.Unlock()
}''','''	curr.guardSet.Unlock()
}'''),
# AcquireRemoteHaltLock
'A1': ('db.go','DB.AcquireRemoteHaltLock','''	db.remoteHaltLock.Store(haltLock)

	// Wait for local node to catch up to remote position.
	if err := db.WaitPosExact(cctx, haltLock.Pos); err != nil {
		return nil, fmt.Errorf("wait: %w", err)
	}
''','''	// Wait for local node to catch up to remote position.
	if err := db.WaitPosExact(cctx, haltLock.Pos); err != nil {
		return nil, fmt.Errorf("wait: %w", err)
	}
	db.remoteHaltLock.Store(haltLock)
'''),
'A2': ('db.go','DB.AcquireRemoteHaltLock','''	if lockID == 0 {
		return nil, fmt.Errorf("remote halt lock id required")
	}
''',''''''),
'A3': ('db.go','DB.AcquireRemoteHaltLock','''db.WaitPosExact(cctx, haltLock.Pos)''','''db.WaitPosExact(cctx, db.Pos())'''),
'A4': ('db.go','DB.AcquireRemoteHaltLock','''			if err := db.store.Client.ReleaseHaltLock(ctx, info.AdvertiseURL, db.store.ID(), db.name, haltLock.ID); err != nil {
				log.Printf("cannot release remote halt lock after acquisition error: %s", err)
			}
''',''''''),
'A5': ('db.go','DB.AcquireRemoteHaltLock','''	if err := db.WaitPosExact(cctx, haltLock.Pos); err != nil {
		return nil, fmt.Errorf("wait: %w", err)
	}
''','''	_ = db.WaitPosExact(cctx, haltLock.Pos)
'''),
# WaitPosExact
'W1': ('db.go','DB.WaitPosExact','''				return fmt.Errorf("target transaction id exceeded: %s > %s", pos.TXID.String(), target.TXID.String())''','''				return nil'''),
'W2': ('db.go','DB.WaitPosExact','''			if pos.PostApplyChecksum != target.PostApplyChecksum {
				return fmt.Errorf("target checksum mismatch: %s != %s", pos.PostApplyChecksum, target.PostApplyChecksum)
			}
''',''''''),
'W3': ('db.go','DB.WaitPosExact','''			if pos.TXID < target.TXID {
				continue // not there yet, try again
			}
''','''			if pos.TXID+1 < target.TXID {
				continue // not there yet, try again
			}
'''),
# UnsetRemoteHaltLock
'U1': ('db.go','DB.UnsetRemoteHaltLock','''	} else if haltLock.ID != lockID {
		TraceLog.Printf("[UnsetRemoteHaltLock.Done(%s)]: id=%d curr=%d not-current-lock", db.name, lockID, haltLock.ID)
		return nil
	}
''','''	}
'''),
'U2': ('db.go','DB.UnsetRemoteHaltLock','''	if err := db.Recover(ctx); err != nil {
		return fmt.Errorf("recovery: %w", err)
	}
''','''	_ = db.Recover(ctx)
'''),
'U3': ('db.go','DB.UnsetRemoteHaltLock','''	db.remoteHaltLock.CompareAndSwap(haltLock, (*HaltLock)(nil))

	return nil
}''','''	return nil
}'''),
# ReleaseRemoteHaltLock
'RR1': ('db.go','DB.ReleaseRemoteHaltLock','''	if err := db.UnsetRemoteHaltLock(ctx, lockID); err != nil {
		return err
	}

	isPrimary, info := db.store.PrimaryInfo()''','''	_ = db.UnsetRemoteHaltLock(ctx, lockID)

	isPrimary, info := db.store.PrimaryInfo()'''),
'RR2': ('db.go','DB.ReleaseRemoteHaltLock','''db.store.Client.ReleaseHaltLock(ctx, info.AdvertiseURL, db.store.ID(), db.name, lockID); err != nil {
		return err
	}

	return nil''','''db.store.Client.ReleaseHaltLock(ctx, info.AdvertiseURL, db.store.ID(), db.name, lockID+1); err != nil {
		return err
	}

	return nil'''),
'RR3': ('db.go','DB.ReleaseRemoteHaltLock','''	if err := db.UnsetRemoteHaltLock(ctx, lockID); err != nil {
		return err
	}
''','''	if err := db.UnsetRemoteHaltLock(ctx, 0); err != nil {
		return err
	}
'''),
# getters
'M1': ('db.go','DB.RemoteHaltLock','''	other := *value
	return &other
}

// HasRemoteHaltLock''','''	return value
}

// HasRemoteHaltLock'''),
'M2': ('db.go','DB.RemoteHaltLock','''	if value == nil {
		return nil
	}
	other := *value
	return &other
}

// HasRemoteHaltLock''','''	if value != nil {
		return nil
	}
	other := HaltLock{}
	return &other
}

// HasRemoteHaltLock'''),
'H1': ('db.go','DB.HasRemoteHaltLock','''return db.remoteHaltLock.Load().(*HaltLock) != nil''','''return db.remoteHaltLock.Load().(*HaltLock) == nil'''),
'WR1': ('db.go','DB.Writeable','''return db.HasRemoteHaltLock() || db.store.IsPrimary()''','''return db.HasRemoteHaltLock() && db.store.IsPrimary()'''),
'WR2': ('db.go','DB.Writeable','''return db.HasRemoteHaltLock() || db.store.IsPrimary()''','''return db.store.IsPrimary()'''),
# AcquireWriteLock
'AW1': ('db.go','DB.AcquireWriteLock','''			if err := fn(); err != nil {
				return nil, err
			}
''','''			_ = fn()
'''),
'AW2': ('db.go','DB.AcquireWriteLock','''		if gs := db.TryAcquireWriteLock(); gs != nil {
			return gs, nil
		}
''','''		if gs := db.TryAcquireWriteLock(); gs != nil {
			return gs, context.Canceled
		}
'''),
'AW3': ('db.go','DB.AcquireWriteLock','''			return nil, context.Cause(ctx)
		case <-ticker.C:''','''			return db.newGuardSet(0), context.Cause(ctx)
		case <-ticker.C:'''),
'AW4': ('db.go','DB.AcquireWriteLock','''		if gs := db.TryAcquireWriteLock(); gs != nil {
			return gs, nil
		}
''','''		if gs := db.TryAcquireWriteLock(); gs != nil {
			gs.Unlock()
			return gs, nil
		}
'''),
# Recover
'RC1': ('db.go','DB.Recover','''	defer guard.Unlock()
	return db.recover(ctx)''','''	_ = guard
	return db.recover(ctx)'''),
'RC2': ('db.go','DB.Recover','''	defer guard.Unlock()
	return db.recover(ctx)''','''	guard.Unlock()
	return db.recover(ctx)'''),
# CommitJournal forwarding
'C1': ('db.go','DB.CommitJournal','haltLock.ID, io.NopCloser(ltxFile)); err != nil {\n\t\t\treturn fmt.Errorf("remote commit: %w", err)\n\t\t}\n\t}\n\n\tif err := ltxFile.Close(); err != nil {\n\t\treturn fmt.Errorf("close ltx file: %s", err)\n\t}\n\n\t// Atomically rename the file\n\tif err := db.os.Rename("COMMITJOURNAL:LTX", tmpPath, ltxPath); err != nil {','haltLock.ID+1, io.NopCloser(ltxFile)); err != nil {\n\t\t\treturn fmt.Errorf("remote commit: %w", err)\n\t\t}\n\t}\n\n\tif err := ltxFile.Close(); err != nil {\n\t\treturn fmt.Errorf("close ltx file: %s", err)\n\t}\n\n\t// Atomically rename the file\n\tif err := db.os.Rename("COMMITJOURNAL:LTX", tmpPath, ltxPath); err != nil {'),
'C2': ('db.go','DB.CommitJournal','haltLock.ID, io.NopCloser(ltxFile)); err != nil {\n\t\t\treturn fmt.Errorf("remote commit: %w", err)\n\t\t}\n\t}\n\n\tif err := ltxFile.Close(); err != nil {\n\t\treturn fmt.Errorf("close ltx file: %s", err)\n\t}\n\n\t// Atomically rename the file\n\tif err := db.os.Rename("COMMITJOURNAL:LTX", tmpPath, ltxPath); err != nil {','haltLock.ID, io.NopCloser(ltxFile)); err != nil {\n\t\t\tlog.Printf("remote commit: %s", err)\n\t\t}\n\t}\n\n\tif err := ltxFile.Close(); err != nil {\n\t\treturn fmt.Errorf("close ltx file: %s", err)\n\t}\n\n\t// Atomically rename the file\n\tif err := db.os.Rename("COMMITJOURNAL:LTX", tmpPath, ltxPath); err != nil {'),
'C3': ('db.go','DB.CommitJournal','\t// If remote lock held, send LTX file to primary.\n\thaltLock := db.RemoteHaltLock()\n\tif haltLock != nil {\n\t\t_, info := db.store.PrimaryInfo()\n\t\tif info == nil {\n\t\t\treturn fmt.Errorf("no primary available for remote transaction")\n\t\t}\n\n\t\tif _, err := ltxFile.Seek(0, io.SeekStart); err != nil {\n\t\t\treturn fmt.Errorf("seek ltx file: %w", err)\n\t\t} else if err := db.store.Client.Commit(ctx, info.AdvertiseURL, db.store.ID(), db.name, haltLock.ID, io.NopCloser(ltxFile)); err != nil {\n\t\t\treturn fmt.Errorf("remote commit: %w", err)\n\t\t}\n\t}\n\n\tif err := ltxFile.Close(); err != nil {\n\t\treturn fmt.Errorf("close ltx file: %s", err)\n\t}\n\n\t// Atomically rename the file\n\tif err := db.os.Rename("COMMITJOURNAL:LTX", tmpPath, ltxPath); err != nil {\n\t\treturn fmt.Errorf("rename ltx file: %w", err)\n\t} else if err := internal.Sync(filepath.Dir(ltxPath)); err != nil {\n\t\treturn fmt.Errorf("sync ltx dir: %w", err)\n\t}\n','\tif err := db.os.Rename("COMMITJOURNAL:LTX", tmpPath, ltxPath); err != nil {\n\t\treturn fmt.Errorf("rename ltx file: %w", err)\n\t} else if err := internal.Sync(filepath.Dir(ltxPath)); err != nil {\n\t\treturn fmt.Errorf("sync ltx dir: %w", err)\n\t}\n\thaltLock := db.RemoteHaltLock()\n\tif haltLock != nil {\n\t\t_, info := db.store.PrimaryInfo()\n\t\tif info == nil {\n\t\t\treturn fmt.Errorf("no primary available for remote transaction")\n\t\t}\n\n\t\tif _, err := ltxFile.Seek(0, io.SeekStart); err != nil {\n\t\t\treturn fmt.Errorf("seek ltx file: %w", err)\n\t\t} else if err := db.store.Client.Commit(ctx, info.AdvertiseURL, db.store.ID(), db.name, haltLock.ID, io.NopCloser(ltxFile)); err != nil {\n\t\t\treturn fmt.Errorf("remote commit: %w", err)\n\t\t}\n\t}\n\n\tif err := ltxFile.Close(); err != nil {\n\t\treturn fmt.Errorf("close ltx file: %s", err)\n\t}\n'),
'C4': ('db.go','DB.CommitJournal','\t// If remote lock held, send LTX file to primary.\n\thaltLock := db.RemoteHaltLock()\n\tif haltLock != nil {\n\t\t_, info := db.store.PrimaryInfo()\n\t\tif info == nil {\n\t\t\treturn fmt.Errorf("no primary available for remote transaction")\n\t\t}\n\n\t\tif _, err := ltxFile.Seek(0, io.SeekStart); err != nil {\n\t\t\treturn fmt.Errorf("seek ltx file: %w", err)\n\t\t} else if err := db.store.Client.Commit(ctx, info.AdvertiseURL, db.store.ID(), db.name, haltLock.ID, io.NopCloser(ltxFile)); err != nil {\n\t\t\treturn fmt.Errorf("remote commit: %w", err)\n\t\t}\n\t}\n\n\tif err := ltxFile.Close(); err != nil {\n\t\treturn fmt.Errorf("close ltx file: %s", err)\n\t}\n\n\t// Atomically rename the file\n\tif err := db.os.Rename("COMMITJOURNAL:LTX", tmpPath, ltxPath); err != nil {\n\t\treturn fmt.Errorf("rename ltx file: %w", err)\n\t} else if err := internal.Sync(filepath.Dir(ltxPath)); err != nil {\n\t\treturn fmt.Errorf("sync ltx dir: %w", err)\n\t}\n','\t// If remote lock held, send LTX file to primary.\n\thaltLock := db.RemoteHaltLock()\n\tif haltLock != nil && haltLock.ID > 100 {\n\t\t_, info := db.store.PrimaryInfo()\n\t\tif info == nil {\n\t\t\treturn fmt.Errorf("no primary available for remote transaction")\n\t\t}\n\n\t\tif _, err := ltxFile.Seek(0, io.SeekStart); err != nil {\n\t\t\treturn fmt.Errorf("seek ltx file: %w", err)\n\t\t} else if err := db.store.Client.Commit(ctx, info.AdvertiseURL, db.store.ID(), db.name, haltLock.ID, io.NopCloser(ltxFile)); err != nil {\n\t\t\treturn fmt.Errorf("remote commit: %w", err)\n\t\t}\n\t}\n\n\tif err := ltxFile.Close(); err != nil {\n\t\treturn fmt.Errorf("close ltx file: %s", err)\n\t}\n\n\t// Atomically rename the file\n\tif err := db.os.Rename("COMMITJOURNAL:LTX", tmpPath, ltxPath); err != nil {\n\t\treturn fmt.Errorf("rename ltx file: %w", err)\n\t} else if err := internal.Sync(filepath.Dir(ltxPath)); err != nil {\n\t\treturn fmt.Errorf("sync ltx dir: %w", err)\n\t}\n'),
# Store sweep
'S1': ('store.go','Store.EnforceHaltLockExpiration','''func (s *Store) EnforceHaltLockExpiration(ctx context.Context) {
	s.mu.Lock()
	defer s.mu.Unlock()
''','''func (s *Store) EnforceHaltLockExpiration(ctx context.Context) {
'''),

# AcquireHaltLock
'AH1': ('db.go','DB.AcquireHaltLock','''	if lockID == 0 {
		return nil, fmt.Errorf("halt lock id required")
	}
''',''''''),
'AH2': ('db.go','DB.AcquireHaltLock','''	// Perform a recovery to clear out journal & WAL files.
	if err := db.recover(ctx); err != nil {
		return nil, fmt.Errorf("recovery: %w", err)
	}

	// Generate a random identifier for the lock so it can be referenced by clients.
	expires := time.Now().Add(db.store.HaltLockTTL)
	haltLock := &HaltLock{
		ID:      lockID,
		Pos:     db.Pos(),
		Expires: &expires,
	}
''','''	expires := time.Now().Add(db.store.HaltLockTTL)
	haltLock := &HaltLock{
		ID:      lockID,
		Pos:     db.Pos(),
		Expires: &expires,
	}
	if err := db.recover(ctx); err != nil {
		return nil, fmt.Errorf("recovery: %w", err)
	}
'''),
'AH3': ('db.go','DB.AcquireHaltLock','''		if retErr != nil {
			guardSet.Unlock()
		}
''','''		_ = guardSet
'''),
'AH4': ('db.go','DB.AcquireHaltLock','''curr != nil && curr.haltLock.ID == lockID {''','''curr != nil && curr.haltLock.ID != lockID {'''),
'AH5': ('db.go','DB.AcquireHaltLock','''		ID:      lockID,
		Pos:     db.Pos(),
		Expires: &expires,''','''		ID:      lockID + 1,
		Pos:     db.Pos(),
		Expires: &expires,'''),
'AH6': ('db.go','DB.AcquireHaltLock','''	other := *haltLock
	return &other, nil
}

// This is a marker error''','''	guardSet.Unlock()
	other := *haltLock
	return &other, nil
}

// This is a marker error'''),
'S2': ('store.go','Store.EnforceHaltLockExpiration','''		db.EnforceHaltLockExpiration(ctx)
	}
}''','''		db.EnforceHaltLockExpiration(context.Background())
	}
}'''),
}
