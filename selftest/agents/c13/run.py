#!/usr/bin/env python3
# usage: run.py NAME  (mutations defined in muts.py)
import sys, subprocess, os, re
sys.path.insert(0, os.path.dirname(__file__))
from muts import MUTS
REPO='/var/tmp/ag_c13/repo_mut'; VERIF='/var/tmp/ag_c13/verif'
env=dict(os.environ, GOFLAGS='-mod=mod', GOPROXY='off', GOSUMDB='off', GOTOOLCHAIN='local')
names=sys.argv[1:]
for name in names:
    f, func, old, new = MUTS[name]
    subprocess.run(['cp','/var/tmp/ag_c13/repo/zz_contracts_halt_verif.go','/var/tmp/ag_c13/repo_mut/zz_contracts_halt_verif.go'])
    subprocess.run(['cp','/var/tmp/ag_c13/repo/db.go','/var/tmp/ag_c13/repo_mut/db.go'])
    subprocess.run(['cp','/var/tmp/ag_c13/repo/store.go','/var/tmp/ag_c13/repo_mut/store.go'])
    path=os.path.join(REPO,f)
    src=open(path).read()
    if src.count(old)!=1:
        print(name, 'PATTERN COUNT', src.count(old)); continue
    open(path,'w').write(src.replace(old,new))
    try:
        r=subprocess.run(['timeout','1500','bin/govc','-repo',REPO,'-verif',VERIF,'-prop','C13','-func',func,'-v'],cwd=VERIF,env=env,capture_output=True,text=True)
        out=r.stdout+r.stderr
        bad=[l for l in out.splitlines() if l.startswith(('failed','undecided','vacuous'))]
        summ=[l for l in out.splitlines() if l.startswith('SUMMARY') or 'contract error' in l or 'error' in l.lower() and not l.startswith(('discharged','failed','undecided','cover'))]
        print('==',name, func)
        names_=sorted(set(re.sub(r'#.*','',l.split()[3])+' ['+l.split()[0]+']' for l in bad))
        for n in names_[:12]: print('   ',n)
        if len(names_)>12: print('    ... %d more'%(len(names_)-12))
        for l in summ[:3]: print('   ',l[:300])
    finally:
        open(path,'w').write(src)
    sys.stdout.flush()
