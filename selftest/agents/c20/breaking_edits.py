#!/usr/bin/env python3
"""Apply small breaking edits to the litefs copy, run govc on the affected function, report newly failing obligations, revert."""
import subprocess, sys, os, re, json

REPO = '/var/tmp/ag_c20/repo'
VERIF = '/var/tmp/ag_c20/verif'
ENV = dict(os.environ, GOFLAGS='-mod=mod', GOPROXY='off', GOSUMDB='off', GOTOOLCHAIN='local')

def run(func, prop='C20'):
    p = subprocess.run(['timeout', '900', 'bin/govc', '-repo', REPO, '-verif', VERIF, '-prop', prop, '-func', func, '-v'],
                       cwd=VERIF, env=ENV, capture_output=True, text=True)
    bad = set()
    for l in (p.stdout + p.stderr).split('\n'):
        m = re.match(r'^(failed|undecided|cover-failed)\s+\S+\s+\S+\s+(\S+)', l)
        if m:
            bad.add(m.group(2))
        if 'contract error' in l or 'engine' in l and 'UNDECIDED function' in l:
            bad.add('!! ' + l.strip()[:200])
    return bad

base_cache = {}
def baseline(func):
    if func not in base_cache:
        base_cache[func] = run(func)
    return base_cache[func]

# (id, file, old, new, func filter)
M = []
def m(id, file, old, new, func):
    M.append((id, file, old, new, func))

S = 'http/server.go'
# Error
m('E1 Error: status 500 instead of code', S, 'http.Error(w, err.Error(), code)', 'http.Error(w, err.Error(), 500)', 'http.Error')
m('E2 Error: no response written', S, 'http.Error(w, err.Error(), code)', '_ = code', 'http.Error')
# serveHTTP
m('S1 serveHTTP: POST /halt routed to handleDeleteHalt', S, '''		case http.MethodPost:
			s.handlePostHalt(w, r)''', '''		case http.MethodPost:
			s.handleDeleteHalt(w, r)''', 'http.Server.serveHTTP')
m('S2 serveHTTP: fall through after /metrics', S, '''		s.promHandler.ServeHTTP(w, r)
		return''', '''		s.promHandler.ServeHTTP(w, r)''', 'http.Server.serveHTTP')
m('S3 serveHTTP: node id header not set', S, '''	w.Header().Set(HeaderNodeID, litefs.FormatNodeID(s.store.ID()))
''', '', 'http.Server.serveHTTP')
m('S4 serveHTTP: unknown path served by handleGetInfo', S, '''	default:
		http.NotFound(w, r)''', '''	default:
		s.handleGetInfo(w, r)''', 'http.Server.serveHTTP')
m('S5 serveHTTP: /tx accepts every method', S, '''		case http.MethodPost:
			s.handlePostTx(w, r)
		default:
			Error(w, r, fmt.Errorf("method not allowed"), http.StatusMethodNotAllowed)''', '''		default:
			s.handlePostTx(w, r)''', 'http.Server.serveHTTP')
# handleGetInfo
m('I1 GetInfo: no return after marshal error', S, '''		Error(w, r, err, http.StatusInternalServerError)
		return
	} else if _, err := w.Write(buf); err != nil {''', '''		Error(w, r, err, http.StatusInternalServerError)
	} else if _, err := w.Write(buf); err != nil {''', 'http.Server.handleGetInfo')
m('I2 GetInfo: primaryInfo dereferenced without nil check', S, '} else if primaryInfo != nil {', '} else {', 'http.Server.handleGetInfo')
m('I3 GetInfo: writes store state', S, '	info.Path = s.store.Path()', '	info.Path = s.store.Path()\n	s.store.Compress = true', 'http.Server.handleGetInfo')
# handlePostImport
IMP_ERR = '''	if err := r.Context().Err(); err != nil {
		Error(w, r, err, http.StatusServiceUnavailable)
		return
	}

	db, err := s.store.CreateDBIfNotExists(name)'''
m('M1 Import: primary-context check removed', S, IMP_ERR, '	db, err := s.store.CreateDBIfNotExists(name)', 'http.Server.handlePostImport')
m('M2 Import: request context not wrapped by PrimaryCtx', S, '''	r = r.WithContext(s.store.PrimaryCtx(r.Context()))
	if err := r.Context().Err(); err != nil {
		Error(w, r, err, http.StatusServiceUnavailable)
		return
	}

	db, err := s.store.CreateDBIfNotExists(name)''', '''	if err := r.Context().Err(); err != nil {
		Error(w, r, err, http.StatusServiceUnavailable)
		return
	}

	db, err := s.store.CreateDBIfNotExists(name)''', 'http.Server.handlePostImport')
m('M3 Import: empty name accepted', S, '''	name := r.URL.Query().Get("name")
	if name == "" {
		Error(w, r, fmt.Errorf("name required"), http.StatusBadRequest)
		return
	}

	// Wrap context so that it cancels when the primary lease is lost.
	r = r.WithContext''', '''	name := r.URL.Query().Get("name")

	// Wrap context so that it cancels when the primary lease is lost.
	r = r.WithContext''', 'http.Server.handlePostImport')
m('M4 Import: continues after create-database error', S, '''		Error(w, r, fmt.Errorf("create database: %w", err), http.StatusInternalServerError)
		return''', '''		Error(w, r, fmt.Errorf("create database: %w", err), http.StatusInternalServerError)''', 'http.Server.handlePostImport')
m('M5 Import: import error swallowed', S, '''	if err := db.Import(r.Context(), r.Body); err != nil {
		Error(w, r, err, http.StatusInternalServerError)
		return
	}''', '''	_ = db.Import(r.Context(), r.Body)''', 'http.Server.handlePostImport')
# handleGetExport
m('X1 Export: unknown database not rejected', S, '''	db := s.store.DB(name)
	if db == nil {
		Error(w, r, litefs.ErrDatabaseNotFound, http.StatusNotFound)
		return
	}

	pos, err := db.Export''', '''	db := s.store.DB(name)

	pos, err := db.Export''', 'http.Server.handleGetExport')
m('X2 Export: empty name accepted', S, '''	name := r.URL.Query().Get("name")
	if name == "" {
		Error(w, r, fmt.Errorf("name required"), http.StatusBadRequest)
		return
	}

	// Wrap context so that it cancels when the primary lease is lost.
	if err''', '''	name := r.URL.Query().Get("name")

	// Wrap context so that it cancels when the primary lease is lost.
	if err''', 'http.Server.handleGetExport')
m('X3 Export: snapshot written somewhere else', S, 'db.Export(r.Context(), w)', 'db.Export(r.Context(), io.Discard)', 'http.Server.handleGetExport')
m('X4 Export: export error not reported', S, '''		Error(w, r, fmt.Errorf("write snapshot: %w", err), http.StatusInternalServerError)
		return''', '''		return''', 'http.Server.handleGetExport')
# handlePostHalt
m('H1 PostHalt: invalid id not rejected (no return)', S, '''		Error(w, r, fmt.Errorf("invalid id: %q", q.Get("id")), http.StatusBadRequest)
		return
	}

	// Cannot issue remote halt lock from this node.
	if id, _ := litefs.ParseNodeID(r.Header.Get(HeaderNodeID)); id == s.store.ID() {
		Error(w, r, fmt.Errorf("cannot remotely halt self"), http.StatusBadRequest)
		return
	}

	// Ensure database exists''', '''		Error(w, r, fmt.Errorf("invalid id: %q", q.Get("id")), http.StatusBadRequest)
	}

	// Cannot issue remote halt lock from this node.
	if id, _ := litefs.ParseNodeID(r.Header.Get(HeaderNodeID)); id == s.store.ID() {
		Error(w, r, fmt.Errorf("cannot remotely halt self"), http.StatusBadRequest)
		return
	}

	// Ensure database exists''', 'http.Server.handlePostHalt')
m('H2 PostHalt: self check removed', S, '''	if id, _ := litefs.ParseNodeID(r.Header.Get(HeaderNodeID)); id == s.store.ID() {
		Error(w, r, fmt.Errorf("cannot remotely halt self"), http.StatusBadRequest)
		return
	}

	// Ensure database exists''', '''	// Ensure database exists''', 'http.Server.handlePostHalt')
m('H3 PostHalt: lock acquired under another id', S, 'db.AcquireHaltLock(r.Context(), lockID)', 'db.AcquireHaltLock(r.Context(), lockID+1)', 'http.Server.handlePostHalt')
m('H4 PostHalt: acquire error ignored', S, '''		Error(w, r, fmt.Errorf("acquire halt lock: %w", err), http.StatusInternalServerError)
		return''', '''		Error(w, r, fmt.Errorf("acquire halt lock: %w", err), http.StatusInternalServerError)''', 'http.Server.handlePostHalt')
# handleDeleteHalt
m('D1 DeleteHalt: invalid id not rejected', S, '''		Error(w, r, fmt.Errorf("invalid id: %q", q.Get("id")), http.StatusBadRequest)
		return
	}

	// Cannot issue remote halt lock from this node.
	if id, _ := litefs.ParseNodeID(r.Header.Get(HeaderNodeID)); id == s.store.ID() {
		Error(w, r, fmt.Errorf("cannot remotely unhalt self"), http.StatusBadRequest)''', '''		Error(w, r, fmt.Errorf("invalid id: %q", q.Get("id")), http.StatusBadRequest)
	}

	// Cannot issue remote halt lock from this node.
	if id, _ := litefs.ParseNodeID(r.Header.Get(HeaderNodeID)); id == s.store.ID() {
		Error(w, r, fmt.Errorf("cannot remotely unhalt self"), http.StatusBadRequest)''', 'http.Server.handleDeleteHalt')
m('D2 DeleteHalt: self check removed', S, '''	if id, _ := litefs.ParseNodeID(r.Header.Get(HeaderNodeID)); id == s.store.ID() {
		Error(w, r, fmt.Errorf("cannot remotely unhalt self"), http.StatusBadRequest)
		return
	}
''', '', 'http.Server.handleDeleteHalt')
m('D3 DeleteHalt: releases another lock id', S, 'db.ReleaseHaltLock(r.Context(), lockID)', 'db.ReleaseHaltLock(r.Context(), -lockID)', 'http.Server.handleDeleteHalt')
# handlePostHandoff
m('F1 Handoff: invalid node id not rejected', S, '''		Error(w, r, fmt.Errorf("invalid node id"), http.StatusBadRequest)
		return''', '''		Error(w, r, fmt.Errorf("invalid node id"), http.StatusBadRequest)''', 'http.Server.handlePostHandoff')
m('F2 Handoff: hands off to another node', S, 's.store.Handoff(r.Context(), nodeID)', 's.store.Handoff(r.Context(), nodeID^1)', 'http.Server.handlePostHandoff')
m('F3 Handoff: failure not reported', S, '''		Error(w, r, fmt.Errorf("cannot handoff: %w", err), http.StatusInternalServerError)
		return''', '''		return''', 'http.Server.handlePostHandoff')
# handlePostPromote
m('P1 Promote: candidate check removed', S, '''	if !s.store.Candidate() {
		Error(w, r, litefs.ErrNotEligible, http.StatusConflict)
		return
	}
''', '', 'http.Server.handlePostPromote')
m('P2 Promote: primary asks itself (no skip)', S, '''	if isPrimary {
		log.Printf("node is already primary, skipping promotion")
		w.WriteHeader(http.StatusOK)
		return
	}''', '''	_ = isPrimary''', 'http.Server.handlePostPromote')
m('P3 Promote: no-primary case not rejected', S, '''		Error(w, r, fmt.Errorf("no primary is currently available for handoff, cannot promote"), http.StatusInternalServerError)
		return''', '''		Error(w, r, fmt.Errorf("no primary is currently available for handoff, cannot promote"), http.StatusInternalServerError)''', 'http.Server.handlePostPromote')
m('P4 Promote: asks handoff for another node', S, 'client.Handoff(r.Context(), info.AdvertiseURL, s.store.ID())', 'client.Handoff(r.Context(), info.AdvertiseURL, 0)', 'http.Server.handlePostPromote')
# handlePostTx
m('T1 PostTx: unknown database not rejected', S, '''	db := s.store.DB(name)
	if db == nil {
		Error(w, r, fmt.Errorf("database not found: %q", name), http.StatusNotFound)
		return
	}

	// TODO(fwd): Ensure halt lock''', '''	db := s.store.DB(name)

	// TODO(fwd): Ensure halt lock''', 'http.Server.handlePostTx')
m('T2 PostTx: self check removed', S, '''	if id, _ := litefs.ParseNodeID(r.Header.Get(HeaderNodeID)); id == s.store.ID() {
		Error(w, r, fmt.Errorf("cannot remotely halt self"), http.StatusBadRequest)
		return
	}

	// Ensure database should''', '''	// Ensure database should''', 'http.Server.handlePostTx')
m('T3 PostTx: applies although the LTX file was not written', S, '''		Error(w, r, fmt.Errorf("write ltx file: %s", err), http.StatusInternalServerError)
		return''', '''		Error(w, r, fmt.Errorf("write ltx file: %s", err), http.StatusInternalServerError)''', 'http.Server.handlePostTx')
m('T4 PostTx: applies a different path', S, 'db.ApplyLTXNoLock(ltxPath, true)', 'db.ApplyLTXNoLock(ltxPath+".tmp", true)', 'http.Server.handlePostTx')
# handlePostStream
m('R1 Stream: HTTP/1.1 accepted', S, '''	if r.ProtoMajor < 2 {
		http.Error(w, "Upgrade to HTTP/2 required", http.StatusUpgradeRequired)
		return
	}
''', '', 'http.Server.handlePostStream')
m('R2 Stream: self connection accepted', S, '''	if id == s.store.ID() {
		Error(w, r, fmt.Errorf("cannot connect to self"), http.StatusBadRequest)
		return
	}
''', '', 'http.Server.handlePostStream')
m('R3 Stream: primary-context check removed', S, '''	if err := r.Context().Err(); err != nil {
		Error(w, r, err, http.StatusServiceUnavailable)
		return
	}

	log.Printf("%s: stream connected''', '''	log.Printf("%s: stream connected''', 'http.Server.handlePostStream')
m('R4 Stream: unreadable position map not rejected', S, '''	posMap, err := ReadPosMapFrom(r.Body)
	if err != nil {
		Error(w, r, err, http.StatusBadRequest)
		return
	}''', '''	posMap, err := ReadPosMapFrom(r.Body)
	if err != nil {
		Error(w, r, err, http.StatusBadRequest)
	}''', 'http.Server.handlePostStream')
m('R5 Stream: subscription never closed', S, '''	defer func() { _ = subscription.Close() }()
''', '', 'http.Server.handlePostStream')
m('R6 Stream: subscribes under another node id', S, 's.store.SubscribeChangeSet(id)', 's.store.SubscribeChangeSet(id + 1)', 'http.Server.handlePostStream')
m('R7 Stream: type assertion on a non-flusher (drops precondition use)', S, '''	w.WriteHeader(http.StatusOK)
	w.(http.Flusher).Flush()''', '''	w.WriteHeader(http.StatusOK)
	w.(http.Hijacker).Hijack()''', 'http.Server.handlePostStream')
# handleGetEvents
m('V1 Events: subscription not stopped', S, '''	defer func() { subscription.Stop() }()
''', '', 'http.Server.handleGetEvents')
m('V2 Events: streams without header', S, '''	w.Header().Set("Content-Type", "application/json")
	w.WriteHeader(http.StatusOK)
''', '''	w.Header().Set("Content-Type", "application/json")
''', 'http.Server.handleGetEvents')
m('V3 Events: stops another subscription', S, '''	defer func() { subscription.Stop() }()
''', '''	defer func() { s.store.SubscribeEvents().Stop() }()
''', 'http.Server.handleGetEvents')
# handleDebugRand
m('G1 DebugRand: writes server state', S, '''	rnd := rand.New(rand.NewSource(0))''', '''	rnd := rand.New(rand.NewSource(0))
	s.addr = "x"''', 'http.Server.handleDebugRand')
# Store.Handoff
m('O1 Store.Handoff: lease check removed', 'store.go', '''		if lease == nil {
			return fmt.Errorf("node is not currently primary")
		}
''', '', 'litefs.Store.Handoff')
m('O2 Store.Handoff: connectivity check removed', 'store.go', '''		if sub == nil {
			return fmt.Errorf("target node is not currently connected")
		}
''', '''		_ = sub
''', 'litefs.Store.Handoff')
m('O3 Store.Handoff: hands off to another node', 'store.go', 'return lease.Handoff(ctx, nodeID)', 'return lease.Handoff(ctx, nodeID+1)', 'litefs.Store.Handoff')
# CreateDBIfNotExists / Subscribe*
m('C1 CreateDBIfNotExists: success without a database', 'store.go', '''	storeDBCountMetric.Set(float64(len(s.dbs)))

	return db, nil''', '''	storeDBCountMetric.Set(float64(len(s.dbs)))

	return nil, nil''', 'litefs.Store.CreateDBIfNotExists')
m('C2 SubscribeChangeSet: returns nil', 'store.go', '''	storeSubscriberCountMetric.Set(float64(len(s.changeSetSubscribers)))
	return sub
}''', '''	storeSubscriberCountMetric.Set(float64(len(s.changeSetSubscribers)))
	return nil
}''', 'litefs.Store.SubscribeChangeSet')
# ReadPosMapFrom
m('B1 ReadPosMapFrom: nil map on success', 'http/http.go', '''	return m, nil
}

func WritePosMapTo''', '''	return nil, nil
}

func WritePosMapTo''', 'http.ReadPosMapFrom')
m('B2 ReadPosMapFrom: bounded allocation (checks the finding is what the alloc obligations say)', 'http/http.go', '''	m := make(map[string]ltx.Pos, n)''', '''	if n > 65536 {
		return nil, fmt.Errorf("too many entries")
	}
	m := make(map[string]ltx.Pos, n)''', 'http.ReadPosMapFrom')

# --- "fix" edits: the obvious repair makes the failing obligation pass (confirms what each finding obligation means)
m('K1 FIX DeleteHalt: test db instead of err, require primary and a parsable Litefs-Id', S, '''	if id, _ := litefs.ParseNodeID(r.Header.Get(HeaderNodeID)); id == s.store.ID() {
		Error(w, r, fmt.Errorf("cannot remotely unhalt self"), http.StatusBadRequest)
		return
	}

	// Database should have been created from original halt lock.
	db := s.store.DB(name)
	if err != nil {''', '''	if id, err := litefs.ParseNodeID(r.Header.Get(HeaderNodeID)); err != nil || id == s.store.ID() {
		Error(w, r, fmt.Errorf("cannot remotely unhalt self"), http.StatusBadRequest)
		return
	}
	if !s.store.IsPrimary() {
		Error(w, r, litefs.ErrNotEligible, http.StatusConflict)
		return
	}

	// Database should have been created from original halt lock.
	db := s.store.DB(name)
	if db == nil {''', 'http.Server.handleDeleteHalt')
m('K2 FIX PostHalt: require a name, the primary role and a parsable Litefs-Id', S, '''	if id, _ := litefs.ParseNodeID(r.Header.Get(HeaderNodeID)); id == s.store.ID() {
		Error(w, r, fmt.Errorf("cannot remotely halt self"), http.StatusBadRequest)
		return
	}

	// Ensure database exists before attempting a lock.''', '''	if id, err := litefs.ParseNodeID(r.Header.Get(HeaderNodeID)); err != nil || id == s.store.ID() {
		Error(w, r, fmt.Errorf("cannot remotely halt self"), http.StatusBadRequest)
		return
	}
	if name == "" {
		Error(w, r, fmt.Errorf("name required"), http.StatusBadRequest)
		return
	}
	if !s.store.IsPrimary() {
		Error(w, r, litefs.ErrNotEligible, http.StatusConflict)
		return
	}

	// Ensure database exists before attempting a lock.''', 'http.Server.handlePostHalt')
m('K3 FIX PostTx: require the primary role and a parsable Litefs-Id (halt-lock check still missing)', S, '''	if id, _ := litefs.ParseNodeID(r.Header.Get(HeaderNodeID)); id == s.store.ID() {
		Error(w, r, fmt.Errorf("cannot remotely halt self"), http.StatusBadRequest)
		return
	}

	// Ensure database should already exist from halt lock.''', '''	if id, err := litefs.ParseNodeID(r.Header.Get(HeaderNodeID)); err != nil || id == s.store.ID() {
		Error(w, r, fmt.Errorf("cannot remotely halt self"), http.StatusBadRequest)
		return
	}
	if !s.store.IsPrimary() {
		Error(w, r, litefs.ErrNotEligible, http.StatusConflict)
		return
	}

	// Ensure database should already exist from halt lock.''', 'http.Server.handlePostTx')
m('K4 FIX ReadPosMapFrom: bound entry count and name length', 'http/http.go', '''	m := make(map[string]ltx.Pos, n)
	for i := uint32(0); i < n; i++ {
		var nameN uint32
		if err := binary.Read(r, binary.BigEndian, &nameN); err != nil {
			return nil, err
		}''', '''	if n > 65536 {
		return nil, fmt.Errorf("too many entries")
	}
	m := make(map[string]ltx.Pos, n)
	for i := uint32(0); i < n; i++ {
		var nameN uint32
		if err := binary.Read(r, binary.BigEndian, &nameN); err != nil {
			return nil, err
		}
		if nameN > 65536 {
			return nil, fmt.Errorf("name too long")
		}''', 'http.ReadPosMapFrom')

def main():
    only = sys.argv[1:]
    results = []
    for (id, file, old, new, func) in M:
        if only and not any(id.startswith(o) for o in only):
            continue
        path = os.path.join(REPO, file)
        src = open(path).read()
        if src.count(old) != 1:
            print('%s: PATTERN occurs %d times, skipped' % (id, src.count(old)))
            continue
        base = baseline(func)
        open(path, 'w').write(src.replace(old, new))
        try:
            bad = run(func)
        finally:
            subprocess.run(['git', 'checkout', '--', file], cwd=REPO)
        new_bad = sorted(bad - base)
        gone = sorted(base - bad)
        print('%s\n    caught by: %s%s' % (id, ', '.join(new_bad) if new_bad else 'NOTHING', ('\n    no longer failing: ' + ', '.join(gone)) if gone else ''))
        sys.stdout.flush()
        results.append({'id': id, 'func': func, 'caught': new_bad, 'gone': gone})
    json.dump(results, open('/var/tmp/ag_c20/mutations.json', 'a'), indent=1)

main()
