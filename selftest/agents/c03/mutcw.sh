#!/bin/bash
cd /var/tmp/ag_c03
F=litefs.DB.CommitWAL
m() { echo "=== $1"; ./mut.sh $F "$2" C03 10; }
m M1-no-wal-sync 's/if err := walFile.Sync\(\); err != nil \{\n\t\treturn fmt.Errorf\("sync wal: %w", err\)\n\t\}/_ = walFile/'
m M2-txid 's/txID := prevPos.TXID \+ 1\n\n\t\/\/ Open file descriptors for the header & page blocks for new LTX file./txID := prevPos.TXID + 2\n\n\t\/\/ Open file descriptors for the header \& page blocks for new LTX file./'
m M3-prechecksum 's/PreApplyChecksum: prevPos.PostApplyChecksum,\n\t\tWALSalt1/PreApplyChecksum: 0,\n\t\tWALSalt1/'
m M4-walsize 's/WALSize:          endOffset - db.wal.offset,/WALSize:          endOffset,/'
m M5-offset-before-rename 's/(\t\/\/ Atomically rename the file\n\tif err := db.os.Rename\("COMMITWAL:LTX")/\tdb.wal.offset = endOffset\n$1/'
m M6-no-writeable-recheck 's/if !db.Writeable\(\) \{\n\t\treturn fmt.Errorf\("node lost write access during transaction, rolling back"\)\n\t\}/_ = 0/'
m M7-no-ltx-sync 's/\} else if err := ltxFile.Sync\(\); err != nil \{\n\t\treturn fmt.Errorf\("sync ltx file: %s", err\)\n\t\}\n\n\t\/\/ If remote lock held/}\n\n\t\/\/ If remote lock held/'
m M8-pos-checksum 's/PostApplyChecksum: enc.Trailer\(\).PostApplyChecksum,\n\t\}\n\tif err := db.setPos\(pos, enc.Header\(\).Timestamp\)/PostApplyChecksum: prevPos.PostApplyChecksum,\n\t}\n\tif err := db.setPos(pos, enc.Header().Timestamp)/'
m M9-pageN 's/db.pageN.Store\(commit\)\n\tdb.wal.offset = endOffset/db.pageN.Store(prevPageN)\n\tdb.wal.offset = endOffset/'
m M10-notx-fatal 's/if err == errNoTransaction \{\n\t\tmsg = "no transaction"\n\t\treturn nil\n\t\} else if err != nil \{\n\t\treturn fmt.Errorf\("build tx frame offsets/if err != nil {\n\t\treturn fmt.Errorf("build tx frame offsets/'
m M11-skip-remote-commit 's/haltLock := db.RemoteHaltLock\(\)\n\tif haltLock != nil \{/haltLock := db.RemoteHaltLock()\n\tif haltLock != nil \&\& false {/'
m M12-checksum-size 's/postApplyChecksum, err := db.checksum\(commit, newWALChksums\)/postApplyChecksum, err := db.checksum(prevPageN, newWALChksums)/'
m M13-chksum-swap 's/db.wal.chksum1 = chksum1\n\tdb.wal.chksum2 = chksum2/db.wal.chksum1 = chksum2\n\tdb.wal.chksum2 = chksum1/'
m M14-rename-before-close 's/\tif err := ltxFile.Close\(\); err != nil \{\n\t\treturn fmt.Errorf\("close ltx file: %s", err\)\n\t\}\n\n\t\/\/ Ensure node is still writable before final commit step.\n\tif !db.Writeable\(\) \{\n\t\treturn fmt.Errorf\("node lost write access during transaction, rolling back"\)\n\t\}\n\n\t\/\/ Atomically rename the file\n\tif err := db.os.Rename\("COMMITWAL:LTX", tmpPath, ltxPath\); err != nil \{\n\t\treturn fmt.Errorf\("rename ltx file: %w", err\)\n\t\} else if err := internal.Sync\(filepath.Dir\(ltxPath\)\); err != nil \{\n\t\treturn fmt.Errorf\("sync ltx dir: %w", err\)\n\t\}/\tif err := db.os.Rename("COMMITWAL:LTX", tmpPath, ltxPath); err != nil {\n\t\treturn fmt.Errorf("rename ltx file: %w", err)\n\t}\n\tif !db.Writeable() {\n\t\treturn fmt.Errorf("node lost write access during transaction, rolling back")\n\t}\n\tif err := internal.Sync(filepath.Dir(ltxPath)); err != nil {\n\t\treturn fmt.Errorf("sync ltx dir: %w", err)\n\t}/'
m M15-skip-dir-sync 's/\} else if err := internal.Sync\(filepath.Dir\(ltxPath\)\); err != nil \{\n\t\treturn fmt.Errorf\("sync ltx dir: %w", err\)\n\t\}\n\n\t\/\/ Copy page offsets on commit./}\n\n\t\/\/ Copy page offsets on commit./'
