#!/bin/bash
# usage: mut.sh <func-substring> <perl -0pi expression> [prop] [maxlines] [smtdir]
export GOFLAGS=-mod=mod GOPROXY=off GOSUMDB=off GOTOOLCHAIN=local
cd /var/tmp/ag_c03/repo || exit 1
git checkout -q db.go litefs.go
perl -0pi -e "$2" db.go
if git diff --quiet db.go; then echo "MUTATION DID NOT APPLY"; exit 1; fi
git diff -U0 db.go | grep '^[-+]' | grep -v '^+++\|^---'
cd /var/tmp/ag_c03/verif
SMT=""
if [ -n "$5" ]; then mkdir -p "$5"; SMT="-smtdir $5"; fi
timeout 900 bin/govc -repo /var/tmp/ag_c03/repo -verif /var/tmp/ag_c03/verif -prop ${3:-C03} -func "$1" -v $SMT 2>&1 | grep -v "^discharged\|^cover-ok" | grep -v "^UNDECIDED obligation" | head -${4:-12}
cd /var/tmp/ag_c03/repo && git checkout -q db.go
