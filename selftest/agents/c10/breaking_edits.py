import sys, os, shutil, subprocess
# usage: run.py NAME  (reads edits table below)
EDITS = {
 'E1_sample_before_write': [('''	if db.Mode() == DBModeWAL {
		if err := gs.write.Lock(ctx); err != nil {
			return header, trailer, fmt.Errorf("acquire temporary exclusive WAL_WRITE_LOCK: %w", err)
		}
	}

	// Determine current position & snapshot overriding WAL frames.
	pos := db.Pos()
''','''	pos := db.Pos()
	if db.Mode() == DBModeWAL {
		if err := gs.write.Lock(ctx); err != nil {
			return header, trailer, fmt.Errorf("acquire temporary exclusive WAL_WRITE_LOCK: %w", err)
		}
	}

	// Determine current position & snapshot overriding WAL frames.
''')],
 'E2_release_shared_early': [('''	// Release write lock, if acquired.
	gs.write.Unlock()

	// Acquire the CKPT/RECOVER locks while we check reads.''','''	// Release write lock, if acquired.
	gs.write.Unlock()
	gs.shared.Unlock()

	// Acquire the CKPT/RECOVER locks while we check reads.''')],
 'E3_skip_read2': [('''	if err := gs.read2.RLock(ctx); err != nil {
		return header, trailer, fmt.Errorf("acquire READ2 read lock: %w", err)
	}
	if err := gs.read3.RLock(ctx); err != nil {
		return header, trailer, fmt.Errorf("acquire READ3 read lock: %w", err)
	}
	if err := gs.read4.RLock(ctx); err != nil {
		return header, trailer, fmt.Errorf("acquire READ4 read lock: %w", err)
	}

	// Release CKPT & RECOVER''','''	if err := gs.read3.RLock(ctx); err != nil {
		return header, trailer, fmt.Errorf("acquire READ3 read lock: %w", err)
	}
	if err := gs.read4.RLock(ctx); err != nil {
		return header, trailer, fmt.Errorf("acquire READ4 read lock: %w", err)
	}

	// Release CKPT & RECOVER''')],
 'E4_maxtxid_reread': [('''		MaxTXID:   pos.TXID,
		Timestamp: db.Now().UnixMilli(),
		NodeID:    db.store.ID(),
	}); err != nil {
		return header, trailer, fmt.Errorf("encode ltx header: %w", err)''','''		MaxTXID:   db.Pos().TXID,
		Timestamp: db.Now().UnixMilli(),
		NodeID:    db.store.ID(),
	}); err != nil {
		return header, trailer, fmt.Errorf("encode ltx header: %w", err)''')],
 'E5_commit_reread': [('''		Commit:    pageN,
		MinTXID:   1,
		MaxTXID:   pos.TXID,''','''		Commit:    db.PageN(),
		MinTXID:   1,
		MaxTXID:   pos.TXID,''')],
 'E6_no_lockpage_skip': [('''		// Skip the lock page.
		if pgno == lockPgno {
			continue
		}

		// Read from WAL if page exists in offset map. Otherwise read from DB.
		if walFrameOffset, ok := walFrameOffsets[pgno]; ok {
			if _, err := walFile.Seek(walFrameOffset+WALFrameHeaderSize, io.SeekStart); err != nil {
				return header, trailer, fmt.Errorf("seek wal page: %w", err)''','''		_ = lockPgno
		// Read from WAL if page exists in offset map. Otherwise read from DB.
		if walFrameOffset, ok := walFrameOffsets[pgno]; ok {
			if _, err := walFile.Seek(walFrameOffset+WALFrameHeaderSize, io.SeekStart); err != nil {
				return header, trailer, fmt.Errorf("seek wal page: %w", err)''')],
 'E7_wal_no_24': [('''			if _, err := walFile.Seek(walFrameOffset+WALFrameHeaderSize, io.SeekStart); err != nil {
				return header, trailer, fmt.Errorf("seek wal page: %w", err)''','''			if _, err := walFile.Seek(walFrameOffset, io.SeekStart); err != nil {
				return header, trailer, fmt.Errorf("seek wal page: %w", err)''')],
 'E8_no_checksum_check': [('''	if postApplyChecksum != pos.PostApplyChecksum {
		return header, trailer, fmt.Errorf("snapshot checksum mismatch at tx %s: %x <> %x", pos.TXID.String(), postApplyChecksum, pos.PostApplyChecksum)
	}
	enc.SetPostApplyChecksum(postApplyChecksum)''','''	enc.SetPostApplyChecksum(postApplyChecksum)''')],
 'E9_chksum_wrong_pgno': [('''		chksum ^= ltx.ChecksumPage(pgno, pageData)
	}

	// Set the database checksum before we write the trailer.''','''		chksum ^= ltx.ChecksumPage(pgno+1, pageData)
	}

	// Set the database checksum before we write the trailer.''')],
 'E10_no_defer_unlock': [('''	gs := db.newGuardSet(0) // TODO(fsm): Track internal owners?
	defer gs.Unlock()

	// Acquire PENDING then SHARED. Release PENDING immediately afterward.
	if err := gs.pending.RLock(ctx); err != nil {
		return header, trailer, fmt.Errorf(''','''	gs := db.newGuardSet(0) // TODO(fsm): Track internal owners?

	// Acquire PENDING then SHARED. Release PENDING immediately afterward.
	if err := gs.pending.RLock(ctx); err != nil {
		return header, trailer, fmt.Errorf(''')],
 'E11_unlock_write_before_copy': [('''	pageSize, pageN := db.pageSize, db.PageN()
	walFrameOffsets := make(map[uint32]int64, len(db.wal.frameOffsets))
	for k, v := range db.wal.frameOffsets {
		walFrameOffsets[k] = v
	}

	// Release write lock, if acquired.
	gs.write.Unlock()

	// Acquire the CKPT/RECOVER locks while we check reads.''','''	pageSize, pageN := db.pageSize, db.PageN()
	gs.write.Unlock()
	walFrameOffsets := make(map[uint32]int64, len(db.wal.frameOffsets))
	for k, v := range db.wal.frameOffsets {
		walFrameOffsets[k] = v
	}

	// Acquire the CKPT/RECOVER locks while we check reads.''')],
 'E12_off_by_one': [('''	var chksum ltx.Checksum
	for pgno := uint32(1); pgno <= pageN; pgno++ {
		select {''','''	var chksum ltx.Checksum
	for pgno := uint32(1); pgno < pageN; pgno++ {
		select {''')],
 'E13_db_offset': [('''			if _, err := dbFile.Seek(int64(pgno-1)*int64(pageSize), io.SeekStart); err != nil {
				return header, trailer, fmt.Errorf("seek database page: %w", err)''','''			if _, err := dbFile.Seek(int64(pgno)*int64(pageSize), io.SeekStart); err != nil {
				return header, trailer, fmt.Errorf("seek database page: %w", err)''')],
 'E14_ignore_close_err': [('''	if err := enc.Close(); err != nil {
		return header, trailer, fmt.Errorf("close ltx encoder: %w", err)
	}

	return enc.Header(), enc.Trailer(), nil
}

// EnforceRetention''','''	_ = enc.Close()

	return enc.Header(), enc.Trailer(), nil
}

// EnforceRetention''')],
 'E15_copy_shift_offsets': [('''	for k, v := range db.wal.frameOffsets {
		walFrameOffsets[k] = v
	}

	// Release write lock, if acquired.
	gs.write.Unlock()

	// Acquire the CKPT/RECOVER locks while we check reads.''','''	for k, v := range db.wal.frameOffsets {
		walFrameOffsets[k+1] = v
	}

	// Release write lock, if acquired.
	gs.write.Unlock()

	// Acquire the CKPT/RECOVER locks while we check reads.''')],
 'E16_open_db_before_readlocks': [('''	// Acquire READ locks to prevent checkpointing, in case this is in WAL mode.
	if err := gs.read0.RLock(ctx); err != nil {''','''	if f0, err0 := db.os.Open("WRITESNAPSHOT:DB", db.DatabasePath()); err0 == nil {
		_, _ = io.ReadFull(f0, make([]byte, 100))
		_ = f0.Close()
	}
	// Acquire READ locks to prevent checkpointing, in case this is in WAL mode.
	if err := gs.read0.RLock(ctx); err != nil {''')],
 'E17_pagesize_const': [('''		PageSize:  pageSize,
		Commit:    pageN,''','''		PageSize:  4096,
		Commit:    pageN,''')],
 'E18_error_as_success': [('''	if err := enc.EncodeHeader(ltx.Header{''','''	if ctx.Err() != nil {
		return ltx.Header{Version: 1, MinTXID: 1, MaxTXID: pos.TXID, Commit: pageN, PageSize: pageSize}, trailer, nil
	}
	if err := enc.EncodeHeader(ltx.Header{''')],
}
name = sys.argv[1]
src = '/var/tmp/ag_c10/repo'
dst = '/var/tmp/ag_c10/mut/' + name
if os.path.exists(dst): shutil.rmtree(dst)
shutil.copytree(src, dst, ignore=shutil.ignore_patterns('.git'))
p = dst + '/db.go'
s = open(p).read()
i = s.index('func (db *DB) WriteSnapshotTo(')
head, body = s[:i], s[i:]
for a, b in EDITS[name]:
    assert body.count(a) == 1, (name, body.count(a))
    body = body.replace(a, b)
open(p, 'w').write(head + body)
env = dict(os.environ, GOFLAGS='-mod=mod', GOPROXY='off', GOSUMDB='off', GOTOOLCHAIN='local')
r = subprocess.run(['timeout', '900', '/var/tmp/ag_c10/verif/bin/govc', '-repo', dst, '-verif', '/var/tmp/ag_c10/verif', '-prop', 'C10', '-func', 'DB.WriteSnapshotTo', '-v'], cwd='/var/tmp/ag_c10/verif', env=env, capture_output=True, text=True)
out = r.stdout + r.stderr
open(dst + '.out', 'w').write(out)
bad = [l for l in out.splitlines() if not (l.startswith('discharged') or l.startswith('cover-'))]
print('=====', name)
print('\n'.join(l[:260] for l in bad[:25]))
shutil.rmtree(dst)
