import subprocess, sys, os, re, json
REPO='/var/tmp/ag_c19/repo'; SRC=REPO+'/http/proxy_server.go'; VER='/var/tmp/ag_c19/verif'
env=dict(os.environ, GOFLAGS='-mod=mod', GOPROXY='off', GOSUMDB='off', GOTOOLCHAIN='local')
muts=json.load(open('/var/tmp/ag_c19/mut/muts.json'))
only=sys.argv[1:]
orig=open(SRC).read()
out=[]
for m in muts:
    if only and m['id'] not in only: continue
    s=orig
    for old,new in m['edits']:
        if s.count(old)!=1:
            print(m['id'],'EDIT NOT UNIQUE',s.count(old),repr(old)); break
        s=s.replace(old,new)
    else:
        open(SRC,'w').write(s)
        try:
            res=[]
            for f in m['funcs']:
                r=subprocess.run(['timeout','600',VER+'/bin/govc','-repo',REPO,'-verif',VER,'-prop','C19','-func',f,'-v'],cwd=VER,env=env,capture_output=True,text=True)
                txt=r.stdout+r.stderr
                bad=[l for l in txt.splitlines() if re.match(r'^(failed|undecided|cover-failed|cover-unknown|vacuous)',l) or 'contract-stale' in l or 'package errors' in l or 'Fatal' in l or 'panic' in l.lower() and 'engine' in l.lower()]
                summ=[l for l in txt.splitlines() if l.startswith('SUMMARY')]
                res.append((f,bad,summ))
        finally:
            open(SRC,'w').write(orig)
        print('==',m['id'],m['desc'])
        for f,bad,summ in res:
            names=[re.sub(r'\s+\[.*$','',re.sub(r'^\S+\s+\S+\s+\S+\s+','',b)) for b in bad]
            print('   ',f,':',len(bad),'failing:',', '.join(names[:8]) if names else 'NONE (SURVIVED)', '|', summ[0][-60:] if summ else 'no summary')
subprocess.run(['git','checkout','http/proxy_server.go'],cwd=REPO)
