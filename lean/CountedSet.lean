/-
  The finite-set cardinality facts that govc asserts as SMT axioms for ghost sets of references
  (internal/vc/eval.go, fsetTheory).  In the SMT encoding a set is an array Ref → Bool, `ins`/`del`
  are `store … true/false`, `mem` is `select`, and `card` is an uninterpreted function; the axioms
  below are exactly the properties of `Finset.card` used.  (The additional SMT bound card < 2^62 is an
  explicit modelling assumption, A-CARD: fewer than 2^62 guard objects exist.)
-/
import Mathlib.Data.Finset.Card

open Finset

variable {α : Type*} [DecidableEq α]

theorem gv_card_empty : (∅ : Finset α).card = 0 := card_empty

theorem gv_card_ins (s : Finset α) (x : α) :
    (insert x s).card = if x ∈ s then s.card else s.card + 1 := by
  by_cases h : x ∈ s
  · simp [h]
  · simp [h, card_insert_of_notMem]

theorem gv_card_del (s : Finset α) (x : α) :
    (s.erase x).card = if x ∈ s then s.card - 1 else s.card := by
  by_cases h : x ∈ s
  · simp [h, card_erase_of_mem]
  · simp [h, erase_eq_of_notMem]

theorem gv_mem_card_pos (s : Finset α) (x : α) (h : x ∈ s) : 1 ≤ s.card :=
  card_pos.mpr ⟨x, h⟩

theorem gv_two_mem_card (s : Finset α) (x y : α) (hx : x ∈ s) (hy : y ∈ s) (hne : x ≠ y) :
    2 ≤ s.card := by
  have : ({x, y} : Finset α) ⊆ s := by
    intro z hz
    simp at hz
    rcases hz with rfl | rfl <;> assumption
  calc 2 = ({x, y} : Finset α).card := by simp [card_pair hne]
    _ ≤ s.card := card_le_card this

theorem gv_card_pos_any (s : Finset α) (h : 1 ≤ s.card) : ∃ y, y ∈ s :=
  card_pos.mp h

theorem gv_card_two_other (s : Finset α) (x : α) (h : 2 ≤ s.card) (hx : x ∈ s) :
    ∃ y, y ∈ s ∧ y ≠ x := by
  by_contra hc
  push_neg at hc
  have : s ⊆ {x} := by
    intro z hz
    simp [hc z hz]
  have := card_le_card this
  simp at this
  omega
