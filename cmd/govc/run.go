package main

import (
	"encoding/json"
	"fmt"
	"os"
	"os/exec"
	"path/filepath"
	"sort"
	"strings"
	"time"

	"verif/internal/vc"
)

type RunOpts struct {
	Repo, Verif, Prop, FuncFilter, Tier, KeepDir string
	Verbose                                      bool
	Seed                                         int64
	WriteBaseline                                bool
	Quiet                                        bool
	Overlay                                      map[string][]byte
	NoEvidence                                   bool
	NoReplay                                     bool
}

type Baseline struct {
	Functions map[string]*BaselineFunc `json:"functions"`
}

type BaselineFunc struct {
	Clean       bool     `json:"clean"`
	Obligations []string `json:"obligations"`
	Unstable    []string `json:"not_claimed_unstable,omitempty"`
}

type KnownFinding struct {
	Property   string `json:"property"`
	Obligation string `json:"obligation"` // obligation name (prefix match up to '#')
	What       string `json:"what"`
	Status     string `json:"status"` // open | fixed
	Commit     string `json:"commit,omitempty"`
	Finding    string `json:"finding,omitempty"`
}

type KnownFindings struct {
	Findings []KnownFinding `json:"findings"`
	Fixed    []string       `json:"fixed"`
}

func loadJSON(path string, v interface{}) error {
	data, err := os.ReadFile(path)
	if err != nil {
		return err
	}
	return json.Unmarshal(data, v)
}

func hasTag(tags []string, p string) bool {
	for _, t := range tags {
		if t == p {
			return true
		}
	}
	return false
}

// funcServes reports whether any clause of the contract carries the property tag.
func funcServes(fc *vc.FuncContract, prop string) bool {
	if prop == "" {
		return true
	}
	if hasTag(fc.Tags, prop) {
		return true
	}
	for _, c := range fc.Clauses {
		if hasTag(c.Tags, prop) {
			return true
		}
	}
	return false
}

func baseName(obl string) string {
	if k := strings.LastIndex(obl, "#"); k >= 0 {
		rest := obl[k+1:]
		allDigits := rest != ""
		for _, r := range rest {
			if r < '0' || r > '9' {
				allDigits = false
			}
		}
		if allDigits {
			return obl[:k]
		}
	}
	return obl
}

type Outcome struct {
	Violations     int
	Lines          []string
	Evidence       map[string]interface{}
	Results        []*vc.Result
	VCs            []*vc.VC
	FailedNames    []string
	UndecidedNames []string
}

func Run(opts RunOpts, t0 time.Time) int {
	out, err := RunCheck(opts, t0)
	if err != nil {
		fmt.Fprintln(os.Stderr, "govc:", err)
		// an engine/load failure is not a property violation
		fmt.Printf("UNDECIDED property=%s reason=engine-error: %v\n", opts.Prop, err)
		writeFallbackEvidence(opts, t0, err)
		return 0
	}
	for _, l := range out.Lines {
		fmt.Println(l)
	}
	if out.Violations > 0 {
		return 1
	}
	return 0
}

func writeFallbackEvidence(opts RunOpts, t0 time.Time, err error) {
	if opts.Prop == "" || opts.NoEvidence {
		return
	}
	ev := map[string]interface{}{
		"property_id": opts.Prop, "tier": opts.Tier, "seed": opts.Seed, "level": "other",
		"coverage": map[string]interface{}{"explanation": "the engine could not process the tree: " + err.Error()},
		"wall_s":   time.Since(t0).Seconds(), "violations": 0,
	}
	data, _ := json.MarshalIndent(ev, "", " ")
	_ = os.MkdirAll(filepath.Join(opts.Verif, "evidence"), 0o755)
	_ = os.WriteFile(filepath.Join(opts.Verif, "evidence", opts.Prop+".json"), data, 0o644)
}

func RunCheck(opts RunOpts, t0 time.Time) (*Outcome, error) {
	e, err := vc.Load(opts.Repo, []string{"./..."}, opts.Overlay)
	if err != nil {
		return nil, err
	}
	if err := e.LoadContracts(opts.Verif); err != nil {
		return nil, err
	}
	var baseline Baseline
	_ = loadJSON(filepath.Join(opts.Verif, "baseline", "obligations.json"), &baseline)
	if baseline.Functions == nil {
		baseline.Functions = map[string]*BaselineFunc{}
	}
	var known KnownFindings
	_ = loadJSON(filepath.Join(opts.Verif, "known-findings.json"), &known)

	// select functions
	var keys []string
	for k, fc := range e.Contracts {
		if fc.Assumed {
			continue
		}
		if !funcServes(fc, opts.Prop) {
			continue
		}
		if opts.FuncFilter != "" && !strings.Contains(k, opts.FuncFilter) {
			continue
		}
		keys = append(keys, k)
	}
	sort.Strings(keys)
	// thorough tier: the contracts of the callees are part of the property's proof. They are verified under their own
	// properties' checks; here the whole callee closure is verified as well (all its tagged, non-deferred obligations),
	// so that a change which breaks a callee's contract is reported by THIS property's thorough check too.
	depSet := map[string]bool{}
	if opts.Tier == "thorough" && opts.Prop != "" && opts.FuncFilter == "" && !opts.WriteBaseline {
		for _, k := range calleeClosure(e, keys) {
			depSet[k] = true
			keys = append(keys, k)
		}
	}
	out := &Outcome{}
	var vcs []*vc.VC
	var missing []string
	for _, k := range keys {
		fn := e.Func(k)
		if fn == nil || fn.Blocks == nil {
			missing = append(missing, k)
			continue
		}
		v := e.VerifyFunction(fn, e.Contracts[k])
		vcs = append(vcs, v)
	}
	for _, ld := range e.Lemmas {
		if ld.Trusted != "" {
			continue
		}
		if opts.Prop != "" && !hasTag(ld.Tags, opts.Prop) {
			continue
		}
		if opts.FuncFilter != "" && !strings.Contains("lemma."+ld.Name, opts.FuncFilter) {
			continue
		}
		vcs = append(vcs, e.VerifyLemma(ld))
	}
	out.VCs = vcs
	dir := opts.KeepDir
	cleanup := false
	if dir == "" {
		dir, err = os.MkdirTemp("/var/tmp", "govc.")
		if err != nil {
			return nil, err
		}
		cleanup = true
	}
	so := vc.SolveOpts{Dir: dir, Timeout1: 4, Timeout2: 10, Workers: 12, Verbose: opts.Verbose}
	if opts.Tier == "thorough" {
		so.Timeout1, so.Timeout2, so.CrossCheck = 10, 30, true
	}
	var deferred []string
	filter := func(o *vc.Obligation) bool {
		if !(opts.Prop == "" || hasTag(o.Tags, opts.Prop)) {
			if !(depSet[o.Func] && len(o.Tags) > 0 && !o.ThoroughOnly) {
				return false
			}
		}
		if o.ThoroughOnly && opts.Tier != "thorough" {
			deferred = append(deferred, o.Name)
			return false
		}
		return true
	}
	results := vc.Solve(vcs, so, filter)
	// Stability: an obligation that was discharged on the unchanged tree and now comes back without an answer
	// (unknown / timeout, e.g. under machine load) is retried alone with three times the budget before it is reported.
	if !opts.WriteBaseline {
		var retry []int
		for i, r := range results {
			if r == nil || r.Status != "undecided" {
				continue
			}
			if matchKnown(known.Findings, "", r.Obl.Name) >= 0 {
				continue // a recorded open finding: it is expected not to discharge, no point in retrying it
			}
			bf := baseline.Functions[r.Obl.Func]
			if bf != nil && (bf.Clean || containsBase(bf.Obligations, r.Obl.Name)) {
				retry = append(retry, i)
			}
		}
		// two passes: 3x budget with four at a time, then (what is still without an answer) 6x budget with two at a
		// time. A real violation usually fails many obligations: the cap keeps a badly broken tree from taking hours.
		for pass, cfg := range []struct{ mult, par, max int }{{3, 4, 400}, {6, 2, 60}} {
			if pass > 0 {
				var again []int
				for _, i := range retry {
					if results[i].Status == "undecided" {
						again = append(again, i)
					}
				}
				retry = again
			}
			if len(retry) == 0 || len(retry) > cfg.max {
				break
			}
			so2 := so
			so2.Timeout1, so2.Timeout2, so2.Workers = so.Timeout1*cfg.mult, so.Timeout2*cfg.mult, cfg.par
			so2.Dir = filepath.Join(dir, fmt.Sprintf("retry%d", pass))
			sem := make(chan struct{}, cfg.par)
			done := make(chan struct{})
			for _, i := range retry {
				i := i
				go func() {
					sem <- struct{}{}
					r2 := vc.SolveOneExported(results[i].VC, results[i].Obl, 900000+pass*100000+i, so2)
					r2.TimeS += results[i].TimeS
					results[i] = r2
					<-sem
					done <- struct{}{}
				}()
			}
			for range retry {
				<-done
			}
		}
	}
	out.Results = results

	// verdicts
	prop := opts.Prop
	if prop == "" {
		prop = "ALL"
	}
	nObl, nDis := 0, 0
	byBackend := map[string]int{}
	solverTime := 0.0
	var samples []map[string]interface{}
	var undecided, knownLines, unstable []string
	var covers []string
	var unreachableExits []string
	usedKnown := map[int]bool{}
	replayDir := filepath.Join(opts.Verif, "replays")
	for _, r := range results {
		o := r.Obl
		solverTime += r.TimeS
		switch r.Status {
		case "cover-ok":
			covers = append(covers, o.Name+": reachable")
			continue
		case "cover-failed":
			if o.ExitCover {
				covers = append(covers, o.Name+": UNREACHABLE return at "+o.Pos.String()+" (dead code under the contracts, or facts contradictory on that path)")
				unreachableExits = append(unreachableExits, o.Name+" at "+o.Pos.String())
				continue
			}
			out.Lines = append(out.Lines, fmt.Sprintf("UNDECIDED obligation=%s reason=vacuous (cover is unsatisfiable)", o.Name))
			undecided = append(undecided, o.Name+": vacuous")
			continue
		case "cover-unknown":
			covers = append(covers, o.Name+": unknown")
			continue
		case "discharged":
			nObl++
			nDis++
			byBackend[r.Solver]++
			if len(samples) < 12 {
				samples = append(samples, map[string]interface{}{"obligation": o.Name, "kind": o.Kind, "solver": r.Solver, "time_s": round3(r.TimeS), "at": o.Pos.String(), "clause": o.Detail})
			}
			continue
		}
		// failed or undecided
		kprop := prop
		if depSet[o.Func] {
			kprop = "" // an obligation of a callee verified here for completeness: known under whatever property lists it
		}
		if ki := matchKnown(known.Findings, kprop, o.Name); ki >= 0 {
			usedKnown[ki] = true
			knownLines = append(knownLines, fmt.Sprintf("KNOWN-FINDING: property=%s %s [%s: %s]", prop, known.Findings[ki].What, o.Name, r.Raw))
			continue
		}
		bf := baseline.Functions[o.Func]
		inBaseline := bf != nil && (bf.Clean || containsBase(bf.Obligations, o.Name))
		if bf != nil && containsBase(bf.Unstable, o.Name) {
			inBaseline = false
		}
		if inBaseline || opts.WriteBaseline {
			if opts.WriteBaseline {
				unstable = append(unstable, o.Name)
				out.Lines = append(out.Lines, fmt.Sprintf("UNDECIDED obligation=%s reason=%s (not claimed)", o.Name, r.Raw))
				undecided = append(undecided, o.Name+": "+r.Raw)
				continue
			}
			out.FailedNames = append(out.FailedNames, o.Name)
			if opts.NoReplay {
				out.Violations++
				continue
			}
			path, reproduced := writeReplay(opts, replayDir, prop, r, e)
			suffix := ""
			if !reproduced {
				suffix = " no-failing-input-found"
			}
			out.Lines = append(out.Lines, fmt.Sprintf("VIOLATION property=%s replay=%s%s", prop, path, suffix))
			out.Lines = append(out.Lines, fmt.Sprintf("  obligation %s (%s) at %s: %s — %s", o.Name, o.Kind, o.Pos, r.Raw, o.Detail))
			out.Violations++
			continue
		}
		out.Lines = append(out.Lines, fmt.Sprintf("UNDECIDED obligation=%s reason=%s (not in the baseline of discharged obligations)", o.Name, r.Raw))
		undecided = append(undecided, o.Name+": "+r.Raw)
		out.UndecidedNames = append(out.UndecidedNames, o.Name)
	}
	sort.Strings(knownLines)
	out.Lines = append(out.Lines, dedup(knownLines)...)

	// engine-level problems
	var dropped, imprecise, assumed, unmodelled, inlined, havocked, contractErrs []string
	fuc := []string{}
	for _, v := range vcs {
		fuc = append(fuc, v.RootKey)
		if v.Fatal != "" {
			out.Lines = append(out.Lines, fmt.Sprintf("UNDECIDED function=%s reason=engine: %s", v.RootKey, v.Fatal))
			undecided = append(undecided, v.RootKey+": "+v.Fatal)
			// a function that was clean and can no longer be processed loses its proof: report, but it is not a violation
		}
		for _, c := range v.ContractErrors {
			contractErrs = append(contractErrs, v.RootKey+": "+c)
			out.Lines = append(out.Lines, fmt.Sprintf("UNDECIDED function=%s reason=contract-stale: %s", v.RootKey, c))
		}
		dropped = append(dropped, prefixAll(v.RootKey, v.Dropped)...)
		imprecise = append(imprecise, prefixAll(v.RootKey, v.Imprecise)...)
		assumed = appendKeys(assumed, v.UsedAssumed)
		assumed = appendKeys(assumed, v.UsedLemmas)
		unmodelled = appendKeys(unmodelled, v.Unmodelled)
		inlined = appendKeys(inlined, v.Inlined)
		havocked = appendKeys(havocked, v.Havocked)
	}
	for _, m := range missing {
		out.Lines = append(out.Lines, fmt.Sprintf("UNDECIDED function=%s reason=contract-stale: function not found in the tree", m))
		undecided = append(undecided, m+": function not found")
	}
	// vacuity: the obligation count must not drop below the baseline for functions that still exist
	if !opts.WriteBaseline && opts.Prop != "" && opts.FuncFilter == "" {
		if nObl == 0 && len(knownLines) == 0 {
			out.Lines = append(out.Lines, fmt.Sprintf("UNDECIDED property=%s reason=vacuous: no obligations were generated", prop))
		}
	}

	if opts.WriteBaseline {
		for _, v := range vcs {
			bf := &BaselineFunc{Clean: true}
			for _, r := range results {
				if r.VC != v || r.Obl.Cover {
					continue
				}
				if r.Status == "discharged" {
					bf.Obligations = append(bf.Obligations, r.Obl.Name)
				} else {
					bf.Clean = false
					if matchKnown(known.Findings, "", r.Obl.Name) < 0 {
						bf.Unstable = append(bf.Unstable, r.Obl.Name)
					}
				}
			}
			if v.Fatal != "" || len(v.ContractErrors) > 0 {
				bf.Clean = false
			}
			old := baseline.Functions[v.RootKey]
			if old != nil && opts.Prop != "" {
				// merge: a baseline written per property only covers the obligations of that property
				bf.Obligations = mergeStrs(old.Obligations, bf.Obligations)
				bf.Unstable = mergeStrs(old.Unstable, bf.Unstable)
				bf.Clean = bf.Clean && (old.Clean || len(old.Obligations) == 0)
			}
			baseline.Functions[v.RootKey] = bf
		}
		data, _ := json.MarshalIndent(baseline, "", " ")
		_ = os.MkdirAll(filepath.Join(opts.Verif, "baseline"), 0o755)
		_ = os.WriteFile(filepath.Join(opts.Verif, "baseline", "obligations.json"), data, 0o644)
	}

	if cleanup {
		_ = os.RemoveAll(dir)
	}
	leanStatus := "not run (quick tier trusts the last thorough result)"
	if opts.Tier == "thorough" {
		usesFset := false
		for _, v := range vcs {
			for k := range v.UsedLemmas {
				if strings.Contains(k, "finite-set") {
					usesFset = true
				}
			}
		}
		if usesFset {
			cmd := exec.Command("lean", filepath.Join(opts.Verif, "lean", "CountedSet.lean"))
			outb, err := cmd.CombinedOutput()
			if err != nil || strings.Contains(string(outb), "error") {
				leanStatus = "FAILED: " + head(string(outb), 10)
				out.Lines = append(out.Lines, "UNDECIDED property="+prop+" reason=lean-lemma-check-failed (lean/CountedSet.lean)")
			} else {
				leanStatus = "lean/CountedSet.lean checked by Lean 4 + Mathlib: 7 theorems, no errors"
			}
		} else {
			leanStatus = "not needed (no finite-set ghost state used)"
		}
	}
	sort.Strings(assumed)
	sort.Strings(unmodelled)
	sort.Strings(inlined)
	sort.Strings(havocked)
	ev := map[string]interface{}{
		"property_id": prop, "tier": opts.Tier, "seed": opts.Seed, "level": "proof",
		"coverage": map[string]interface{}{
			"obligations": nObl, "discharged": nDis,
			"checker_cmd":                  fmt.Sprintf("bin/check %s %s (govc: go/ssa weakest-precondition generator over /repo; solvers z3 5.1.0, cvc5 1.0.x, z3 4.8.12)", prop, opts.Tier),
			"trusted_base":                 trustedBase(assumed),
			"functions_under_contract":     fuc,
			"callee_closure_functions":     len(depSet),
			"by_backend":                   byBackend,
			"solver_time_s":                round3(solverTime),
			"samples":                      samples,
			"known_findings":               dedup(knownLines),
			"undecided":                    undecided,
			"assumed_contracts_and_models": assumed,
			"unmodelled_externals":         unmodelled,
			"inlined_callees":              inlined,
			"modset_havocked_callees":      havocked,
			"dropped_or_abstracted":        append(dropped, imprecise...),
			"contract_errors":              contractErrs,
			"vacuity_covers":               covers,
			"unreachable_returns":          unreachableExits,
			"mirror_contracts_used":        e.MirrorUsed,
			"bounded_standins":             []string{},
			"not_claimed_unstable":         unstable,
			"deferred_to_thorough_tier":    len(deferred),
			"lean_lemmas":                  leanStatus,
		},
		"assumptions": assumptionsList(),
		"wall_s":      round3(time.Since(t0).Seconds()),
		"violations":  out.Violations,
	}
	out.Evidence = ev
	if opts.Prop != "" && !opts.NoEvidence {
		data, _ := json.MarshalIndent(ev, "", " ")
		_ = os.MkdirAll(filepath.Join(opts.Verif, "evidence"), 0o755)
		if err := os.WriteFile(filepath.Join(opts.Verif, "evidence", opts.Prop+".json"), data, 0o644); err != nil {
			return nil, err
		}
	}
	if !opts.Quiet {
		out.Lines = append(out.Lines, fmt.Sprintf("SUMMARY property=%s functions=%d obligations=%d discharged=%d known_findings=%d undecided=%d violations=%d wall=%.1fs",
			prop, len(vcs), nObl, nDis, len(dedup(knownLines)), len(undecided), out.Violations, time.Since(t0).Seconds()))
	}
	if opts.Verbose {
		for _, r := range results {
			fmt.Fprintf(os.Stderr, "%-12s %-8s %6.2fs %s  [%s]\n", r.Status, r.Solver, r.TimeS, r.Obl.Name, r.Obl.Pos)
		}
		for _, s := range append(dropped, imprecise...) {
			fmt.Fprintln(os.Stderr, "note:", s)
		}
	}
	return out, nil
}

func mergeStrs(a, b []string) []string {
	m := map[string]bool{}
	for _, x := range a {
		m[x] = true
	}
	for _, x := range b {
		m[x] = true
	}
	var out []string
	for x := range m {
		out = append(out, x)
	}
	sort.Strings(out)
	return out
}

func round3(f float64) float64 { return float64(int(f*1000+0.5)) / 1000 }

func dedup(xs []string) []string {
	var out []string
	seen := map[string]bool{}
	for _, x := range xs {
		if !seen[x] {
			seen[x] = true
			out = append(out, x)
		}
	}
	return out
}

func prefixAll(p string, xs []string) []string {
	var out []string
	for _, x := range xs {
		out = append(out, p+": "+x)
	}
	return out
}

func appendKeys(dst []string, m map[string]bool) []string {
	for k := range m {
		found := false
		for _, d := range dst {
			if d == k {
				found = true
				break
			}
		}
		if !found {
			dst = append(dst, k)
		}
	}
	return dst
}

func containsBase(xs []string, name string) bool {
	b := baseName(name)
	for _, x := range xs {
		if x == name || baseName(x) == b {
			return true
		}
	}
	return false
}

func matchKnown(fs []KnownFinding, prop, obl string) int {
	for i, f := range fs {
		if f.Status != "open" {
			continue
		}
		if prop != "" && prop != "ALL" && f.Property != prop && f.Property != "*" {
			continue
		}
		// exact obligation name (call site / clause ordinal included): a different violation is still reported
		if f.Obligation == obl {
			return i
		}
	}
	return -1
}

func trustedBase(assumed []string) []string {
	tb := []string{
		"govc VC generator (this repository: /verif/internal/vc) and its SSA semantics (DESIGN.md Appendix E)",
		"golang.org/x/tools/go/ssa v0.29.0 (SSA construction of /repo)",
		"SMT solvers: z3 5.1.0 (z3-new), cvc5 1.0.x, z3 4.8.12",
		"A-SEQ: functions are verified sequentially (no interleavings)",
	}
	return append(tb, assumed...)
}

func assumptionsList() []string {
	return []string{
		"A-SEQ sequential execution of each function; goroutines, channels, select and time are nondeterministic events",
		"A-FS/A-DEP behaviour of code outside /repo only as stated in contracts/assumed/*.gvc and the built-in models listed under coverage.assumed_contracts_and_models",
		"A-IND induction over histories is a meta-argument: an invariant preserved by every entry point holds after every sequence of calls",
		"machine integers are bit-vectors of their exact width (no mathematical-integer abstraction)",
		"callees without contract: inlined when small, otherwise havoc of their computed mod-set (listed per run)",
	}
}

// writeReplay writes the replay file for a failed obligation and tries to reproduce it on the real code.
func writeReplay(opts RunOpts, dir, prop string, r *vc.Result, e *vc.Engine) (string, bool) {
	_ = os.MkdirAll(dir, 0o755)
	name := strings.NewReplacer("/", "_", "|", "_", " ", "_", "*", "P", "(", "", ")", "", "[", "_", "]", "_", ":", "_").Replace(r.Obl.Name)
	path := filepath.Join(dir, fmt.Sprintf("%s_%s.json", prop, name))
	rep := map[string]interface{}{
		"property":           prop,
		"obligation":         r.Obl.Name,
		"kind":               r.Obl.Kind,
		"function":           r.Obl.Func,
		"position":           r.Obl.Pos.String(),
		"clause":             r.Obl.Detail,
		"solver":             r.Solver,
		"answer":             r.Raw,
		"per_solver":         r.PerSolver,
		"model":              r.Model,
		"solver_output_head": head(r.Output, 40),
	}
	reproduced := false
	if r.Raw == "sat" {
		ok, detail := tryReplay(opts, r, e)
		rep["replay"] = detail
		reproduced = ok
	} else {
		rep["replay"] = "no model (the solver answered " + r.Raw + "); the obligation was discharged on the unchanged tree and is no longer"
	}
	rep["reproduced_on_real_code"] = reproduced
	if data, err := os.ReadFile(r.Script); err == nil && len(data) < 400000 {
		rep["smt_script"] = string(data)
	}
	data, _ := json.MarshalIndent(rep, "", " ")
	_ = os.WriteFile(path, data, 0o644)
	return path, reproduced
}

func head(s string, n int) string {
	lines := strings.Split(s, "\n")
	if len(lines) > n {
		lines = lines[:n]
	}
	return strings.Join(lines, "\n")
}
