package main

import (
	"flag"
	"fmt"
	"os"
	"runtime/pprof"
	"sort"
	"strings"
	"time"

	"verif/internal/vc"
)

func main() {
	repo := flag.String("repo", "/repo", "repository directory")
	verif := flag.String("verif", "/verif", "verification directory")
	prop := flag.String("prop", "", "property id (C01..C20)")
	fn := flag.String("func", "", "verify only functions whose key contains this text")
	tier := flag.String("tier", "quick", "quick|thorough")
	dump := flag.String("dump", "", "dump SSA and loop numbering of the function with this key")
	keep := flag.String("smtdir", "", "keep SMT scripts in this directory")
	verbose := flag.Bool("v", false, "verbose")
	replay := flag.String("replay", "", "replay file")
	selftest := flag.Bool("selftest", false, "run the must-fail corpus")
	tagaudit := flag.Bool("tagaudit", false, "list contracted callees reachable from each property's functions that lack its tag")
	seed := flag.Int64("seed", 0, "seed")
	writeBaseline := flag.Bool("write-baseline", false, "record discharged obligations in baseline/obligations.json (run on the unchanged tree only)")
	flag.BoolVar(&calls, "calls", false, "with -dump: list call sites and the names `on call` clauses match")
	cpuprof := flag.String("cpuprofile", "", "write cpu profile")
	flag.Parse()
	_ = seed
	if *cpuprof != "" {
		f, _ := os.Create(*cpuprof)
		pprof.StartCPUProfile(f)
		defer pprof.StopCPUProfile()
	}

	if *dump != "" {
		if err := dumpFunc(*repo, *verif, *dump); err != nil {
			fmt.Fprintln(os.Stderr, err)
			os.Exit(2)
		}
		return
	}
	if *replay != "" {
		os.Exit(runReplay(*repo, *verif, *prop, *replay))
	}
	if *tagaudit {
		os.Exit(TagAudit(*repo, *verif))
	}
	if *selftest {
		os.Exit(runSelftest(*repo, *verif, *prop, *verbose))
	}
	t0 := time.Now()
	opts := RunOpts{Repo: *repo, Verif: *verif, Prop: *prop, FuncFilter: *fn, Tier: *tier, KeepDir: *keep, Verbose: *verbose, Seed: *seed, WriteBaseline: *writeBaseline}
	code := Run(opts, t0)
	if *cpuprof != "" {
		pprof.StopCPUProfile()
	}
	os.Exit(code)
}

var calls bool

func dumpFunc(repo, verif, key string) error {
	e, err := vc.Load(repo, []string{"./..."}, nil)
	if err != nil {
		return err
	}
	_ = e.LoadContracts(verif)
	var keys []string
	for _, f := range e.ModuleFunctions() {
		k := vc.FuncKey(f)
		if strings.Contains(k, key) {
			keys = append(keys, k)
		}
	}
	sort.Strings(keys)
	for _, k := range keys {
		f := e.Func(k)
		fmt.Printf("=== %s (%s)\n", k, e.Fset.Position(f.Pos()))
		vc.DumpLoops(e, f, os.Stdout)
		if calls {
			vc.DumpCalls(e, f, os.Stdout)
		}
		if k == key {
			f.WriteTo(os.Stdout)
		}
	}
	return nil
}
