package main

import (
	"encoding/json"
	"fmt"
	"go/types"
	"strings"

	"golang.org/x/tools/go/ssa"

	"verif/internal/vc"
)

func jsonUnmarshal(data []byte, v interface{}) error { return json.Unmarshal(data, v) }

// goTranslator turns a contract clause into a Go boolean expression evaluated inside the replay test
// (in the function's own package). Ghost state, set operations, heap-allocation predicates and unbounded
// quantifiers cannot be evaluated at run time: such clauses give an error (no replay).
type goTranslator struct {
	e        *vc.Engine
	fn       *ssa.Function
	args     []string
	res      []string
	pkg      *types.Package
	oldDecls []string
	nold     int
	bound    map[string]bool
}

func (tr *goTranslator) clause(text string) (string, error) {
	text = strings.TrimSpace(text)
	text = strings.TrimSuffix(text, " [syntactically known]")
	for _, kw := range []string{"ensures", "proves"} {
		if strings.HasPrefix(text, kw) {
			text = strings.TrimSpace(text[len(kw):])
		}
	}
	if strings.HasSuffix(text, "]") {
		if k := strings.LastIndex(text, " ["); k >= 0 && !strings.Contains(text[k:], "(") {
			text = text[:k]
		}
	}
	ex, err := vc.ParseExpr(text)
	if err != nil {
		return "", err
	}
	tr.bound = map[string]bool{}
	return tr.tr(ex, false)
}

func (tr *goTranslator) paramVar(name string) (string, bool) {
	for i, p := range tr.fn.Params {
		if p.Name() == name && i < len(tr.args) {
			return tr.args[i], true
		}
	}
	sig := tr.fn.Signature
	n := sig.Results().Len()
	for i := 0; i < n; i++ {
		if sig.Results().At(i).Name() == name {
			return tr.res[i], true
		}
	}
	switch name {
	case "result", "result0", "ret0":
		if n >= 1 {
			return tr.res[0], true
		}
	case "err":
		if n >= 1 {
			return tr.res[n-1], true
		}
	}
	var idx int
	if c, _ := fmt.Sscanf(name, "result%d", &idx); c == 1 && idx < n {
		return tr.res[idx], true
	}
	return "", false
}

func (tr *goTranslator) tr(e vc.Expr, inOld bool) (string, error) {
	switch x := e.(type) {
	case *vc.EBool:
		return fmt.Sprint(x.Val), nil
	case *vc.EInt:
		return x.Text, nil
	case *vc.EString:
		return fmt.Sprintf("%q", x.Val), nil
	case *vc.ENil:
		return "nil", nil
	case *vc.EIdent:
		if tr.bound[x.Name] {
			return x.Name, nil
		}
		if v, ok := tr.paramVar(x.Name); ok {
			return v, nil
		}
		return x.Name, nil
	case *vc.EUnary:
		a, err := tr.tr(x.X, inOld)
		if err != nil {
			return "", err
		}
		return "(" + x.Op + a + ")", nil
	case *vc.EDeref:
		a, err := tr.tr(x.X, inOld)
		if err != nil {
			return "", err
		}
		return "(*" + a + ")", nil
	case *vc.EBinary:
		a, err := tr.tr(x.X, inOld)
		if err != nil {
			return "", err
		}
		b, err := tr.tr(x.Y, inOld)
		if err != nil {
			return "", err
		}
		switch x.Op {
		case "==>":
			return "(!(" + a + ") || (" + b + "))", nil
		case "<==>":
			return "((" + a + ") == (" + b + "))", nil
		}
		return "(" + a + " " + x.Op + " " + b + ")", nil
	case *vc.ECond:
		c, err := tr.tr(x.C, inOld)
		if err != nil {
			return "", err
		}
		a, err := tr.tr(x.A, inOld)
		if err != nil {
			return "", err
		}
		b, err := tr.tr(x.B, inOld)
		if err != nil {
			return "", err
		}
		return "govcIte(" + c + ", " + a + ", " + b + ")", fmt.Errorf("conditional expressions are not translated")
	case *vc.ESel:
		a, err := tr.tr(x.X, inOld)
		if err != nil {
			return "", err
		}
		return a + "." + x.Name, nil
	case *vc.EIndex:
		a, err := tr.tr(x.X, inOld)
		if err != nil {
			return "", err
		}
		i, err := tr.tr(x.I, inOld)
		if err != nil {
			return "", err
		}
		return a + "[" + i + "]", nil
	case *vc.ESlice:
		return "", fmt.Errorf("slice expressions are not translated")
	case *vc.EQuant:
		if len(x.Vars) != 1 {
			return "", fmt.Errorf("multi-variable quantifier")
		}
		v := x.Vars[0]
		switch v.Type {
		case "int", "uint32", "uint64", "int64", "uint", "int32":
		default:
			return "", fmt.Errorf("quantifier over %s cannot be evaluated at run time", v.Type)
		}
		// body must be  guard ==> P  (forall)  or  guard && P  (exists) with  lo <= v && v < hi  inside guard
		var guard, body vc.Expr
		if b, ok := x.Body.(*vc.EBinary); ok && ((x.Forall && b.Op == "==>") || (!x.Forall && b.Op == "&&")) {
			guard, body = b.X, b.Y
			if !x.Forall {
				// exists i :: a && b && c : treat everything as body with bounds searched in all conjuncts
				guard, body = x.Body, &vc.EBool{Val: true}
			}
		} else {
			return "", fmt.Errorf("quantifier without a range guard")
		}
		lo, hi, ok := findBounds(guard, v.Name)
		if !ok {
			return "", fmt.Errorf("quantifier range not recognised")
		}
		tr.bound[v.Name] = true
		defer delete(tr.bound, v.Name)
		los, err := tr.tr(lo, inOld)
		if err != nil {
			return "", err
		}
		his, err := tr.tr(hi, inOld)
		if err != nil {
			return "", err
		}
		gs, err := tr.tr(guard, inOld)
		if err != nil {
			return "", err
		}
		bs, err := tr.tr(body, inOld)
		if err != nil {
			return "", err
		}
		if x.Forall {
			return fmt.Sprintf("func() bool { for %s := %s(%s); %s < %s(%s); %s++ { if (%s) && !(%s) { return false } }; return true }()", v.Name, v.Type, los, v.Name, v.Type, his, v.Name, gs, bs), nil
		}
		return fmt.Sprintf("func() bool { for %s := %s(%s); %s < %s(%s); %s++ { if (%s) && (%s) { return true } }; return false }()", v.Name, v.Type, los, v.Name, v.Type, his, v.Name, gs, bs), nil
	case *vc.ECall:
		id, ok := x.Fun.(*vc.EIdent)
		if !ok {
			if sel, ok := x.Fun.(*vc.ESel); ok {
				// pkg.Func(args) / pkg.Type(x)
				base, err := tr.tr(sel.X, inOld)
				if err != nil {
					return "", err
				}
				var as []string
				for _, a := range x.Args {
					s, err := tr.tr(a, inOld)
					if err != nil {
						return "", err
					}
					as = append(as, s)
				}
				return base + "." + sel.Name + "(" + strings.Join(as, ", ") + ")", nil
			}
			return "", fmt.Errorf("unsupported call")
		}
		switch id.Name {
		case "old", "entry":
			if inOld {
				return tr.tr(x.Args[0], true)
			}
			if len(tr.bound) > 0 {
				return "", fmt.Errorf("old() under a quantifier")
			}
			s, err := tr.tr(x.Args[0], true)
			if err != nil {
				return "", err
			}
			tr.nold++
			name := fmt.Sprintf("old%d", tr.nold)
			tr.oldDecls = append(tr.oldDecls, fmt.Sprintf("%s := %s", name, s))
			return name, nil
		case "unchanged":
			var parts []string
			for _, a := range x.Args {
				now, err := tr.tr(a, inOld)
				if err != nil {
					return "", err
				}
				was, err := tr.tr(&vc.ECall{Fun: &vc.EIdent{Name: "old"}, Args: []vc.Expr{a}}, inOld)
				if err != nil {
					return "", err
				}
				parts = append(parts, "("+now+" == "+was+")")
			}
			return "(" + strings.Join(parts, " && ") + ")", nil
		case "len", "cap", "int", "int64", "uint64", "uint32", "uint16", "uint8", "int32", "uint", "byte":
			s, err := tr.tr(x.Args[0], inOld)
			if err != nil {
				return "", err
			}
			return id.Name + "(" + s + ")", nil
		case "has":
			m, err := tr.tr(x.Args[0], inOld)
			if err != nil {
				return "", err
			}
			k, err := tr.tr(x.Args[1], inOld)
			if err != nil {
				return "", err
			}
			return "func() bool { _, ok := " + m + "[" + k + "]; return ok }()", nil
		case "isnil":
			s, err := tr.tr(x.Args[0], inOld)
			if err != nil {
				return "", err
			}
			return "(" + s + " == nil)", nil
		case "mem", "ins", "del", "card", "empty", "aload", "as", "typeis", "fresh", "alive", "addr", "sameArray":
			return "", fmt.Errorf("%s() refers to ghost or allocation state", id.Name)
		}
		// predicate / spec function: expand inline by substitution of arguments
		pd := tr.e.LookupPred(tr.pkg.Name(), id.Name)
		if pd == nil || pd.Body == nil || pd.Rec {
			// conversion to a package type or unknown function
			var as []string
			for _, a := range x.Args {
				s, err := tr.tr(a, inOld)
				if err != nil {
					return "", err
				}
				as = append(as, s)
			}
			return id.Name + "(" + strings.Join(as, ", ") + ")", nil
		}
		if len(pd.Params) != len(x.Args) {
			return "", fmt.Errorf("arity of %s", id.Name)
		}
		// bind parameters through an immediately-invoked function literal
		var ps, as []string
		for i, p := range pd.Params {
			if p.Type == "fset" {
				return "", fmt.Errorf("predicate %s takes a ghost set", id.Name)
			}
			s, err := tr.tr(x.Args[i], inOld)
			if err != nil {
				return "", err
			}
			ps = append(ps, p.Name+" "+p.Type)
			as = append(as, s)
		}
		saved := tr.bound
		nb := map[string]bool{}
		for k := range saved {
			nb[k] = true
		}
		for _, p := range pd.Params {
			nb[p.Name] = true
		}
		tr.bound = nb
		body, err := tr.tr(pd.Body, inOld)
		tr.bound = saved
		if err != nil {
			return "", err
		}
		ret := "bool"
		if pd.Ret != "" {
			ret = pd.Ret
		}
		return "func(" + strings.Join(ps, ", ") + ") " + ret + " { return " + body + " }(" + strings.Join(as, ", ") + ")", nil
	}
	return "", fmt.Errorf("untranslatable expression %s", e)
}

// findBounds looks for  lo <= v  (or lo < v) and  v < hi (or v <= hi) among the conjuncts of guard.
func findBounds(guard vc.Expr, v string) (lo, hi vc.Expr, ok bool) {
	var conj func(e vc.Expr)
	var los, his []vc.Expr
	isV := func(e vc.Expr) bool { id, ok := e.(*vc.EIdent); return ok && id.Name == v }
	plus1 := func(e vc.Expr) vc.Expr { return &vc.EBinary{Op: "+", X: e, Y: &vc.EInt{Text: "1"}} }
	conj = func(e vc.Expr) {
		b, ok := e.(*vc.EBinary)
		if !ok {
			return
		}
		switch b.Op {
		case "&&":
			conj(b.X)
			conj(b.Y)
		case "<=":
			if isV(b.Y) {
				los = append(los, b.X)
			} else if isV(b.X) {
				his = append(his, plus1(b.Y))
			}
		case "<":
			if isV(b.Y) {
				los = append(los, plus1(b.X))
			} else if isV(b.X) {
				his = append(his, b.Y)
			}
		case ">=":
			if isV(b.X) {
				los = append(los, b.Y)
			}
		case ">":
			if isV(b.X) {
				los = append(los, plus1(b.Y))
			}
		}
	}
	conj(guard)
	if len(los) == 0 || len(his) == 0 {
		return nil, nil, false
	}
	return los[0], his[0], true
}
