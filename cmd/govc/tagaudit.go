package main

import (
	"fmt"
	"sort"
	"strings"

	"golang.org/x/tools/go/ssa"

	"verif/internal/vc"
)

// TagAudit: for every property tag, the contracted module functions that are statically reachable (through calls and
// closures) from the functions tagged with it but do not carry the tag themselves. A property's check verifies only the
// obligations tagged with it; the contracts of these callees are relied upon and verified under OTHER properties' checks.
// calleeClosure returns the contracted, tagged module functions statically reachable from the given functions (through
// calls, closures and uncontracted helpers), excluding the given ones.
func calleeClosure(e *vc.Engine, roots []string) []string {
	tagged := map[string]bool{}
	for k, fc := range e.Contracts {
		if fc.Assumed {
			continue
		}
		n := len(fc.Tags)
		for _, c := range fc.Clauses {
			n += len(c.Tags)
		}
		if n > 0 {
			tagged[k] = true
		}
	}
	callees := func(fn *ssa.Function) []string {
		seen := map[string]bool{}
		var walk func(f *ssa.Function, depth int)
		walk = func(f *ssa.Function, depth int) {
			if f == nil || f.Blocks == nil || depth > 3 {
				return
			}
			for _, b := range f.Blocks {
				for _, ins := range b.Instrs {
					switch in := ins.(type) {
					case ssa.CallInstruction:
						if c := in.Common().StaticCallee(); c != nil {
							k := vc.FuncKey(c)
							if tagged[k] {
								seen[k] = true
							} else if _, has := e.Contracts[k]; !has {
								walk(c, depth+1)
							}
						}
					case *ssa.MakeClosure:
						walk(in.Fn.(*ssa.Function), depth+1)
					}
				}
			}
		}
		walk(fn, 0)
		var out []string
		for k := range seen {
			out = append(out, k)
		}
		return out
	}
	reach := map[string]bool{}
	for _, k := range roots {
		reach[k] = true
	}
	frontier := append([]string(nil), roots...)
	var out []string
	for len(frontier) > 0 {
		var next []string
		for _, k := range frontier {
			fn := e.Func(k)
			if fn == nil {
				continue
			}
			for _, c := range callees(fn) {
				if !reach[c] {
					reach[c] = true
					next = append(next, c)
					out = append(out, c)
				}
			}
		}
		frontier = next
	}
	sort.Strings(out)
	return out
}

func TagAudit(repo, verif string) int {
	e, err := vc.Load(repo, []string{"./..."}, nil)
	if err != nil {
		fmt.Println(err)
		return 2
	}
	if err := e.LoadContracts(verif); err != nil {
		fmt.Println(err)
		return 2
	}
	tagged := map[string]map[string]bool{} // key -> tags
	for k, fc := range e.Contracts {
		if fc.Assumed {
			continue
		}
		ts := map[string]bool{}
		for _, t := range fc.Tags {
			ts[t] = true
		}
		for _, c := range fc.Clauses {
			for _, t := range c.Tags {
				ts[t] = true
			}
		}
		delete(ts, "thorough")
		if len(ts) > 0 {
			tagged[k] = ts
		}
	}
	callees := func(fn *ssa.Function) []string {
		seen := map[string]bool{}
		var walk func(f *ssa.Function, depth int)
		walk = func(f *ssa.Function, depth int) {
			if f == nil || f.Blocks == nil || depth > 3 {
				return
			}
			for _, b := range f.Blocks {
				for _, ins := range b.Instrs {
					switch in := ins.(type) {
					case ssa.CallInstruction:
						if c := in.Common().StaticCallee(); c != nil {
							k := vc.FuncKey(c)
							if _, ok := tagged[k]; ok {
								seen[k] = true
							} else if _, has := e.Contracts[k]; !has {
								walk(c, depth+1) // uncontracted module helper: inlined or havocked; look through it
							}
						}
					case *ssa.MakeClosure:
						walk(in.Fn.(*ssa.Function), depth+1)
					}
				}
			}
		}
		walk(fn, 0)
		var out []string
		for k := range seen {
			out = append(out, k)
		}
		sort.Strings(out)
		return out
	}
	props := map[string]bool{}
	for _, ts := range tagged {
		for t := range ts {
			props[t] = true
		}
	}
	var ps []string
	for p := range props {
		ps = append(ps, p)
	}
	sort.Strings(ps)
	for _, p := range ps {
		reach := map[string]int{}
		var frontier []string
		for k, ts := range tagged {
			if ts[p] {
				reach[k] = 0
				frontier = append(frontier, k)
			}
		}
		for len(frontier) > 0 {
			var next []string
			for _, k := range frontier {
				fn := e.Func(k)
				if fn == nil {
					continue
				}
				for _, c := range callees(fn) {
					if _, ok := reach[c]; !ok {
						reach[c] = reach[k] + 1
						next = append(next, c)
					}
				}
			}
			frontier = next
		}
		var missing []string
		for k, d := range reach {
			if d > 0 && !tagged[k][p] {
				var ts []string
				for t := range tagged[k] {
					ts = append(ts, t)
				}
				sort.Strings(ts)
				missing = append(missing, fmt.Sprintf("%s(d%d:%s)", k, d, strings.Join(ts, ",")))
			}
		}
		sort.Strings(missing)
		fmt.Printf("%s: %d tagged, %d reachable untagged: %s\n", p, len(reach)-len(missing), len(missing), strings.Join(missing, " "))
	}
	return 0
}
