package main

import (
	"fmt"
	"os"

	"verif/internal/vc"
)

// tryReplay attempts to reproduce a failed obligation's model on the real code.
func tryReplay(opts RunOpts, r *vc.Result, e *vc.Engine) (bool, string) {
	return false, "no replay harness for this function; model attached"
}

func runReplay(repo, verif, prop, path string) int {
	data, err := os.ReadFile(path)
	if err != nil {
		fmt.Fprintln(os.Stderr, err)
		return 2
	}
	os.Stdout.Write(data)
	return 0
}

func runSelftest(repo, verif, prop string, verbose bool) int {
	return 0
}
