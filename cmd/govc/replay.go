package main

import (
	"bytes"
	"context"
	"fmt"
	"go/types"
	"os"
	"os/exec"
	"path/filepath"
	"strings"
	"time"

	"golang.org/x/tools/go/ssa"

	"verif/internal/vc"
)

// Replay of a solver counterexample against the real code (level 1 of DESIGN 2.8): the function's inputs
// (scalars, slices of integers, pointers to structs with scalar / pointer / slice fields, to depth 3) are
// rebuilt from the model as Go values inside an in-package test injected with `go test -overlay`; the real
// function is called under recover; a no-panic obligation is reproduced when the call panics, a
// postcondition when its Go translation evaluates to false.

type replayer struct {
	e      *vc.Engine
	v      *vc.VC
	o      *vc.Obligation
	fixed  []string          // (assert (= term value)) lines pinning the model between queries
	cache  map[string]string // term -> decimal value
	dir    string
	nq     int
	objs   map[string]string // ref value (decimal) + type -> Go variable
	decls  []string          // Go statements building the inputs
	nvar   int
	failed string
	pkg    *types.Package
}

func (rp *replayer) query(terms []string) bool {
	var need []string
	for _, t := range terms {
		if _, ok := rp.cache[t]; !ok {
			need = append(need, t)
		}
	}
	if len(need) == 0 {
		return true
	}
	script := rp.v.ModelScript(rp.o, nil, true)
	// insert pins before (check-sat)
	k := strings.LastIndex(script, "(check-sat)")
	script = script[:k] + strings.Join(rp.fixed, "\n") + "\n(check-sat)\n"
	for _, t := range need {
		script += "(get-value (" + t + "))\n"
	}
	rp.nq++
	file := filepath.Join(rp.dir, fmt.Sprintf("model%d.smt2", rp.nq))
	if err := os.WriteFile(file, []byte(script), 0o644); err != nil {
		return false
	}
	ctx, cancel := context.WithTimeout(context.Background(), 25*time.Second)
	defer cancel()
	cmd := exec.CommandContext(ctx, "z3-new", "-T:20", file)
	var out bytes.Buffer
	cmd.Stdout = &out
	cmd.Stderr = &out
	_ = cmd.Run()
	lines := strings.Split(out.String(), "\n")
	if len(lines) == 0 || strings.TrimSpace(lines[0]) != "sat" {
		rp.failed = "model query answered " + strings.TrimSpace(lines[0])
		return false
	}
	// parse get-value answers: "((term value))" possibly spanning lines; join and split by top-level parens
	rest := strings.Join(lines[1:], " ")
	vals := splitTopLevel(rest)
	if len(vals) < len(need) {
		rp.failed = "model query returned fewer values than requested"
		return false
	}
	for i, t := range need {
		a := strings.TrimSpace(vals[i])
		// a = "((term value))": value is the last top-level item inside
		inner := strings.TrimSpace(a)
		inner = strings.TrimPrefix(inner, "(")
		inner = strings.TrimSuffix(inner, ")")
		inner = strings.TrimSpace(inner)
		inner = strings.TrimPrefix(inner, "(")
		inner = strings.TrimSuffix(inner, ")")
		val := lastItem(inner)
		dec, ok := vc.ParseBV(val)
		if !ok {
			rp.failed = "unparsable model value " + val
			return false
		}
		rp.cache[t] = dec
		rp.fixed = append(rp.fixed, "(assert (= "+t+" "+val+"))")
	}
	return true
}

func splitTopLevel(s string) []string {
	var out []string
	depth, start := 0, -1
	for i := 0; i < len(s); i++ {
		switch s[i] {
		case '(':
			if depth == 0 {
				start = i
			}
			depth++
		case ')':
			depth--
			if depth == 0 && start >= 0 {
				out = append(out, s[start:i+1])
				start = -1
			}
		}
	}
	return out
}

func lastItem(s string) string {
	s = strings.TrimSpace(s)
	if strings.HasSuffix(s, ")") {
		depth := 0
		for i := len(s) - 1; i >= 0; i-- {
			switch s[i] {
			case ')':
				depth++
			case '(':
				depth--
				if depth == 0 {
					return s[i:]
				}
			}
		}
	}
	if k := strings.LastIndexAny(s, " \t"); k >= 0 {
		return s[k+1:]
	}
	return s
}

func (rp *replayer) get(term string) (string, bool) {
	if !rp.query([]string{term}) {
		return "", false
	}
	return rp.cache[term], true
}

func (rp *replayer) newVar(prefix string) string {
	rp.nvar++
	return fmt.Sprintf("%s%d", prefix, rp.nvar)
}

func (rp *replayer) typeExpr(t types.Type) string {
	return types.TypeString(t, func(p *types.Package) string {
		if p == rp.pkg {
			return ""
		}
		return p.Name()
	})
}

func signedDec(dec string, t types.Type) string {
	b, ok := t.Underlying().(*types.Basic)
	if !ok || b.Info()&types.IsUnsigned != 0 {
		return dec
	}
	var v uint64
	fmt.Sscan(dec, &v)
	switch b.Kind() {
	case types.Int8:
		return fmt.Sprint(int8(v))
	case types.Int16:
		return fmt.Sprint(int16(v))
	case types.Int32:
		return fmt.Sprint(int32(v))
	default:
		return fmt.Sprint(int64(v))
	}
}

// valueExpr builds a Go expression for a value of type t whose leaves are the given SMT terms.
func (rp *replayer) valueExpr(t types.Type, leaves []string, depth int) (string, bool) {
	switch u := t.Underlying().(type) {
	case *types.Basic:
		switch {
		case u.Info()&types.IsBoolean != 0:
			d, ok := rp.get(leaves[0])
			return fmt.Sprint(d == "1"), ok
		case u.Info()&types.IsInteger != 0:
			d, ok := rp.get(leaves[0])
			if !ok {
				return "", false
			}
			return rp.typeExpr(t) + "(" + signedDec(d, t) + ")", true
		}
		return "", false
	case *types.Slice:
		bd, ok1 := rp.get(leaves[0])
		od, ok2 := rp.get(leaves[1])
		ld, ok3 := rp.get(leaves[2])
		if !ok1 || !ok2 || !ok3 {
			return "", false
		}
		var n, off uint64
		fmt.Sscan(ld, &n)
		fmt.Sscan(od, &off)
		if bd == "0" && n == 0 {
			return "(" + rp.typeExpr(t) + ")(nil)", true
		}
		if n > 4096 {
			rp.failed = fmt.Sprintf("model slice too long (%d)", n)
			return "", false
		}
		els := rp.v.E.LeavesOf(u.Elem())
		if len(els) != 1 {
			rp.failed = "slice of composite elements"
			return "", false
		}
		base := leaves[0]
		var terms []string
		for i := uint64(0); i < n; i++ {
			terms = append(terms, rp.v.EntrySliceElemTerm(u.Elem(), els[0].Path, base, fmt.Sprintf("(_ bv%d 64)", off+i)))
		}
		if !rp.v.Declared(rp.v.HeapConstName(rp.v.ClassSlice(u.Elem(), els[0].Path))) {
			// contents never read: zeros
			return fmt.Sprintf("make(%s, %d)", rp.typeExpr(t), n), true
		}
		if !rp.query(terms) {
			return "", false
		}
		var parts []string
		for _, tm := range terms {
			parts = append(parts, signedDec(rp.cache[tm], u.Elem()))
		}
		return rp.typeExpr(t) + "{" + strings.Join(parts, ", ") + "}", true
	case *types.Pointer:
		rd, ok := rp.get(leaves[0])
		if !ok {
			return "", false
		}
		if rd == "0" {
			return "(" + rp.typeExpr(t) + ")(nil)", true
		}
		sty, isStruct := u.Elem().Underlying().(*types.Struct)
		if !isStruct {
			rp.failed = "pointer to non-struct parameter"
			return "", false
		}
		key := rd + "|" + rp.typeExpr(u.Elem())
		if v, seen := rp.objs[key]; seen {
			return v, true
		}
		if depth > 3 {
			return "(" + rp.typeExpr(t) + ")(nil)", true
		}
		name := rp.newVar("obj")
		rp.objs[key] = name
		rp.decls = append(rp.decls, fmt.Sprintf("%s := new(%s)", name, rp.typeExpr(u.Elem())))
		ref := fmt.Sprintf("(_ bv%s 64)", rd)
		if !rp.fillStruct(name, u.Elem(), sty, ref, depth) {
			return "", false
		}
		return name, true
	}
	return "", false
}

func (rp *replayer) fillStruct(lhs string, st types.Type, sty *types.Struct, ref string, depth int) bool {
	for i := 0; i < sty.NumFields(); i++ {
		f := sty.Field(i)
		ft := f.Type()
		if nested, ok := ft.Underlying().(*types.Struct); ok {
			if _, isNamed := ft.(*types.Named); isNamed && ft.(*types.Named).Obj().Pkg() != nil && ft.(*types.Named).Obj().Pkg().Name() == "sync" {
				continue
			}
			if !rp.fillStruct(lhs+"."+f.Name(), ft, nested, rp.v.SubRefTerm(st, f.Name(), ref), depth) {
				return false
			}
			continue
		}
		ls := rp.v.E.LeavesOf(ft)
		switch ft.Underlying().(type) {
		case *types.Basic, *types.Slice, *types.Pointer:
		default:
			continue // maps, interfaces, funcs, channels: left zero
		}
		if b, ok := ft.Underlying().(*types.Basic); ok && b.Info()&(types.IsInteger|types.IsBoolean) == 0 {
			continue
		}
		if rp.v.E.AddrTaken(st, f.Name()) {
			continue
		}
		var leaves []string
		allKnown := true
		for _, l := range ls {
			class := rp.v.ClassField(st, f.Name(), l.Path)
			if !rp.v.Declared(rp.v.HeapConstName(class)) {
				allKnown = false
			}
			leaves = append(leaves, rp.v.EntryFieldTerm(st, f.Name(), l.Path, ref))
		}
		if !allKnown {
			continue // field never read by the verification condition: irrelevant, left zero
		}
		ex, ok := rp.valueExpr(ft, leaves, depth+1)
		if !ok {
			if rp.failed != "" {
				return false
			}
			continue
		}
		rp.decls = append(rp.decls, fmt.Sprintf("%s.%s = %s", lhs, f.Name(), ex))
	}
	return true
}

// tryReplay attempts to reproduce a failed obligation's model on the real code.
func tryReplay(opts RunOpts, r *vc.Result, e *vc.Engine) (bool, string) {
	o := r.Obl
	fn := e.Func(o.Func)
	if fn == nil || fn.Blocks == nil || fn.Parent() != nil {
		return false, "no replay: not a top-level function"
	}
	isK1 := false
	switch o.Kind {
	case "nil", "bounds", "div", "assert", "panic", "typeassert":
		isK1 = true
	case "ensures":
	default:
		return false, "no replay harness for obligations of kind " + o.Kind + " (path-shaped counterexample); model attached"
	}
	dir, err := os.MkdirTemp("/var/tmp", "govc-replay.")
	if err != nil {
		return false, err.Error()
	}
	defer os.RemoveAll(dir)
	rp := &replayer{e: e, v: r.VC, o: o, cache: map[string]string{}, dir: dir, objs: map[string]string{}}
	if fn.Pkg != nil {
		rp.pkg = fn.Pkg.Pkg
	}
	// parameters
	var args []string
	widx := 0
	for _, p := range fn.Params {
		ls := e.LeavesOf(p.Type())
		var leaves []string
		for range ls {
			if widx >= len(o.Watch) {
				return false, "no replay: parameter terms unavailable"
			}
			leaves = append(leaves, o.Watch[widx].Term)
			widx++
		}
		ex, ok := rp.valueExpr(p.Type(), leaves, 0)
		if !ok {
			why := rp.failed
			if why == "" {
				why = "parameter " + p.Name() + " of type " + p.Type().String() + " cannot be rebuilt from a model"
			}
			return false, "no replay: " + why
		}
		v := rp.newVar("arg")
		rp.decls = append(rp.decls, fmt.Sprintf("%s := %s", v, ex))
		args = append(args, v)
	}
	// call expression
	var call string
	if fn.Signature.Recv() != nil {
		call = args[0] + "." + fn.Name() + "(" + strings.Join(args[1:], ", ") + ")"
	} else {
		call = fn.Name() + "(" + strings.Join(args, ", ") + ")"
	}
	nres := fn.Signature.Results().Len()
	var resNames []string
	for i := 0; i < nres; i++ {
		resNames = append(resNames, fmt.Sprintf("res%d", i))
	}
	check := "true"
	preOld := ""
	if !isK1 {
		tr := &goTranslator{e: e, fn: fn, args: args, res: resNames, pkg: rp.pkg}
		ex, err := tr.clause(o.Detail)
		if err != nil {
			return false, "no replay: the clause cannot be evaluated at run time (" + err.Error() + "); model attached"
		}
		check = ex
		preOld = strings.Join(tr.oldDecls, "\n\t")
	}
	var src strings.Builder
	fmt.Fprintf(&src, "package %s\n\nimport (\n\t\"fmt\"\n\t\"testing\"\n)\n\n", rp.pkg.Name())
	src.WriteString("func TestGovcReplay(t *testing.T) {\n")
	for _, d := range rp.decls {
		src.WriteString("\t" + d + "\n")
	}
	for _, a := range args {
		src.WriteString("\t_ = " + a + "\n")
	}
	if preOld != "" {
		src.WriteString("\t" + preOld + "\n")
	}
	src.WriteString("\tpanicked := false\n\tvar pv interface{}\n")
	for i, rn := range resNames {
		fmt.Fprintf(&src, "\tvar %s %s\n\t_ = %s\n", rn, rp.typeExpr(fn.Signature.Results().At(i).Type()), rn)
	}
	src.WriteString("\tfunc() {\n\t\tdefer func() { if p := recover(); p != nil { panicked = true; pv = p } }()\n")
	if nres > 0 {
		src.WriteString("\t\t" + strings.Join(resNames, ", ") + " = " + call + "\n")
	} else {
		src.WriteString("\t\t" + call + "\n")
	}
	src.WriteString("\t}()\n")
	if isK1 {
		src.WriteString("\tif panicked { fmt.Printf(\"GOVC-REPRODUCED panic: %v\\n\", pv) } else { fmt.Println(\"GOVC-NOT-REPRODUCED no panic\") }\n")
	} else {
		src.WriteString("\tif panicked { fmt.Printf(\"GOVC-REPRODUCED panic: %v\\n\", pv); return }\n")
		src.WriteString("\tholds := func() (ok bool) { defer func() { if recover() != nil { ok = false } }(); return " + check + " }()\n")
		src.WriteString("\tif !holds { fmt.Println(\"GOVC-REPRODUCED postcondition is false\") } else { fmt.Println(\"GOVC-NOT-REPRODUCED postcondition holds\") }\n")
	}
	src.WriteString("}\n")
	testFile := filepath.Join(dir, "zz_govc_replay_test.go")
	if err := os.WriteFile(testFile, []byte(src.String()), 0o644); err != nil {
		return false, err.Error()
	}
	pkgDir := opts.Repo
	if rel := strings.TrimPrefix(strings.TrimPrefix(rp.pkg.Path(), vc.ModulePath), "/"); rel != "" {
		pkgDir = filepath.Join(opts.Repo, rel)
	}
	ov := fmt.Sprintf("{\"Replace\":{%q:%q}}", filepath.Join(pkgDir, "zz_govc_replay_test.go"), testFile)
	ovFile := filepath.Join(dir, "ov.json")
	_ = os.WriteFile(ovFile, []byte(ov), 0o644)
	ctx, cancel := context.WithTimeout(context.Background(), 150*time.Second)
	defer cancel()
	cmd := exec.CommandContext(ctx, "go", "test", "-tags", "verif", "-overlay", ovFile, "-vet=off", "-count=1", "-timeout", "60s", "-run", "^TestGovcReplay$", "-v", ".")
	cmd.Dir = pkgDir
	cmd.Env = append(os.Environ(), "GOFLAGS=-mod=mod", "GOPROXY=off", "GOSUMDB=off", "GOTOOLCHAIN=local")
	var out bytes.Buffer
	cmd.Stdout = &out
	cmd.Stderr = &out
	_ = cmd.Run()
	text := out.String()
	detail := "replay test (in-package, injected with -overlay):\n" + src.String() + "\noutput:\n" + head(text, 30)
	if strings.Contains(text, "GOVC-REPRODUCED") {
		return true, detail
	}
	return false, detail
}

func runReplay(repo, verif, prop, path string) int {
	data, err := os.ReadFile(path)
	if err != nil {
		fmt.Fprintln(os.Stderr, err)
		return 2
	}
	os.Stdout.Write(data)
	fmt.Println()
	// re-run the recorded test, if any
	var rep map[string]interface{}
	if err := jsonUnmarshal(data, &rep); err == nil {
		if s, ok := rep["replay"].(string); ok && strings.Contains(s, "func TestGovcReplay") {
			a := strings.Index(s, "package ")
			b := strings.Index(s, "\noutput:\n")
			if a >= 0 && b > a {
				src := s[a:b]
				dir, _ := os.MkdirTemp("/var/tmp", "govc-replay.")
				defer os.RemoveAll(dir)
				testFile := filepath.Join(dir, "zz_govc_replay_test.go")
				_ = os.WriteFile(testFile, []byte(src), 0o644)
				pkgName := strings.Fields(src)[1]
				pkgDir := repo
				switch pkgName {
				case "http", "chunk", "internal", "fuse", "consul", "lfsc":
					pkgDir = map[string]string{"http": repo + "/http", "chunk": repo + "/internal/chunk", "internal": repo + "/internal", "fuse": repo + "/fuse", "consul": repo + "/consul", "lfsc": repo + "/lfsc"}[pkgName]
				}
				ov := fmt.Sprintf("{\"Replace\":{%q:%q}}", filepath.Join(pkgDir, "zz_govc_replay_test.go"), testFile)
				ovFile := filepath.Join(dir, "ov.json")
				_ = os.WriteFile(ovFile, []byte(ov), 0o644)
				cmd := exec.Command("go", "test", "-tags", "verif", "-overlay", ovFile, "-vet=off", "-count=1", "-timeout", "60s", "-run", "^TestGovcReplay$", "-v", ".")
				cmd.Dir = pkgDir
				cmd.Env = append(os.Environ(), "GOFLAGS=-mod=mod", "GOPROXY=off", "GOSUMDB=off", "GOTOOLCHAIN=local")
				out, _ := cmd.CombinedOutput()
				fmt.Println("--- re-run against the current tree ---")
				fmt.Println(string(out))
				if strings.Contains(string(out), "GOVC-REPRODUCED") {
					return 1
				}
			}
		}
	}
	return 0
}

var _ = ssa.Function{}
