package main

import (
	"encoding/json"
	"fmt"
	"os"
	"os/exec"
	"path/filepath"
	"sort"
	"strings"
	"time"
)

type mutantMeta struct {
	Property string `json:"property"`
	Expect   string `json:"expect_obligation_contains"`
	What     string `json:"what"`
}

// runSelftest applies every must-fail mutant of the property (or all) to a scratch copy of the repository and
// requires that the check reports the expected obligation as failed/undecided. The result is evidence about the
// checker, not about /repo.
func runSelftest(repo, verif, prop string, verbose bool) int {
	pattern := filepath.Join(verif, "selftest", "mutants", "*", "*.patch")
	if prop != "" {
		pattern = filepath.Join(verif, "selftest", "mutants", prop, "*.patch")
	}
	patches, _ := filepath.Glob(pattern)
	sort.Strings(patches)
	weak := 0
	for _, p := range patches {
		var meta mutantMeta
		if err := loadJSON(strings.TrimSuffix(p, ".patch")+".json", &meta); err != nil {
			fmt.Printf("SELFTEST-SKIP %s: no meta\n", p)
			continue
		}
		scratch, err := os.MkdirTemp("/var/tmp", "govc-mut.")
		if err != nil {
			fmt.Println("SELFTEST-ERROR", err)
			return 2
		}
		cp := exec.Command("rsync", "-a", "--exclude", ".git", repo+"/", scratch+"/")
		if out, err := cp.CombinedOutput(); err != nil {
			fmt.Printf("SELFTEST-ERROR copy: %v %s\n", err, out)
			os.RemoveAll(scratch)
			return 2
		}
		ap := exec.Command("patch", "-p1", "-s", "-d", scratch, "-i", p)
		if out, err := ap.CombinedOutput(); err != nil {
			fmt.Printf("SELFTEST-STALE %s: patch does not apply (%s)\n", filepath.Base(p), strings.TrimSpace(string(out)))
			os.RemoveAll(scratch)
			continue
		}
		// restrict the run to the function named in the expectation when possible
		filter := meta.Expect
		if k := strings.Index(filter, "/"); k >= 0 {
			filter = filter[:k]
		}
		out, err := RunCheck(RunOpts{Repo: scratch, Verif: verif, Prop: meta.Property, FuncFilter: filter, Tier: "quick", Quiet: true, NoEvidence: true, NoReplay: true}, time.Now())
		os.RemoveAll(scratch)
		if err != nil {
			fmt.Printf("SELFTEST-ERROR %s: %v\n", filepath.Base(p), err)
			weak++
			continue
		}
		hit := false
		for _, n := range append(append([]string{}, out.FailedNames...), out.UndecidedNames...) {
			if strings.Contains(n, meta.Expect) {
				hit = true
			}
		}
		if hit {
			fmt.Printf("SELFTEST-OK   %s/%s: caught by an obligation containing %q\n", meta.Property, meta.What, meta.Expect)
		} else {
			fmt.Printf("SELFTEST-WEAK %s/%s: no failing obligation contains %q (failed=%v undecided=%v)\n", meta.Property, meta.What, meta.Expect, out.FailedNames, out.UndecidedNames)
			weak++
		}
	}
	if weak > 0 {
		return 1
	}
	return 0
}

var _ = json.Marshal
